/-
  C10 helper lemmas: the base `Feature` conversion.
    * `frameshift_undo_redo`: the codon_start adjustment undone on writing is redone exactly on reading
    * `get?_toBio`: every qualifier of the written feature, as a function of the feature's state
    * `applyLeftovers_spec`: what the shared tail of `from_biopython` leaves in the feature
-/
import ASV.Proofs.SerialQ
import ASV.Proofs.SerialString
import ASV.Proofs.LocConnect
import ASV.Spec.Serial
namespace ASV.Serial
open ASV

/-! ### codon_start -/

theorem strand_adjust (p q : Part) (rest : List Part) (h : q.strand = p.strand) :
    (Loc.compound (q :: rest)).strand = (Loc.compound (p :: rest)).strand := by
  simp [Loc.strand, h]

theorem maxList_head_raise (a o : Int) (t : List Int) (h : a = maxList (a :: t)) (ho : 0 ≤ o) :
    a + o = maxList ((a + o) :: t) := by
  have hge : ∀ y ∈ t, y ≤ a := fun y hy => by
    rw [h]; exact le_maxList_of_mem (List.mem_cons_of_mem _ hy)
  have hm := maxList_mem (l := (a + o) :: t) (by simp)
  rcases List.mem_cons.1 hm with e | hm
  · exact e.symm
  · have h1 := hge _ hm
    have h2 : a + o ≤ maxList ((a + o) :: t) := le_maxList_of_mem (by simp)
    omega

theorem minList_head_lower (a o : Int) (t : List Int) (h : a = minList (a :: t)) (ho : o ≤ 0) :
    a + o = minList ((a + o) :: t) := by
  have hle : ∀ y ∈ t, a ≤ y := fun y hy => by
    rw [h]; exact minList_le_of_mem (List.mem_cons_of_mem _ hy)
  have hm := minList_mem (l := (a + o) :: t) (by simp)
  rcases List.mem_cons.1 hm with e | hm
  · exact e.symm
  · have h1 := hle _ hm
    have h2 : minList ((a + o) :: t) ≤ a + o := minList_le_of_mem (by simp)
    omega

theorem beq_rev_false {s : Strand} (h : s ≠ .rev) : (s == Strand.rev) = false := by
  cases s
  · rfl
  · exact absurd rfl h
  · rfl
  · rfl

/-- the first part with its translation-start side moved by `o` -/
def movePart (p : Part) (o : Int) : Part :=
  if p.strand == .rev then { p with hi := p.hi + o } else { p with lo := p.lo + o }

theorem movePart_strand (p : Part) (o : Int) : (movePart p o).strand = p.strand := by
  unfold movePart; split <;> rfl

theorem movePart_back (p : Part) (o : Int) : movePart (movePart p o) (-o) = p := by
  obtain ⟨a, b, c⟩ := p
  unfold movePart
  by_cases h : c = Strand.rev
  · subst h; simp; omega
  · have : (c == Strand.rev) = false := beq_rev_false h
    simp [this]; omega

theorem adjust_simple (p : Part) (o : Int) (ho : o ≠ 0) (hr : -2 ≤ o ∧ o ≤ 2) :
    adjustByOffset (.simple p) o =
      if (movePart p o).hi < (movePart p o).lo then .error "value-error" else .ok (.simple (movePart p o)) := by
  have hr' : (decide (-2 ≤ o) && decide (o ≤ 2)) = true := by simp [hr.1, hr.2]
  unfold adjustByOffset
  simp only [ho, if_false, hr', Bool.not_true, Bool.false_eq_true]
  show ((do let q ← (if (movePart p o).hi < (movePart p o).lo then throw "value-error" else pure (movePart p o)); pure (Loc.simple q)) : E Loc) = _
  by_cases hq : (movePart p o).hi < (movePart p o).lo
  · simp only [hq, if_true]; rfl
  · simp only [hq, if_false]; rfl

theorem adjust_compound (p : Part) (rest : List Part) (o : Int) (ho : o ≠ 0) (hr : -2 ≤ o ∧ o ≤ 2) :
    adjustByOffset (.compound (p :: rest)) o =
      if (!bridgesOrigin (.compound (p :: rest)) &&
          (if (Loc.compound (p :: rest)).strand == .rev then decide (p.hi ≠ (Loc.compound (p :: rest)).end)
           else decide (p.lo ≠ (Loc.compound (p :: rest)).start))) = true then .error "assertion"
      else if (movePart p o).hi < (movePart p o).lo then .error "value-error"
      else .ok (.compound (movePart p o :: rest)) := by
  have hr' : (decide (-2 ≤ o) && decide (o ≤ 2)) = true := by simp [hr.1, hr.2]
  unfold adjustByOffset
  simp only [ho, if_false, hr', Bool.not_true, Bool.false_eq_true]
  have hm : (if (p.strand == Strand.rev) = true then ({ lo := p.lo, hi := p.hi + o, strand := p.strand } : Part)
      else { lo := p.lo + o, hi := p.hi, strand := p.strand }) = movePart p o := by unfold movePart; rfl
  simp only [hm]
  by_cases hA : (!bridgesOrigin (.compound (p :: rest)) &&
      (if (Loc.compound (p :: rest)).strand == .rev then decide (p.hi ≠ (Loc.compound (p :: rest)).end)
       else decide (p.lo ≠ (Loc.compound (p :: rest)).start))) = true
  · rw [if_pos hA, if_pos hA]; rfl
  · rw [if_neg hA, if_neg hA]
    by_cases hq : (movePart p o).hi < (movePart p o).lo
    · rw [if_pos hq, if_pos hq]; rfl
    · rw [if_neg hq, if_neg hq]; rfl

/-- moving the translation start by `o` and then by `-o`, in the direction in which the code undoes a
    codon_start shift (start lowered on the forward strand, end raised on the reverse strand); `hbr`:
    the small shift does not change whether the exon order says "crosses the origin" -/
theorem adjust_back (l l' : Loc) (o : Int) (hwf : ∀ p ∈ l.parts, p.lo ≤ p.hi)
    (hdir : if l.strand == .rev then 0 ≤ o else o ≤ 0) (hbr : bridgesOrigin l' = bridgesOrigin l)
    (h : adjustByOffset l o = .ok l') : adjustByOffset l' (-o) = .ok l ∧ l'.strand = l.strand := by
  by_cases ho : o = 0
  · subst ho
    have : adjustByOffset l 0 = .ok l := by simp [adjustByOffset, pure, Except.pure]
    rw [this] at h; cases h
    exact ⟨by simpa using this, rfl⟩
  · by_cases hr : -2 ≤ o ∧ o ≤ 2
    · have hno : -o ≠ 0 := by omega
      have hr' : -2 ≤ -o ∧ -o ≤ 2 := by omega
      cases l with
      | simple p =>
        have hp := hwf p (by simp [Loc.parts])
        rw [adjust_simple p o ho hr] at h
        by_cases hq : (movePart p o).hi < (movePart p o).lo
        · simp [hq] at h
        · simp only [hq, if_false] at h
          cases h
          refine ⟨?_, by simp [Loc.strand, movePart_strand]⟩
          rw [adjust_simple _ _ hno hr', movePart_back]
          have : ¬ p.hi < p.lo := by omega
          simp [this]
      | compound ps =>
        cases ps with
        | nil =>
          have hr2 : (decide (-2 ≤ o) && decide (o ≤ 2)) = true := by simp [hr.1, hr.2]
          unfold adjustByOffset at h
          simp only [ho, if_false, hr2, Bool.not_true, Bool.false_eq_true] at h
          cases h
        | cons p rest =>
          have hp := hwf p (by simp [Loc.parts])
          rw [adjust_compound p rest o ho hr] at h
          have hst : (Loc.compound (movePart p o :: rest)).strand = (Loc.compound (p :: rest)).strand :=
            strand_adjust p _ rest (movePart_strand p o)
          by_cases hassert : (!bridgesOrigin (.compound (p :: rest)) &&
              (if (Loc.compound (p :: rest)).strand == .rev then decide (p.hi ≠ (Loc.compound (p :: rest)).end)
               else decide (p.lo ≠ (Loc.compound (p :: rest)).start))) = true
          · rw [if_pos hassert] at h; cases h
          · rw [if_neg hassert] at h
            by_cases hq : (movePart p o).hi < (movePart p o).lo
            · simp [hq] at h
            · simp only [hq, if_false] at h
              cases h
              refine ⟨?_, hst⟩
              rw [adjust_compound _ _ _ hno hr', hst, movePart_back, hbr]
              have hnp : ¬ p.hi < p.lo := by omega
              by_cases hb : bridgesOrigin (.compound (p :: rest)) = true
              · simp [hb, hnp]
              · have hb' : bridgesOrigin (.compound (p :: rest)) = false := by simpa using hb
                simp only [hb', Bool.not_false, Bool.true_and] at hassert ⊢
                by_cases hs : ((Loc.compound (p :: rest)).strand == .rev) = true
                · simp only [hs, if_true, decide_eq_true_eq, Classical.not_not] at hassert hdir ⊢
                  have hps : p.strand = .rev := by
                    have hs' : (Loc.compound (p :: rest)).strand = .rev := by simpa using hs
                    simp only [Loc.strand] at hs'
                    by_cases hall : rest.all (fun x => x.strand == p.strand) = true
                    · simpa [hall] using hs'
                    · simp [hall] at hs'
                  have hmv : (movePart p o).hi = p.hi + o := by simp [movePart, hps]
                  have hend : (movePart p o).hi = (Loc.compound (movePart p o :: rest)).end := by
                    have ha' : p.hi = maxList (p.hi :: rest.map (·.hi)) := by simpa [Loc.end] using hassert
                    have := maxList_head_raise p.hi o (rest.map (·.hi)) ha' hdir
                    simp only [Loc.end, List.map_cons, hmv]; exact this
                  simp [hend, hnp]
                · simp only [hs, Bool.false_eq_true, if_false, decide_eq_true_eq, Classical.not_not] at hassert hdir ⊢
                  have hstart : (movePart p o).lo = (Loc.compound (movePart p o :: rest)).start := by
                    have ha' : p.lo = minList (p.lo :: rest.map (·.lo)) := by simpa [Loc.start] using hassert
                    by_cases hps : p.strand = .rev
                    · have hmv : (movePart p o).lo = p.lo := by simp [movePart, hps]
                      simp only [Loc.start, List.map_cons, hmv]; exact ha'
                    · have hps' : (p.strand == Strand.rev) = false := beq_rev_false hps
                      have hmv : (movePart p o).lo = p.lo + o := by simp [movePart, hps']
                      have := minList_head_lower p.lo o (rest.map (·.lo)) ha' hdir
                      simp only [Loc.start, List.map_cons, hmv]; exact this
                  simp [hstart, hnp]
    · have hr2 : (decide (-2 ≤ o) && decide (o ≤ 2)) = false := by
        simp only [Bool.and_eq_false_iff, decide_eq_false_iff_not]
        by_cases h1 : -2 ≤ o
        · right; intro h2; exact hr ⟨h1, h2⟩
        · left; exact h1
      unfold adjustByOffset at h
      simp only [ho, if_false, hr2, Bool.not_false, if_true] at h
      cases h

theorem frameshift_eq (l : Loc) (c : Int) (undo : Bool) (hc : 0 ≤ c ∧ c ≤ 2) :
    frameshift l (c + 1) undo =
      adjustByOffset l (if undo then -(if l.strand == .rev then -c else c) else (if l.strand == .rev then -c else c)) := by
  have e : c + 1 - 1 = c := by omega
  have hr : (decide (0 ≤ c) && decide (c ≤ 2)) = true := by simp [hc.1, hc.2]
  unfold frameshift
  simp only [e, hr, Bool.not_true, Bool.false_eq_true, if_false]

theorem frameshift_err (l : Loc) (c : Int) (undo : Bool) (hc : ¬ (0 ≤ c ∧ c ≤ 2)) :
    frameshift l (c + 1) undo = .error "value-error" := by
  have e : c + 1 - 1 = c := by omega
  have hr : (decide (0 ≤ c) && decide (c ≤ 2)) = false := by
    simp only [Bool.and_eq_false_iff, decide_eq_false_iff_not]
    by_cases h1 : 0 ≤ c
    · right; intro h2; exact hc ⟨h1, h2⟩
    · left; exact h1
  unfold frameshift
  simp only [e, hr, Bool.not_false, if_true]
  rfl

/-- a codon_start adjustment undone when writing is redone exactly when reading -/
theorem frameshift_undo_redo (l l' : Loc) (c : Int) (hwf : ∀ p ∈ l.parts, p.lo ≤ p.hi)
    (hbr : bridgesOrigin l' = bridgesOrigin l)
    (h : frameshift l (c + 1) true = .ok l') : frameshift l' (c + 1) false = .ok l ∧ 0 ≤ c ∧ c ≤ 2 := by
  by_cases hc : 0 ≤ c ∧ c ≤ 2
  · rw [frameshift_eq l c true hc] at h
    simp only [if_true] at h
    have hb := adjust_back l l' _ hwf (by
      by_cases hs : (l.strand == Strand.rev) = true
      · simp only [hs, if_true]; omega
      · simp only [hs, Bool.false_eq_true, if_false]; omega) hbr h
    refine ⟨?_, hc⟩
    rw [frameshift_eq l' c false hc, hb.2]
    simp only [Bool.false_eq_true, if_false]
    simpa using hb.1
  · rw [frameshift_err l c true hc] at h; cases h

end ASV.Serial

namespace ASV.Serial
open ASV

/-! ### the written qualifiers as a function of the feature -/

theorem Q.get?_update (o : Quals) : ∀ (q : Quals), Q.Nodup o → ∀ k,
    Q.get? (Q.update q o) k = match Q.get? o k with | some v => some v | none => Q.get? q k := by
  induction o with
  | nil => intro q _ k; simp [Q.update, Q.get?]
  | cons e rest ih =>
    intro q hn k
    obtain ⟨k1, v1⟩ := e
    have hn' := List.nodup_cons.1 hn
    have : Q.update q ((k1, v1) :: rest) = Q.update (Q.set q k1 v1) rest := rfl
    rw [this, ih _ hn'.2 k, Q.get?_set]
    by_cases hk : k1 = k
    · subst hk
      have : Q.get? rest k1 = none := (Q.get?_none_iff rest k1).2 hn'.1
      simp [Q.get?, this]
    · have hk' : ¬ k = k1 := fun e => hk e.symm
      simp [Q.get?, hk, hk']

/-- all notes of a feature: the stored `note` qualifier, the `notes` attribute, the caller's notes -/
def allNotes (f : Feat) (extra : Quals) : List String :=
  (Q.get? f.quals "note").getD [] ++ f.notes ++ (Q.get? extra "note").getD []

/-- the dictionary `Feature.to_biopython` builds before sorting it -/
def finalQuals (f : Feat) (extra : Quals) : Quals :=
  let q0 := Q.update f.quals (Q.erase extra "note")
  let q1 := if (allNotes f extra).isEmpty then q0 else Q.set q0 "note" (sortStrs (allNotes f extra))
  let q2 := if f.byAS then Q.set q1 "tool" ["antismash"] else q1
  match f.codon with
  | none => q2
  | some c => Q.set q2 "codon_start" [strOfInt (c + 1)]

theorem toBio_eq (f : Feat) (extra : Quals) :
    f.toBio extra = match f.codon with
      | none => .ok ⟨f.loc, f.type, Q.sortKeys (finalQuals f extra)⟩
      | some c => (frameshift f.loc (c + 1) true).map fun loc => ⟨loc, f.type, Q.sortKeys (finalQuals f extra)⟩ := by
  unfold Feat.toBio finalQuals allNotes
  cases extra with
  | nil =>
    simp only [List.isEmpty_nil, if_true, Q.get?, Option.getD_none, List.append_nil, Q.erase, List.filter_nil, Q.update,
      List.foldl_nil]
    cases hc : f.codon with
    | none => rfl
    | some c =>
      simp only [bind, Except.bind, pure, Except.pure, Except.map]
      try (cases frameshift f.loc (c + 1) true <;> rfl)
  | cons e rest =>
    simp only [List.isEmpty_cons, Bool.false_eq_true, if_false]
    cases hc : f.codon with
    | none => rfl
    | some c =>
      simp only [bind, Except.bind, pure, Except.pure, Except.map]
      try (cases frameshift f.loc (c + 1) true <;> rfl)

theorem nodup_finalQuals (f : Feat) (extra : Quals) (h : Q.Nodup f.quals) : Q.Nodup (finalQuals f extra) := by
  unfold finalQuals
  have h0 : Q.Nodup (Q.update f.quals (Q.erase extra "note")) := Q.nodup_update h _
  have h1 : Q.Nodup (if (allNotes f extra).isEmpty then Q.update f.quals (Q.erase extra "note")
      else Q.set (Q.update f.quals (Q.erase extra "note")) "note" (sortStrs (allNotes f extra))) := by
    split
    · exact h0
    · exact Q.nodup_set h0 _ _
  have h2 : Q.Nodup (if f.byAS then Q.set (if (allNotes f extra).isEmpty then Q.update f.quals (Q.erase extra "note")
      else Q.set (Q.update f.quals (Q.erase extra "note")) "note" (sortStrs (allNotes f extra))) "tool" ["antismash"]
      else (if (allNotes f extra).isEmpty then Q.update f.quals (Q.erase extra "note")
      else Q.set (Q.update f.quals (Q.erase extra "note")) "note" (sortStrs (allNotes f extra)))) := by
    split
    · exact Q.nodup_set h1 _ _
    · exact h1
  cases f.codon with
  | none => exact h2
  | some c => exact Q.nodup_set h2 _ _

/-- every qualifier of the written feature -/
theorem get?_finalQuals (f : Feat) (extra : Quals) (he : Q.Nodup extra) (k : String) :
    Q.get? (finalQuals f extra) k =
      if k = "codon_start" ∧ f.codon.isSome then f.codon.map fun c => [strOfInt (c + 1)]
      else if k = "tool" ∧ f.byAS = true then some ["antismash"]
      else if k = "note" ∧ (allNotes f extra).isEmpty = false then some (sortStrs (allNotes f extra))
      else match (if k = "note" then none else Q.get? extra k) with
        | some v => some v
        | none => Q.get? f.quals k := by
  have hu : Q.get? (Q.update f.quals (Q.erase extra "note")) k =
      match (if k = "note" then none else Q.get? extra k) with
      | some v => some v
      | none => Q.get? f.quals k := by
    rw [Q.get?_update _ _ (Q.nodup_erase he _), Q.get?_erase]
  unfold finalQuals
  cases hc : f.codon <;> cases hb : f.byAS <;> cases hn : (allNotes f extra).isEmpty <;>
    by_cases h1 : k = "codon_start" <;> by_cases h2 : k = "tool" <;> by_cases h3 : k = "note" <;>
    simp_all [Q.get?_set]

end ASV.Serial

namespace ASV.Serial
open ASV

/-! ### reading the written feature back -/

theorem intOfStr_strOfInt (i : Int) : intOfStr (strOfInt i) = some i := by
  simp [intOfStr, strOfInt, parseInt_intChars]

theorem firstDigit_codon (c : Int) (h : 0 ≤ c ∧ c ≤ 2) : firstDigit (strOfInt (c + 1)) = .ok (c + 1) := by
  have : c = 0 ∨ c = 1 ∨ c = 2 := by omega
  rcases this with rfl | rfl | rfl <;> rfl

theorem Q.erase_absent (q : Quals) (k : String) (h : Q.get? q k = none) : Q.erase q k = q := by
  have hk := (Q.get?_none_iff q k).1 h
  unfold Q.erase
  rw [List.filter_eq_self]
  intro e he
  have : e.1 ≠ k := fun e' => hk (by rw [← e']; exact List.mem_map.2 ⟨e, he, rfl⟩)
  simpa using this

theorem Q.isEmpty_of_get? {q : Quals} {k : String} {v : List String} (h : Q.get? q k = some v) : q.isEmpty = false := by
  cases q with
  | nil => simp [Q.get?] at h
  | cons _ _ => rfl

theorem applyLeftovers_plain (f0 : Feat) (L : Quals) (hq : f0.quals = []) (hL : Q.Nodup L)
    (hc : Q.get? L "codon_start" = none) :
    applyLeftovers f0 L =
      .ok { f0 with byAS := !L.isEmpty && (Q.get? L "tool" == some ["antismash"]), quals := L } := by
  unfold applyLeftovers
  cases hL0 : L.isEmpty
  · simp only [Bool.false_eq_true, if_false, hc, hq, Q.update_nil L hL, Bool.not_false, Bool.true_and]
    rfl
  · have : L = [] := List.isEmpty_iff.1 hL0
    subst this
    simp only [if_true, Bool.not_true, Bool.false_and, pure, Except.pure]
    rw [← hq]

theorem applyLeftovers_codon (f0 : Feat) (L : Quals) (hq : f0.quals = []) (hL : Q.Nodup L) (c : Int)
    (hc : Q.get? L "codon_start" = some [strOfInt (c + 1)]) (hr : 0 ≤ c ∧ c ≤ 2) :
    applyLeftovers f0 L = (frameshift f0.loc (c + 1) false).map fun loc =>
      { f0 with byAS := (Q.get? L "tool" == some ["antismash"]), loc := loc, codon := some c,
                quals := Q.erase L "codon_start" } := by
  unfold applyLeftovers
  have hne := Q.isEmpty_of_get? hc
  simp only [hne, Bool.false_eq_true, if_false, hc, firstDigit_codon c hr, intOfStr_strOfInt, hq,
    Q.update_nil _ (Q.nodup_erase hL "codon_start"), bind, Except.bind, pure, Except.pure, Except.map]
  cases frameshift f0.loc (c + 1) false with
  | error e => rfl
  | ok loc =>
    simp only [Int.add_sub_cancel]

/-- well-formed base feature: a proper dictionary, `codon_start` only through the dedicated field, no
    stored empty note list, an `antismash` tool qualifier only on features made by antiSMASH, parts
    that are not inverted -/
structure Feat.WF (f : Feat) : Prop where
  quals : Q.Nodup f.quals
  noCodonKey : Q.get? f.quals "codon_start" = none
  noEmptyNote : Q.get? f.quals "note" ≠ some []
  tool : Q.get? f.quals "tool" = some ["antismash"] → f.byAS = true
  parts : ∀ p ∈ f.loc.parts, p.lo ≤ p.hi
  /-- undoing the codon_start shift (at most two bases) does not change whether the exon order
      says "crosses the origin" (true whenever exon starts are more than two bases apart) -/
  bridge : ∀ c l', f.codon = some c → frameshift f.loc (c + 1) true = .ok l' → bridgesOrigin l' = bridgesOrigin f.loc

/-- the state of a plain `Feature` after it was written and read back -/
def Feat.norm (f : Feat) : Feat :=
  { f with notes := sortStrs (allNotes f []),
           quals := Q.erase (Q.erase (Q.sortKeys (finalQuals f [])) "note") "codon_start" }

/-- … and of a feature whose class hands its leftovers over (the notes stay in the dictionary) -/
def Feat.normSub (f : Feat) : Feat :=
  { f with notes := [], quals := Q.erase (Q.sortKeys (finalQuals f [])) "codon_start" }

theorem allNotes_nil (f : Feat) : allNotes f [] = (Q.get? f.quals "note").getD [] ++ f.notes := by
  simp [allNotes, Q.get?]

theorem get?_FQ_note (f : Feat) (_h : f.WF) :
    (Q.get? (finalQuals f []) "note").getD [] = sortStrs (allNotes f []) := by
  rw [get?_finalQuals f [] (by simp [Q.Nodup, Q.keys])]
  cases hn : (allNotes f []).isEmpty
  · simp
  · have he : allNotes f [] = [] := List.isEmpty_iff.1 hn
    have hs : (Q.get? f.quals "note").getD [] = [] := by
      rw [allNotes_nil] at he; exact (List.append_eq_nil_iff.1 he).1
    simp [he, sortStrs, Q.get?, hs]

theorem get?_FQ_codon_none (f : Feat) (h : f.WF) (hc : f.codon = none) : Q.get? (finalQuals f []) "codon_start" = none := by
  rw [get?_finalQuals f [] (by simp [Q.Nodup, Q.keys])]
  simp [hc, Q.get?, h.noCodonKey]

theorem get?_FQ_codon_some (f : Feat) (c : Int) (hc : f.codon = some c) :
    Q.get? (finalQuals f []) "codon_start" = some [strOfInt (c + 1)] := by
  rw [get?_finalQuals f [] (by simp [Q.Nodup, Q.keys])]
  simp [hc]

theorem get?_FQ_tool (f : Feat) (h : f.WF) :
    (Q.get? (finalQuals f []) "tool" == some ["antismash"]) = f.byAS := by
  rw [get?_finalQuals f [] (by simp [Q.Nodup, Q.keys])]
  cases hb : f.byAS
  · simp only [Bool.false_eq_true, and_false, if_false, Q.get?]
    have : Q.get? f.quals "tool" ≠ some ["antismash"] := fun e => by have := h.tool e; rw [hb] at this; cases this
    simp [this]
  · simp

theorem fromBio_toBio (f : Feat) (h : f.WF) (b : Bio) (hb : f.toBio = .ok b) : Feat.fromBio b = .ok f.norm := by
  have hFQ := nodup_finalQuals f [] h.quals
  have hS := Q.nodup_sortKeys hFQ
  have hL := Q.nodup_erase hS "note"
  rw [toBio_eq] at hb
  cases hc : f.codon with
  | none =>
    rw [hc] at hb
    cases hb
    unfold Feat.fromBio
    simp only
    have hcod : Q.get? (Q.erase (Q.sortKeys (finalQuals f [])) "note") "codon_start" = none := by
      rw [Q.get?_erase_other _ _ _ (by decide), Q.get?_sortKeys hFQ, get?_FQ_codon_none f h hc]
    rw [applyLeftovers_plain _ _ rfl hL hcod]
    have htool : Q.get? (Q.erase (Q.sortKeys (finalQuals f [])) "note") "tool" = Q.get? (finalQuals f []) "tool" := by
      rw [Q.get?_erase_other _ _ _ (by decide), Q.get?_sortKeys hFQ]
    have hby : (!(Q.erase (Q.sortKeys (finalQuals f [])) "note").isEmpty &&
        (Q.get? (Q.erase (Q.sortKeys (finalQuals f [])) "note") "tool" == some ["antismash"])) = f.byAS := by
      rw [htool, get?_FQ_tool f h]
      cases hby : f.byAS
      · simp
      · have : Q.get? (Q.erase (Q.sortKeys (finalQuals f [])) "note") "tool" = some ["antismash"] := by
          rw [htool]; have := get?_FQ_tool f h; rw [hby] at this; simpa using this
        simp [Q.isEmpty_of_get? this]
    unfold Feat.norm
    rw [hby, Q.get?_sortKeys hFQ, get?_FQ_note f h, Q.erase_absent _ _ hcod, hc]
  | some c =>
    rw [hc] at hb
    dsimp only at hb
    cases hfs : frameshift f.loc (c + 1) true with
    | error e => rw [hfs] at hb; cases hb
    | ok l' =>
      rw [hfs] at hb
      cases hb
      obtain ⟨hredo, hr⟩ := frameshift_undo_redo f.loc l' c h.parts (h.bridge c l' hc hfs) hfs
      unfold Feat.fromBio
      simp only
      have hcod : Q.get? (Q.erase (Q.sortKeys (finalQuals f [])) "note") "codon_start" = some [strOfInt (c + 1)] := by
        rw [Q.get?_erase_other _ _ _ (by decide), Q.get?_sortKeys hFQ, get?_FQ_codon_some f c hc]
      rw [applyLeftovers_codon _ _ rfl hL c hcod hr]
      simp only [hredo, Except.map]
      have htool : Q.get? (Q.erase (Q.sortKeys (finalQuals f [])) "note") "tool" = Q.get? (finalQuals f []) "tool" := by
        rw [Q.get?_erase_other _ _ _ (by decide), Q.get?_sortKeys hFQ]
      unfold Feat.norm
      rw [htool, get?_FQ_tool f h, Q.get?_sortKeys hFQ, get?_FQ_note f h, hc]

end ASV.Serial

namespace ASV.Serial
open ASV

theorem nodupNil : Q.Nodup ([] : Quals) := by simp [Q.Nodup, Q.keys]

theorem sortStrs_isEmpty (l : List String) : (sortStrs l).isEmpty = l.isEmpty := by
  have hp := (sortStrs_perm l).length_eq
  cases l with
  | nil => rfl
  | cons x xs =>
    cases hs : sortStrs (x :: xs) with
    | nil => rw [hs] at hp; simp at hp
    | cons _ _ => rfl

/-- lookups in the written dictionary for the keys the base class does not manage -/
theorem get?_FQ_other (f : Feat) (k : String) (h1 : k ≠ "codon_start") (h2 : k ≠ "tool") (h3 : k ≠ "note") :
    Q.get? (finalQuals f []) k = Q.get? f.quals k := by
  rw [get?_finalQuals f [] nodupNil]
  simp [h1, h2, h3, Q.get?]

theorem get?_FQ_note_none (f : Feat) (h : f.WF) (he : (allNotes f []).isEmpty = true) :
    Q.get? (finalQuals f []) "note" = none := by
  rw [get?_finalQuals f [] nodupNil]
  have hs : (Q.get? f.quals "note").getD [] = [] := by
    have := List.isEmpty_iff.1 he
    rw [allNotes_nil] at this; exact (List.append_eq_nil_iff.1 this).1
  have : Q.get? f.quals "note" = none := by
    cases hg : Q.get? f.quals "note" with
    | none => rfl
    | some v =>
      rw [hg] at hs; simp at hs; subst hs
      exact absurd hg h.noEmptyNote
  simp [he, Q.get?, this]

theorem get?_FQ_note_some (f : Feat) (he : (allNotes f []).isEmpty = false) :
    Q.get? (finalQuals f []) "note" = some (sortStrs (allNotes f [])) := by
  rw [get?_finalQuals f [] nodupNil]
  simp [he]

theorem get?_FQ_tool_false (f : Feat) (hb : f.byAS = false) : Q.get? (finalQuals f []) "tool" = Q.get? f.quals "tool" := by
  rw [get?_finalQuals f [] nodupNil]
  simp [hb, Q.get?]

theorem get?_FQ_tool_true (f : Feat) (hb : f.byAS = true) : Q.get? (finalQuals f []) "tool" = some ["antismash"] := by
  rw [get?_finalQuals f [] nodupNil]
  simp [hb]

/-- two features that agree on location, type, origin, codon start, on all notes together and on every
    other stored qualifier are written identically -/
theorem finalQuals_congr (f g : Feat) (hf : f.WF) (hg : g.WF) (hby : g.byAS = f.byAS) (hcod : g.codon = f.codon)
    (hnotes : sortStrs (allNotes g []) = sortStrs (allNotes f []))
    (hq : ∀ k, k ≠ "codon_start" → k ≠ "note" → (k = "tool" → f.byAS = false) → Q.get? g.quals k = Q.get? f.quals k) :
    Q.sortKeys (finalQuals g []) = Q.sortKeys (finalQuals f []) := by
  apply Q.sortKeys_congr (nodup_finalQuals g [] hg.quals) (nodup_finalQuals f [] hf.quals)
  intro k
  have hemp : (allNotes g []).isEmpty = (allNotes f []).isEmpty := by
    rw [← sortStrs_isEmpty, ← sortStrs_isEmpty (allNotes f []), hnotes]
  by_cases h1 : k = "codon_start"
  · subst h1
    cases hc : f.codon with
    | none => rw [get?_FQ_codon_none f hf hc, get?_FQ_codon_none g hg (hcod.trans hc)]
    | some c => rw [get?_FQ_codon_some f c hc, get?_FQ_codon_some g c (hcod.trans hc)]
  · by_cases h2 : k = "tool"
    · subst h2
      cases hb : f.byAS
      · rw [get?_FQ_tool_false f hb, get?_FQ_tool_false g (hby.trans hb)]
        exact hq "tool" (by decide) (by decide) (fun _ => hb)
      · rw [get?_FQ_tool_true f hb, get?_FQ_tool_true g (hby.trans hb)]
    · by_cases h3 : k = "note"
      · subst h3
        cases he : (allNotes f []).isEmpty
        · rw [get?_FQ_note_some f he, get?_FQ_note_some g (hemp.trans he), hnotes]
        · rw [get?_FQ_note_none f hf he, get?_FQ_note_none g hg (hemp.trans he)]
      · rw [get?_FQ_other f k h1 h2 h3, get?_FQ_other g k h1 h2 h3]
        exact hq k h1 h3 (fun e => absurd e h2)

theorem toBio_congr (f g : Feat) (hf : f.WF) (hg : g.WF) (hloc : g.loc = f.loc) (hty : g.type = f.type)
    (hby : g.byAS = f.byAS) (hcod : g.codon = f.codon)
    (hnotes : sortStrs (allNotes g []) = sortStrs (allNotes f []))
    (hq : ∀ k, k ≠ "codon_start" → k ≠ "note" → (k = "tool" → f.byAS = false) → Q.get? g.quals k = Q.get? f.quals k) :
    g.toBio = f.toBio := by
  rw [toBio_eq, toBio_eq, finalQuals_congr f g hf hg hby hcod hnotes hq, hloc, hty, hcod]

/-! #### the plain path -/

theorem get?_normQ (f : Feat) (h : f.WF) (k : String) :
    Q.get? f.norm.quals k = if k = "codon_start" ∨ k = "note" then none else Q.get? (finalQuals f []) k := by
  unfold Feat.norm
  simp only
  rw [Q.get?_erase, Q.get?_erase, Q.get?_sortKeys (nodup_finalQuals f [] h.quals)]
  by_cases h1 : k = "codon_start" <;> by_cases h3 : k = "note" <;> simp [h1, h3]

theorem allNotes_norm (f : Feat) (h : f.WF) : allNotes f.norm [] = sortStrs (allNotes f []) := by
  rw [allNotes_nil, get?_normQ f h]
  simp [Feat.norm]

theorem norm_WF (f : Feat) (h : f.WF) : f.norm.WF := by
  refine ⟨?_, ?_, ?_, ?_, h.parts, h.bridge⟩
  · exact Q.nodup_erase (Q.nodup_erase (Q.nodup_sortKeys (nodup_finalQuals f [] h.quals)) _) _
  · rw [get?_normQ f h]; simp
  · rw [get?_normQ f h]; simp
  · intro ht
    rw [get?_normQ f h] at ht
    simp only [show ¬ ("tool" = "codon_start" ∨ "tool" = "note") by decide, if_false] at ht
    have := get?_FQ_tool f h
    rw [ht] at this
    simpa [Feat.norm] using this.symm

theorem toBio_norm (f : Feat) (h : f.WF) : f.norm.toBio = f.toBio := by
  apply toBio_congr f f.norm h (norm_WF f h) rfl rfl rfl rfl
  · rw [allNotes_norm f h, sortStrs_idem]
  · intro k h1 h3 h2
    rw [get?_normQ f h]
    simp only [h1, h3, or_self, if_false]
    by_cases ht : k = "tool"
    · subst ht; exact get?_FQ_tool_false f (h2 rfl)
    · exact get?_FQ_other f k h1 ht h3

theorem view_congr (t : Bool) (f g : Feat) (hf : f.WF) (hg : g.WF) (hloc : g.loc = f.loc) (hty : g.type = f.type)
    (hby : g.byAS = f.byAS) (hcod : g.codon = f.codon)
    (hnotes : sortStrs (allNotes g []) = sortStrs (allNotes f []))
    (hq : ∀ k, k ≠ "codon_start" → k ≠ "note" → k ≠ "tool" → Q.get? g.quals k = Q.get? f.quals k) :
    g.view t = f.view t := by
  unfold Feat.view
  rw [hloc, hty, hby, hcod, ← allNotes_nil, ← allNotes_nil, hnotes]
  congr 1
  apply Q.sortKeys_congr (Q.nodup_erase (Q.nodup_erase hg.quals _) _) (Q.nodup_erase (Q.nodup_erase hf.quals _) _)
  intro k
  rw [Q.get?_erase, Q.get?_erase, Q.get?_erase, Q.get?_erase]
  by_cases h2 : k = "tool"
  · simp [h2]
  · by_cases h3 : k = "note"
    · simp [h3]
    · simp only [h2, h3, if_false]
      by_cases h1 : k = "codon_start"
      · subst h1; rw [hf.noCodonKey, hg.noCodonKey]
      · exact hq k h1 h3 h2

theorem view_norm (t : Bool) (f : Feat) (h : f.WF) : f.norm.view t = f.view t := by
  apply view_congr t f f.norm h (norm_WF f h) rfl rfl rfl rfl
  · rw [allNotes_norm f h, sortStrs_idem]
  · intro k h1 h3 h2
    rw [get?_normQ f h]
    simp only [h1, h3, or_self, if_false]
    exact get?_FQ_other f k h1 h2 h3

/-! #### the subclass path (`from_biopython` of genes, CDS, domains, …: notes stay in the dictionary) -/

theorem get?_normSubQ (f : Feat) (h : f.WF) (k : String) :
    Q.get? f.normSub.quals k = if k = "codon_start" then none else Q.get? (finalQuals f []) k := by
  unfold Feat.normSub
  simp only
  rw [Q.get?_erase, Q.get?_sortKeys (nodup_finalQuals f [] h.quals)]

theorem allNotes_normSub (f : Feat) (h : f.WF) : allNotes f.normSub [] = sortStrs (allNotes f []) := by
  rw [allNotes_nil, get?_normSubQ f h]
  simp only [show ¬ ("note" = "codon_start") by decide, if_false, get?_FQ_note f h]
  simp [Feat.normSub]

theorem normSub_WF (f : Feat) (h : f.WF) : f.normSub.WF := by
  refine ⟨?_, ?_, ?_, ?_, h.parts, h.bridge⟩
  · exact Q.nodup_erase (Q.nodup_sortKeys (nodup_finalQuals f [] h.quals)) _
  · rw [get?_normSubQ f h]; simp
  · rw [get?_normSubQ f h]
    simp only [show ¬ ("note" = "codon_start") by decide, if_false]
    cases he : (allNotes f []).isEmpty
    · rw [get?_FQ_note_some f he]
      intro e
      have : (sortStrs (allNotes f [])).isEmpty = true := by
        injection e with e; rw [e]; rfl
      rw [sortStrs_isEmpty, he] at this; cases this
    · rw [get?_FQ_note_none f h he]; simp
  · intro ht
    rw [get?_normSubQ f h] at ht
    simp only [show ¬ ("tool" = "codon_start") by decide, if_false] at ht
    have := get?_FQ_tool f h
    rw [ht] at this
    simpa [Feat.normSub] using this.symm

theorem fromBioSub_toBio (f : Feat) (h : f.WF) (b : Bio) (hb : f.toBio = .ok b) (by0 : Bool) :
    Feat.fromBioSub b by0 = .ok f.normSub := by
  have hFQ := nodup_finalQuals f [] h.quals
  have hS := Q.nodup_sortKeys hFQ
  rw [toBio_eq] at hb
  cases hc : f.codon with
  | none =>
    rw [hc] at hb
    cases hb
    unfold Feat.fromBioSub
    simp only
    have hcod : Q.get? (Q.sortKeys (finalQuals f [])) "codon_start" = none := by
      rw [Q.get?_sortKeys hFQ, get?_FQ_codon_none f h hc]
    rw [applyLeftovers_plain _ _ rfl hS hcod]
    have hby : (!(Q.sortKeys (finalQuals f [])).isEmpty &&
        (Q.get? (Q.sortKeys (finalQuals f [])) "tool" == some ["antismash"])) = f.byAS := by
      rw [Q.get?_sortKeys hFQ, get?_FQ_tool f h]
      cases hby : f.byAS
      · simp
      · have : Q.get? (Q.sortKeys (finalQuals f [])) "tool" = some ["antismash"] := by
          rw [Q.get?_sortKeys hFQ]; exact get?_FQ_tool_true f hby
        simp [Q.isEmpty_of_get? this]
    unfold Feat.normSub
    rw [hby, Q.erase_absent _ _ hcod, hc]
  | some c =>
    rw [hc] at hb
    dsimp only at hb
    cases hfs : frameshift f.loc (c + 1) true with
    | error e => rw [hfs] at hb; cases hb
    | ok l' =>
      rw [hfs] at hb
      cases hb
      obtain ⟨hredo, hr⟩ := frameshift_undo_redo f.loc l' c h.parts (h.bridge c l' hc hfs) hfs
      unfold Feat.fromBioSub
      simp only
      have hcod : Q.get? (Q.sortKeys (finalQuals f [])) "codon_start" = some [strOfInt (c + 1)] := by
        rw [Q.get?_sortKeys hFQ, get?_FQ_codon_some f c hc]
      rw [applyLeftovers_codon _ _ rfl hS c hcod hr]
      simp only [hredo, Except.map]
      unfold Feat.normSub
      rw [Q.get?_sortKeys hFQ, get?_FQ_tool f h, hc]

theorem toBio_normSub (f : Feat) (h : f.WF) : f.normSub.toBio = f.toBio := by
  apply toBio_congr f f.normSub h (normSub_WF f h) rfl rfl rfl rfl
  · rw [allNotes_normSub f h, sortStrs_idem]
  · intro k h1 h3 h2
    rw [get?_normSubQ f h]
    simp only [h1, if_false]
    by_cases ht : k = "tool"
    · subst ht; exact get?_FQ_tool_false f (h2 rfl)
    · exact get?_FQ_other f k h1 ht h3

theorem view_normSub (t : Bool) (f : Feat) (h : f.WF) : f.normSub.view t = f.view t := by
  apply view_congr t f f.normSub h (normSub_WF f h) rfl rfl rfl rfl
  · rw [allNotes_normSub f h, sortStrs_idem]
  · intro k h1 h3 h2
    rw [get?_normSubQ f h]
    simp only [h1, if_false]
    exact get?_FQ_other f k h1 h2 h3

end ASV.Serial
