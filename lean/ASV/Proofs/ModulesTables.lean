/-
  C14 helper lemmas, part 1: facts about the *regenerated* tables, discharged by `decide`, and
  the resulting classification of every component into exactly one behavioural kind.
  If an edit of the tables in module_identification.py breaks one of these facts the build of
  this file fails and the check reports the broken proof obligation.
-/
import ASV.Spec.Modules
namespace ASV.Modules
open T

/-- the behavioural kinds of a domain label -/
inductive Kind
  | ignored | special | pureStarter | loader | modification | carrier | end_ | other
deriving DecidableEq, Repr

/-- the seven class bits the state machine looks at -/
structure Bits where
  ign : Bool
  spec : Bool
  st : Bool
  lo : Bool
  md : Bool
  cp : Bool
  en : Bool
deriving DecidableEq, Repr

def bitsOfLabel (l : String) : Bits :=
  ⟨nonModule.contains l, special.contains l, starterCollections.any (fun col => col.contains l),
   acyltransferases.contains l || adenylations.contains l || l == coaLigaseLabel,
   modifiers.contains l, carrierProteins.contains l, ends.contains l⟩

def Kind.bits : Kind → Bits
  | .ignored => ⟨true, false, false, false, false, false, false⟩
  | .special => ⟨false, true, false, false, false, false, false⟩
  | .pureStarter => ⟨false, false, true, false, false, false, false⟩
  | .loader => ⟨false, false, true, true, false, false, false⟩
  | .modification => ⟨false, false, false, false, true, false, false⟩
  | .carrier => ⟨false, false, false, false, false, true, false⟩
  | .end_ => ⟨false, false, false, false, false, false, true⟩
  | .other => ⟨false, false, false, false, false, false, false⟩

def allKinds : List Kind :=
  [.ignored, .special, .pureStarter, .loader, .modification, .carrier, .end_, .other]

/-- every label any class predicate can be true of -/
def allLabels : List String :=
  nonModule ++ special ++ starterCollections.flatten ++ acyltransferases ++ adenylations
    ++ [coaLigaseLabel] ++ modifiers ++ carrierProteins ++ ends

/-- TABLE FACT: the classes are exclusive apart from loader ⊆ starter -/
theorem allLabels_kinds : ∀ l ∈ allLabels, (allKinds.any fun k => k.bits == bitsOfLabel l) = true := by
  decide

theorem bits_outside (l : String) (h : l ∉ allLabels) : bitsOfLabel l = Kind.other.bits := by
  simp only [allLabels, List.mem_append, List.mem_flatten, List.mem_singleton, not_or, not_exists, not_and] at h
  obtain ⟨⟨⟨⟨⟨⟨⟨⟨h1, h2⟩, h3⟩, h4⟩, h5⟩, h6⟩, h7⟩, h8⟩, h9⟩ := h
  have e3 : (starterCollections.any fun col => col.contains l) = false := by
    rw [Bool.eq_false_iff]
    intro hc
    rw [List.any_eq_true] at hc
    obtain ⟨col, hcol, hl⟩ := hc
    exact h3 col hcol (List.contains_iff_mem.mp hl)
  have c1 : nonModule.contains l = false := by rw [Bool.eq_false_iff]; exact fun hc => h1 (List.contains_iff_mem.mp hc)
  have c2 : special.contains l = false := by rw [Bool.eq_false_iff]; exact fun hc => h2 (List.contains_iff_mem.mp hc)
  have c4 : acyltransferases.contains l = false := by rw [Bool.eq_false_iff]; exact fun hc => h4 (List.contains_iff_mem.mp hc)
  have c5 : adenylations.contains l = false := by rw [Bool.eq_false_iff]; exact fun hc => h5 (List.contains_iff_mem.mp hc)
  have c6 : (l == coaLigaseLabel) = false := by rw [Bool.eq_false_iff]; exact fun hc => h6 (by simpa using hc)
  have c7 : modifiers.contains l = false := by rw [Bool.eq_false_iff]; exact fun hc => h7 (List.contains_iff_mem.mp hc)
  have c8 : carrierProteins.contains l = false := by rw [Bool.eq_false_iff]; exact fun hc => h8 (List.contains_iff_mem.mp hc)
  have c9 : ends.contains l = false := by rw [Bool.eq_false_iff]; exact fun hc => h9 (List.contains_iff_mem.mp hc)
  simp only [bitsOfLabel, Kind.bits, c1, c2, e3, c4, c5, c6, c7, c8, c9, Bool.or_false]

def kindOfLabel (l : String) : Kind :=
  (allKinds.find? fun k => k.bits == bitsOfLabel l).getD .other

theorem bits_kindOfLabel (l : String) : bitsOfLabel l = (kindOfLabel l).bits := by
  have hex : (allKinds.any fun k => k.bits == bitsOfLabel l) = true := by
    by_cases h : l ∈ allLabels
    · exact allLabels_kinds l h
    · rw [bits_outside l h]; decide
  unfold kindOfLabel
  cases hf : allKinds.find? fun k => k.bits == bitsOfLabel l with
  | none =>
    rw [List.find?_eq_none] at hf
    rw [List.any_eq_true] at hex
    obtain ⟨k, hk, hb⟩ := hex
    exact absurd hb (hf k hk)
  | some k =>
    have := List.find?_some hf
    simp only [Option.getD_some]
    exact (eq_of_beq this).symm

/-- the kind of a component -/
def kindOf (c : Comp) : Kind := kindOfLabel c.label

theorem bits_kindOf (c : Comp) : bitsOfLabel c.label = (kindOf c).bits := bits_kindOfLabel c.label

theorem isIgnored_eq (c : Comp) : c.isIgnored = (kindOf c).bits.ign := by
  rw [← bits_kindOf]; rfl
theorem isSpecial_eq (c : Comp) : c.isSpecial = (kindOf c).bits.spec := by
  rw [← bits_kindOf]; rfl
theorem isStarter_eq (c : Comp) : c.isStarter = (kindOf c).bits.st := by
  rw [← bits_kindOf]; rfl
theorem isLoader_eq (c : Comp) : c.isLoader = (kindOf c).bits.lo := by
  rw [← bits_kindOf]; rfl
theorem isModification_eq (c : Comp) : c.isModification = (kindOf c).bits.md := by
  rw [← bits_kindOf]; rfl
theorem isCarrierProtein_eq (c : Comp) : c.isCarrierProtein = (kindOf c).bits.cp := by
  rw [← bits_kindOf]; rfl
theorem isEnd_eq (c : Comp) : c.isEnd = (kindOf c).bits.en := by
  rw [← bits_kindOf]; rfl

/-- a kind is determined by its bits -/
theorem Kind.bits_injective : ∀ a b : Kind, a.bits = b.bits → a = b := by
  intro a b; cases a <;> cases b <;> simp [Kind.bits]

theorem kindOf_label (c d : Comp) (h : c.label = d.label) : kindOf c = kindOf d := by
  unfold kindOf; rw [h]

/-! ### facts about the specially named labels -/

/-- TABLE FACT: every double-transporter case is a pair -/
theorem dt_cases_len : ∀ case ∈ doubleTransporterCases, case.length = 2 := by decide

/-- TABLE FACT: the labels of the double-transporter cases are modification domains -/
theorem dt_cases_mod : ∀ case ∈ doubleTransporterCases, ∀ l ∈ case, kindOfLabel l = .modification := by
  decide

/-- TABLE FACT: the trans-AT docking domain is a `special` domain (it ends up in `_others`) -/
theorem docking_kind : kindOfLabel transAtDocking = .special := by decide

/-- TABLE FACT: the KR that may follow the carrier protein of a trans-AT module is a modification -/
theorem kr_kind : kindOfLabel transAtKrLabel = .modification := by decide

/-- TABLE FACT: combine_modules and ensure_suitable speak about the same KR label -/
theorem kr_same : trailingKrLabel = transAtKrLabel := by decide

/-- TABLE FACT: classification keys are non-empty strings (`assert self.classification`) -/
theorem class_keys_nonempty : ∀ kv ∈ classifications, kv.1.isEmpty = false := by decide

/-- TABLE FACT: everything the class predicates know is classified (Component construction
    succeeds on it) -/
theorem allLabels_classified : ∀ l ∈ allLabels, (classify l).isSome = true := by decide

/-- TABLE FACT: fused starters are loaders or `other` (never carrier/end/modification) -/
theorem fused_kinds : ∀ l ∈ fusedStarters, kindOfLabel l = .loader ∨ kindOfLabel l = .other := by decide

end ASV.Modules
