/- C18: facts about the parent-side filters of `pre_process_sequences`. -/
import ASV.Model.ParallelFilters
namespace ASV.Parallel

theorem filterByName_ids (target : String) (rs out : List FRec) (h : filterByName target rs = .ok out) :
    out.map (fun r => (r.id, r.len)) = rs.map (fun r => (r.id, r.len)) := by
  unfold filterByName at h
  split at h
  · cases h; rfl
  · split at h
    · cases h
      rw [List.map_map]
      apply List.map_congr_left
      intro r _
      simp only [Function.comp]
      split <;> rfl
    · cases h

theorem filterByMinLength_ids (minlength : Nat) (rs : List FRec) :
    (filterByMinLength minlength rs).map (fun r => (r.id, r.len)) = rs.map (fun r => (r.id, r.len)) := by
  unfold filterByMinLength
  rw [List.map_map]
  apply List.map_congr_left
  intro r _
  simp only [Function.comp]
  split <;> rfl

theorem filterByCount_ids (maximum : Int) (rs : List FRec) :
    (filterByCount maximum rs).1.map (fun r => (r.id, r.len)) = rs.map (fun r => (r.id, r.len)) := by
  unfold filterByCount
  split
  · rfl
  · simp only [List.map_map]
    have : rs.map (fun r => (r.id, r.len)) = rs.zipIdx.map (fun p => (p.1.id, p.1.len)) := by
      conv => lhs; rw [← List.zipIdx_map_fst (l := rs) (i := 0)]
      rw [List.map_map]; rfl
    rw [this]
    apply List.map_congr_left
    intro p _
    simp only [Function.comp]
    split <;> rfl

/-- with a target, every record that is not skipped afterwards bears the target id -/
theorem filterByName_only_target (target : String) (rs out : List FRec) (hne : target.isEmpty = false)
    (h : filterByName target rs = .ok out) : ∀ r ∈ out, r.id = target ∨ truthy r.skip = true := by
  unfold filterByName at h
  rw [hne] at h
  simp only [Bool.false_eq_true, if_false] at h
  split at h
  · cases h
    intro r hr
    obtain ⟨r₀, _, rfl⟩ := List.mem_map.mp hr
    by_cases hid : r₀.id = target
    · left; simp [hid]
    · right
      have : (r₀.id != target) = true := by simp [hid]
      simp only [this, if_true, truthy]
      have : ("did not match filter: " ++ target).isEmpty = false := by
        simp [String.isEmpty_iff, String.append_eq_empty_iff]
      simp [this]
  · cases h

end ASV.Parallel
