/-
  Rotation of a circular record (choosing another origin): distances between sets of bases do not change.
  Spec-level lemmas used by C07 (and C12).
-/
import ASV.Proofs.LocOffsetArea
set_option linter.unusedVariables false
namespace ASV


theorem mul_bound3 (m L x : Int) (hL : 0 < L) (hx : -2 * L < x) (hx' : x < 2 * L) (h : x = m * L) : m = 0 ∨ m = 1 ∨ m = -1 := by
  rcases Int.lt_trichotomy m (-1) with hc | hc | hc
  · have : m * L ≤ -2 * L := Int.mul_le_mul_of_nonneg_right (by omega) (by omega)
    omega
  · right; right; exact hc
  · rcases Int.lt_trichotomy m 1 with h1 | h1 | h1
    · left; omega
    · right; left; exact h1
    · have : 2 * L ≤ m * L := Int.mul_le_mul_of_nonneg_right (by omega) (by omega)
      omega

/-- the number of bases between two positions of a ring does not change when both are rotated -/
theorem ringBetween_rot (L k i j i' j' : Int) (hL : 0 < L)
    (hi : 0 ≤ i ∧ i < L) (hj : 0 ≤ j ∧ j < L) (hi' : 0 ≤ i' ∧ i' < L) (hj' : 0 ≤ j' ∧ j' < L)
    (ri : RotOf L k i' i) (rj : RotOf L k j' j) : ringBetween L i' j' = ringBetween L i j := by
  obtain ⟨c1, h1⟩ := ri
  obtain ⟨c2, h2⟩ := rj
  have e : (i' - j') - (i - j) = (c1 - c2) * L := by rw [Int.sub_mul]; omega
  rcases mul_bound3 (c1 - c2) L ((i' - j') - (i - j)) hL (by omega) (by omega) e with h | h | h
  · rw [h] at e; simp only [ringBetween, iabs_def, Int.min_def]; have : i' - j' = i - j := by omega
    rw [this]
  · rw [h] at e; simp only [ringBetween, iabs_def, Int.min_def]; grind
  · rw [h] at e; simp only [ringBetween, iabs_def, Int.min_def]; grind



/-- `a'` holds exactly the bases of `a` rotated by `k` on the ring `[0, L)` -/
def IsRot (L k : Int) (a a' : Loc) : Prop :=
  ∀ i, a'.mem i = true ↔ (0 ≤ i ∧ i < L ∧ ∃ j, a.mem j = true ∧ RotOf L k i j)

theorem rot_exists (L k j : Int) (hL : 0 < L) : ∃ i, 0 ≤ i ∧ i < L ∧ RotOf L k i j := by
  obtain ⟨q, hq, h0, h1⟩ := emod_shift (j + k) L hL
  exact ⟨(j + k) % L, h0, h1, -q, by rw [Int.neg_mul]; omega⟩

theorem rot_unique_src (L k i j1 j2 : Int) (hL : 0 < L) (h1 : 0 ≤ j1 ∧ j1 < L) (h2 : 0 ≤ j2 ∧ j2 < L)
    (r1 : RotOf L k i j1) (r2 : RotOf L k i j2) : j1 = j2 := by
  obtain ⟨c1, e1⟩ := r1
  obtain ⟨c2, e2⟩ := r2
  have e : j1 - j2 = (c2 - c1) * L := by rw [Int.sub_mul]; omega
  rcases mul_bound3 (c2 - c1) L (j1 - j2) hL (by omega) (by omega) e with h | h | h <;> rw [h] at e <;> omega

theorem Loc.OK.mem_range {L : Int} {l : Loc} (h : l.OK L) (hL : L ≠ 0) {i : Int} (hi : l.mem i = true) : 0 ≤ i ∧ i < L := by
  simp only [Loc.mem, List.any_eq_true, Part.mem_iff] at hi
  obtain ⟨p, hp, h1, h2⟩ := hi
  obtain ⟨a, b, c⟩ := h.2 p hp
  have := c hL
  omega

theorem SharesBase_rot {L k : Int} {a b a' b' : Loc} (hL : 0 < L) (ha : a.OK L) (hb : b.OK L)
    (ra : IsRot L k a a') (rb : IsRot L k b b') : a.SharesBase b ↔ a'.SharesBase b' := by
  have hL0 : L ≠ 0 := by omega
  constructor
  · rintro ⟨j, hja, hjb⟩
    obtain ⟨i, h0, h1, hr⟩ := rot_exists L k j hL
    exact ⟨i, (ra i).2 ⟨h0, h1, j, hja, hr⟩, (rb i).2 ⟨h0, h1, j, hjb, hr⟩⟩
  · rintro ⟨i, hia, hib⟩
    obtain ⟨_, _, j1, hj1, r1⟩ := (ra i).1 hia
    obtain ⟨_, _, j2, hj2, r2⟩ := (rb i).1 hib
    have := rot_unique_src L k i j1 j2 hL (ha.mem_range hL0 hj1) (hb.mem_range hL0 hj2) r1 r2
    subst this
    exact ⟨j1, hj1, hj2⟩

/-- the distance of two sets of bases on a ring is invariant under rotating both -/
theorem IsDist_rot {L k : Int} {a b a' b' : Loc} {d : Int} (hL : 0 < L) (ha : a.OK L) (hb : b.OK L)
    (ra : IsRot L k a a') (rb : IsRot L k b b') (h : IsDist L a b d) : IsDist L a' b' d := by
  have hL0 : L ≠ 0 := by omega
  have hbt : ∀ x y, between L x y = ringBetween L x y := by intro x y; simp [between, hL0]
  rcases h with ⟨hs, hd⟩ | ⟨hns, ⟨i, j, hi, hj, hbij⟩, hlow⟩
  · left; exact ⟨(SharesBase_rot hL ha hb ra rb).1 hs, hd⟩
  · right
    refine ⟨fun h => hns ((SharesBase_rot hL ha hb ra rb).2 h), ?_, ?_⟩
    · obtain ⟨i', hi0, hi1, hri⟩ := rot_exists L k i hL
      obtain ⟨j', hj0, hj1, hrj⟩ := rot_exists L k j hL
      refine ⟨i', j', (ra i').2 ⟨hi0, hi1, i, hi, hri⟩, (rb j').2 ⟨hj0, hj1, j, hj, hrj⟩, ?_⟩
      rw [hbt, ringBetween_rot L k i j i' j' hL (ha.mem_range hL0 hi) (hb.mem_range hL0 hj) ⟨hi0, hi1⟩ ⟨hj0, hj1⟩ hri hrj,
        ← hbt, hbij]
    · intro i' j' hi' hj'
      obtain ⟨hi0, hi1, i, hi, hri⟩ := (ra i').1 hi'
      obtain ⟨hj0, hj1, j, hj, hrj⟩ := (rb j').1 hj'
      rw [hbt, ringBetween_rot L k i j i' j' hL (ha.mem_range hL0 hi) (hb.mem_range hL0 hj) ⟨hi0, hi1⟩ ⟨hj0, hj1⟩ hri hrj, ← hbt]
      exact hlow i j hi hj


end ASV
