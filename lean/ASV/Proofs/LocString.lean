/-
  Helper lemmas for the textual round trip of locations (C04 / C10 / C12).
-/
import ASV.Model.LocString
namespace ASV


theorem natChars_digits (n : Nat) : ∀ c ∈ natChars n, c.isDigit = true :=
  fun _ hc => Nat.isDigit_of_mem_toDigits (by omega) (by omega) hc

theorem natChars_ne_nil (n : Nat) : natChars n ≠ [] := Nat.toDigits_ne_nil

theorem natChars_all (n : Nat) : (natChars n).all Char.isDigit = true := by
  rw [List.all_eq_true]; exact natChars_digits n

theorem isDigit_ne {c d : Char} (h : c.isDigit = true) (hd : d.isDigit = false) : c ≠ d := by
  intro e; subst e; rw [h] at hd; cases hd

theorem parseInt_natChars (n : Nat) : parseInt (natChars n) = some (n : Int) := by
  have hne := natChars_ne_nil n
  have hall := natChars_all n
  unfold parseInt
  match hm : natChars n with
  | [] => exact absurd hm hne
  | c :: cs =>
    have hc : c.isDigit = true := natChars_digits n c (by rw [hm]; simp)
    have hcm : c ≠ '-' := isDigit_ne hc (by decide)
    split
    · next h => cases h
    · next ds h =>
      -- c = '-' impossible
      injection h with h1 h2; exact absurd h1 hcm
    · next h1 h2 =>
      rw [← hm, hall]
      simp only [if_true]
      rw [show Nat.ofDigitChars 10 (natChars n) 0 = n from Nat.ofDigitChars_ten_toDigits]

theorem parseInt_intChars (i : Int) : parseInt (intChars i) = some i := by
  unfold intChars
  split
  · next h =>
    have hne := natChars_ne_nil i.natAbs
    have hall := natChars_all i.natAbs
    simp only [parseInt]
    have : (natChars i.natAbs).isEmpty = false := by
      cases hh : natChars i.natAbs with
      | nil => exact absurd hh hne
      | cons _ _ => rfl
    simp only [this, hall, Bool.not_false, Bool.and_self, if_true]
    rw [show Nat.ofDigitChars 10 (natChars i.natAbs) 0 = i.natAbs from Nat.ofDigitChars_ten_toDigits]
    congr 1; omega
  · next h =>
    rw [parseInt_natChars]
    congr 1; omega
/-- characters an integer is printed with -/
def numChar (c : Char) : Bool := c.isDigit || c == '-'

theorem intChars_numChar (i : Int) : ∀ c ∈ intChars i, numChar c = true := by
  intro c hc
  unfold intChars at hc
  split at hc
  · rcases List.mem_cons.1 hc with rfl | h
    · decide
    · simp [numChar, natChars_digits _ c h]
  · simp [numChar, natChars_digits _ c hc]

theorem splitFirst_append (c : Char) (pre post : List Char) (h : ∀ x ∈ pre, x ≠ c) :
    splitFirst c (pre ++ c :: post) = some (pre, post) := by
  induction pre with
  | nil => simp [splitFirst]
  | cons x xs ih =>
    have hx : x ≠ c := h x (by simp)
    simp only [List.cons_append, splitFirst, hx, if_false]
    rw [ih (fun y hy => h y (List.mem_cons_of_mem _ hy))]

theorem numChar_ne {c d : Char} (h : numChar c = true) (hd : numChar d = false) : c ≠ d := by
  intro e; subst e; rw [h] at hd; cases hd

/-- the characters of one printed part -/
def partChar (c : Char) : Bool := numChar c || c == '[' || c == ':' || c == ']' || c == '(' || c == ')' || c == '+' || c == '?'

theorem strandChars_partChar (s : Strand) : ∀ c ∈ strandChars s, partChar c = true := by
  cases s <;> simp [strandChars] <;> decide

theorem partChars_partChar (p : Part) : ∀ c ∈ partChars p, partChar c = true := by
  intro c hc
  simp only [partChars, List.mem_cons, List.mem_append] at hc
  rcases hc with ((rfl | h) | rfl | h) | rfl | h
  · decide
  · simp [partChar, intChars_numChar _ c h]
  · decide
  · simp [partChar, intChars_numChar _ c h]
  · decide
  · exact strandChars_partChar _ c h

theorem partChar_ne {c d : Char} (h : partChar c = true) (hd : partChar d = false) : c ≠ d := by
  intro e; subst e; rw [h] at hd; cases hd



theorem intChars_ne_nil (i : Int) : intChars i ≠ [] := by
  unfold intChars; split
  · simp
  · exact natChars_ne_nil _

theorem natChars_reverse_head (n : Nat) : ∃ d rest, (natChars n).reverse = d :: rest ∧ d.isDigit = true := by
  cases h : (natChars n).reverse with
  | nil => exact absurd (List.reverse_eq_nil_iff.1 h) (natChars_ne_nil n)
  | cons d rest =>
    refine ⟨d, rest, rfl, natChars_digits n d ?_⟩
    have : d ∈ (natChars n).reverse := by rw [h]; simp
    simpa using this

theorem intChars_reverse_head (i : Int) : ∃ d rest, (intChars i).reverse = d :: rest ∧ d.isDigit = true := by
  unfold intChars
  split
  · obtain ⟨d, rest, h, hd⟩ := natChars_reverse_head i.natAbs
    exact ⟨d, rest ++ ['-'], by simp [h], hd⟩
  · exact natChars_reverse_head _



/-- the text of a part before its strand suffix -/
def corePart (p : Part) : List Char := '[' :: intChars p.lo ++ ':' :: intChars p.hi ++ [']']

theorem partChars_eq (p : Part) : partChars p = corePart p ++ strandChars p.strand := by
  simp [partChars, corePart]

theorem corePart_no_paren (p : Part) : ∀ c ∈ corePart p, c ≠ '(' := by
  intro c hc
  simp only [corePart, List.mem_cons, List.mem_append] at hc
  rcases hc with ((rfl | h) | rfl | h) | rfl | h
  · decide
  · exact numChar_ne (intChars_numChar _ c h) (by decide)
  · decide
  · exact numChar_ne (intChars_numChar _ c h) (by decide)
  · decide
  · cases h

theorem parseSingle_partChars (p : Part) : parseSingle (partChars p) = some p := by
  have hsplit1 : splitFirst ':' (partChars p) = some ('[' :: intChars p.lo, intChars p.hi ++ ']' :: strandChars p.strand) := by
    have : partChars p = ('[' :: intChars p.lo) ++ ':' :: (intChars p.hi ++ ']' :: strandChars p.strand) := by
      simp [partChars]
    rw [this]
    apply splitFirst_append
    intro x hx
    rcases List.mem_cons.1 hx with rfl | h
    · decide
    · exact numChar_ne (intChars_numChar _ x h) (by decide)
  have hsplit2 : splitFirst ']' (intChars p.hi ++ ']' :: strandChars p.strand) = some (intChars p.hi, strandChars p.strand) := by
    apply splitFirst_append
    intro x hx
    exact numChar_ne (intChars_numChar _ x hx) (by decide)
  have hstrand : parseStrand (partChars p) = some p.strand := by
    unfold parseStrand
    rw [partChars_eq]
    cases hs : p.strand
    · simp [strandChars]
    · simp [strandChars]
    · simp [strandChars]
    · -- no strand suffix: the character before the final `]` is the last digit of the end position
      simp only [strandChars, List.append_nil]
      have hrev : (corePart p).reverse.drop 1 = (intChars p.hi).reverse ++ (':' :: (intChars p.lo).reverse ++ ['[']) := by
        simp [corePart]
      rw [hrev]
      obtain ⟨d, rest, hd, hdig⟩ := intChars_reverse_head p.hi
      rw [hd]
      have h1 : d ≠ '-' := isDigit_ne hdig (by decide)
      have h2 : d ≠ '+' := isDigit_ne hdig (by decide)
      have h3 : d ≠ '?' := isDigit_ne hdig (by decide)
      have hnp : (corePart p).contains '(' = false := by
        cases hc : (corePart p).contains '('
        · rfl
        · rw [List.contains_iff_mem] at hc
          exact absurd rfl (corePart_no_paren p _ hc)
      simp only [List.cons_append, List.head?_cons, hnp]
      split
      · next h => injection h with h; exact absurd h h1
      · next h => injection h with h; exact absurd h h2
      · next h => injection h with h; exact absurd h h3
      · simp
  simp only [parseSingle, hsplit1, hsplit2, hstrand, Option.bind_eq_bind, Option.bind_some, List.drop_succ_cons, List.drop_zero,
    parseInt_intChars, Option.pure_def]



theorem splitCS_nil (acc : List Char) : splitCommaSpace acc [] = [acc.reverse] := by
  simp [splitCommaSpace]

theorem splitCS_sep (acc rest : List Char) :
    splitCommaSpace acc (',' :: ' ' :: rest) = acc.reverse :: splitCommaSpace [] rest := by
  simp [splitCommaSpace]

theorem splitCS_char (acc rest : List Char) (c : Char) (hc : c ≠ ',') :
    splitCommaSpace acc (c :: rest) = splitCommaSpace (c :: acc) rest := by
  rw [splitCommaSpace]
  · intro r h; exact absurd h hc

theorem splitCS_text (acc t rest : List Char) (ht : ∀ c ∈ t, c ≠ ',') :
    splitCommaSpace acc (t ++ rest) = splitCommaSpace (t.reverse ++ acc) rest := by
  induction t generalizing acc with
  | nil => rfl
  | cons c cs ih =>
    rw [List.cons_append, splitCS_char _ _ _ (ht c (by simp)), ih _ (fun x hx => ht x (List.mem_cons_of_mem _ hx))]
    simp

theorem splitCS_join (t : List Char) (ts : List (List Char)) (h : ∀ x ∈ t :: ts, ∀ c ∈ x, c ≠ ',') :
    splitCommaSpace [] (joinParts (t :: ts)) = t :: ts := by
  induction ts generalizing t with
  | nil =>
    have := splitCS_text [] t [] (h t (by simp))
    simp only [List.append_nil] at this
    rw [joinParts, this, splitCS_nil]; simp
  | cons u us ih =>
    rw [joinParts, splitCS_text [] t _ (h t (by simp)), splitCS_sep, ih u (fun x hx => h x (List.mem_cons_of_mem _ hx))]
    · simp
    · simp



theorem mapM_parseSingle (ps : List Part) : (ps.map partChars).mapM parseSingle = some ps := by
  induction ps with
  | nil => rfl
  | cons p ps ih =>
    simp only [List.map_cons, List.mapM_cons, parseSingle_partChars, ih, Option.bind_eq_bind, Option.bind_some,
      Option.pure_def]

theorem partChars_no (p : Part) (d : Char) (hd : partChar d = false) : ∀ c ∈ partChars p, c ≠ d :=
  fun c hc => partChar_ne (partChars_partChar p c hc) hd

/-- the textual form of a location reads back to the same location -/
theorem locFromChars_locChars (l : Loc) (hne : l.parts ≠ []) : locFromChars (locChars l) = some l := by
  cases l with
  | simple p =>
    have hnc : (partChars p).contains '{' = false := by
      cases hc : (partChars p).contains '{'
      · rfl
      · rw [List.contains_iff_mem] at hc
        exact absurd rfl (partChars_no p '{' (by decide) _ hc)
    simp only [locFromChars, locChars, hnc, Bool.not_false, if_true, parseSingle_partChars, Option.map_some]
  | compound ps =>
    match ps, hne with
    | p :: rest, _ =>
      have hc : (locChars (.compound (p :: rest))).contains '{' = true := by
        simp [locChars]
      have hdrop : (locChars (.compound (p :: rest))).dropLast = ['j', 'o', 'i', 'n'] ++ '{' :: joinParts ((p :: rest).map partChars) := by
        simp only [locChars]
        rw [List.dropLast_concat]
        rfl
      have hsplit : splitFirst '{' (['j', 'o', 'i', 'n'] ++ '{' :: joinParts ((p :: rest).map partChars))
          = some (['j', 'o', 'i', 'n'], joinParts ((p :: rest).map partChars)) := by
        apply splitFirst_append
        intro x hx; simp at hx; rcases hx with rfl | rfl | rfl | rfl <;> decide
      have hjoin : splitCommaSpace [] (joinParts ((p :: rest).map partChars)) = (p :: rest).map partChars := by
        rw [List.map_cons]
        apply splitCS_join
        intro x hx c hcx
        rw [← List.map_cons] at hx
        obtain ⟨q, _, rfl⟩ := List.mem_map.1 hx
        exact partChars_no q ',' (by decide) c hcx
      simp only [locFromChars, hc, Bool.not_true, Bool.false_eq_true, if_false, hdrop, hsplit, hjoin,
        Option.bind_eq_bind, Option.bind_some, mapM_parseSingle, Option.pure_def]


/-- `locChars` is the `join` instance of `opLocChars` -/
theorem locChars_eq_op (l : Loc) : locChars l = opLocChars ['j', 'o', 'i', 'n'] l := by
  cases l <;> simp [locChars, opLocChars]

/-- `locFromChars` forgets the operator `locFromCharsOp` keeps -/
theorem locFromChars_eq_op (s : List Char) : locFromChars s = (locFromCharsOp s).map Prod.snd := by
  unfold locFromChars locFromCharsOp
  split
  · cases parseSingle s <;> simp
  · cases h1 : splitFirst '{' s.dropLast with
    | none => simp
    | some pr =>
      obtain ⟨a, b⟩ := pr
      cases h2 : (splitCommaSpace [] b).mapM parseSingle <;> simp [h2]

/-- the textual form of a location, with any operator free of `{`, reads back to the same location and operator -/
theorem locFromCharsOp_opLocChars (op : List Char) (hop : ∀ c ∈ op, c ≠ '{') (l : Loc) (hne : l.parts ≠ []) :
    locFromCharsOp (opLocChars op l) = some (l.opOf op, l) := by
  cases l with
  | simple p =>
    have hnc : (partChars p).contains '{' = false := by
      cases hc : (partChars p).contains '{'
      · rfl
      · rw [List.contains_iff_mem] at hc
        exact absurd rfl (partChars_no p '{' (by decide) _ hc)
    simp only [locFromCharsOp, opLocChars, hnc, Bool.not_false, if_true, parseSingle_partChars, Option.map_some, Loc.opOf]
  | compound ps =>
    match ps, hne with
    | p :: rest, _ =>
      have hc : (opLocChars op (.compound (p :: rest))).contains '{' = true := by
        simp [opLocChars]
      have hdrop : (opLocChars op (.compound (p :: rest))).dropLast = op ++ '{' :: joinParts ((p :: rest).map partChars) := by
        simp only [opLocChars]
        have : op ++ '{' :: joinParts (List.map partChars (p :: rest)) ++ ['}']
            = (op ++ '{' :: joinParts (List.map partChars (p :: rest))) ++ ['}'] := by simp
        rw [this, List.dropLast_concat]
      have hsplit : splitFirst '{' (op ++ '{' :: joinParts ((p :: rest).map partChars))
          = some (op, joinParts ((p :: rest).map partChars)) := splitFirst_append _ _ _ hop
      have hjoin : splitCommaSpace [] (joinParts ((p :: rest).map partChars)) = (p :: rest).map partChars := by
        rw [List.map_cons]
        apply splitCS_join
        intro x hx c hcx
        rw [← List.map_cons] at hx
        obtain ⟨q, _, rfl⟩ := List.mem_map.1 hx
        exact partChars_no q ',' (by decide) c hcx
      simp only [locFromCharsOp, hc, Bool.not_true, Bool.false_eq_true, if_false, hdrop, hsplit, hjoin,
        Option.bind_eq_bind, Option.bind_some, mapM_parseSingle, Option.pure_def, Loc.opOf]

end ASV
