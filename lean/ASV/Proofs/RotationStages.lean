/-
  C07 helper lemmas: the relations the detection stages are built on ("closer than the cutoff",
  "share a base") do not change when every location is re-indexed by the same rotation, and a
  partition into chains / connected components is transported by any map that keeps the relation.
-/
import ASV.Proofs.Rotation
import ASV.Proofs.Components
import ASV.Proofs.RegionsComponents
set_option linter.unusedVariables false
namespace ASV

/-! ### the stage relations under rotation -/

theorem sharesPts_rot {L k : Int} {a b a' b' : Loc} (hL : 0 < L) (ha : a.OK L) (hb : b.OK L)
    (ra : IsRot L k a a') (rb : IsRot L k b b') : sharesPts a' b' = sharesPts a b := by
  rw [Bool.eq_iff_iff, sharesPts_iff, sharesPts_iff]
  exact (SharesBase_rot hL ha hb ra rb).symm

theorem locationsOverlap_rot {L k : Int} {a b a' b' : Loc} (hL : 0 < L) (ha : a.OK L) (hb : b.OK L)
    (ha' : a'.OK L) (hb' : b'.OK L) (ra : IsRot L k a a') (rb : IsRot L k b b') :
    locationsOverlap a' b' = locationsOverlap a b := by
  rw [← sharesPts_eq_overlap a b ha.nonEmpty hb.nonEmpty, ← sharesPts_eq_overlap a' b' ha'.nonEmpty hb'.nonEmpty]
  exact sharesPts_rot hL ha hb ra rb

theorem specDistFull_rot {L k : Int} {a b a' b' : Loc} (hL : 0 < L) (ha : a.OK L) (hb : b.OK L)
    (ha' : a'.OK L) (hb' : b'.OK L) (ra : IsRot L k a a') (rb : IsRot L k b b') :
    specDistFull L a' b' = specDistFull L a b := by
  rw [← getDistance_eq_specFull a b L ha hb, ← getDistance_eq_specFull a' b' L ha' hb']
  exact (getDistance_isDist a' b' L ha' hb').unique (IsDist_rot hL ha hb ra rb (getDistance_isDist a b L ha hb))

namespace Chains

/-- the chain relation of C03's spec ("the two genes, as spans, share a base or have fewer than `c`
    bases strictly between them, the shorter way round") is the same before and after the rotation -/
theorem nearB_rot {L k c : Int} {a b a' b' : Loc} (hL : 0 < L)
    (ha : (spanLoc L a).OK L) (hb : (spanLoc L b).OK L) (ha' : (spanLoc L a').OK L) (hb' : (spanLoc L b').OK L)
    (ra : IsRot L k (spanLoc L a) (spanLoc L a')) (rb : IsRot L k (spanLoc L b) (spanLoc L b')) :
    nearB L c a' b' = nearB L c a b := by
  simp only [nearB, sharesPts_rot hL ha hb ra rb, specDistFull_rot hL ha hb ha' hb' ra rb]

/-! ### transporting a chain partition along a map that keeps the relation -/

variable {α β : Type}

theorem Linked.map {rel : α → α → Prop} {rel' : β → β → Prop} (f : α → β) {g : List α}
    (hrel : ∀ a ∈ g, ∀ b ∈ g, rel a b → rel' (f a) (f b)) {a b : α} (h : Linked rel g a b) :
    Linked rel' (g.map f) (f a) (f b) := by
  induction h with
  | refl ha => exact Linked.refl (List.mem_map_of_mem ha)
  | step hab hc hr ih =>
    refine Linked.step ih (List.mem_map_of_mem hc) ?_
    rcases hr with hr | hr
    · exact Or.inl (hrel _ hab.right_mem _ hc hr)
    · exact Or.inr (hrel _ hc _ hab.right_mem hr)

theorem IsChainPartition.mem_of_mem {rel : α → α → Prop} {xs : List α} {G : List (List α)}
    (h : IsChainPartition rel xs G) {g : List α} (hg : g ∈ G) {x : α} (hx : x ∈ g) : x ∈ xs := by
  rw [← h.perm.mem_iff]
  exact List.mem_flatten.2 ⟨g, hg, hx⟩

/-- the image of a chain partition under a map that keeps the relation (on the members) is a chain
    partition of the image -/
theorem IsChainPartition.map {rel : α → α → Prop} {rel' : β → β → Prop} (f : α → β) {xs : List α}
    {G : List (List α)} (h : IsChainPartition rel xs G)
    (hrel : ∀ a ∈ xs, ∀ b ∈ xs, (rel' (f a) (f b) ↔ rel a b)) :
    IsChainPartition rel' (xs.map f) (G.map (·.map f)) := by
  refine ⟨?_, ?_, ?_, ?_⟩
  · have : (G.map (·.map f)).flatten = G.flatten.map f := by
      induction G with
      | nil => rfl
      | cons g gs ih => simp [List.flatten_cons, List.map_append]
    rw [this]
    exact h.perm.map f
  · intro g' hg'
    obtain ⟨g, hg, rfl⟩ := List.mem_map.1 hg'
    intro he
    exact h.nonempty g hg (List.map_eq_nil_iff.1 he)
  · intro g' hg' a' ha' b' hb'
    obtain ⟨g, hg, rfl⟩ := List.mem_map.1 hg'
    obtain ⟨a, ha, rfl⟩ := List.mem_map.1 ha'
    obtain ⟨b, hb, rfl⟩ := List.mem_map.1 hb'
    exact Linked.map f (fun x hx y hy hr => (hrel x (h.mem_of_mem hg hx) y (h.mem_of_mem hg hy)).2 hr)
      (h.linked g hg a ha b hb)
  · intro gs₁' g' gs₂' hsplit a' ha' k' hk' b' hb'
    obtain ⟨gs₁, rest, hG, h1, hrest⟩ := List.map_eq_append_iff.1 hsplit
    obtain ⟨g, gs₂, hrest', hg', hgs₂⟩ := List.map_eq_cons_iff.1 hrest
    subst hrest'
    subst hg'
    subst hgs₂
    obtain ⟨a, ha, rfl⟩ := List.mem_map.1 ha'
    obtain ⟨k, hk, rfl⟩ := List.mem_map.1 hk'
    obtain ⟨b, hb, rfl⟩ := List.mem_map.1 hb'
    have hgG : g ∈ G := by rw [hG]; simp
    have hkG : k ∈ G := by rw [hG]; simp [hk]
    have hs := h.separated gs₁ g gs₂ hG a ha k hk b hb
    have hax := h.mem_of_mem hgG ha
    have hbx := h.mem_of_mem hkG hb
    exact ⟨fun hr => hs.1 ((hrel a hax b hbx).1 hr), fun hr => hs.2 ((hrel b hbx a hax).1 hr)⟩

theorem Linked.congr_rel {rel rel' : α → α → Prop} {g : List α}
    (hrel : ∀ a ∈ g, ∀ b ∈ g, rel a b → rel' a b) {a b : α} (h : Linked rel g a b) : Linked rel' g a b := by
  induction h with
  | refl ha => exact Linked.refl ha
  | step hab hc hr ih =>
    refine Linked.step ih hc ?_
    rcases hr with hr | hr
    · exact Or.inl (hrel _ hab.right_mem _ hc hr)
    · exact Or.inr (hrel _ hc _ hab.right_mem hr)

/-- a chain partition of a list is one of every rearrangement of that list -/
theorem IsChainPartition.of_perm {rel : α → α → Prop} {xs ys : List α} {G : List (List α)}
    (h : IsChainPartition rel xs G) (hp : xs.Perm ys) : IsChainPartition rel ys G :=
  ⟨h.perm.trans hp, h.nonempty, h.linked, h.separated⟩

end Chains

/-! ### transporting connected components of "share a base" -/

namespace Components

theorem Linked.map (f : Area → Area) {areas : List Area}
    (hrel : ∀ a ∈ areas, ∀ b ∈ areas, a.2.SharesBase b.2 → (f a).2.SharesBase (f b).2) {a b : Area}
    (h : Linked areas a b) : Linked (areas.map f) (f a) (f b) := by
  induction h with
  | refl ha => exact Linked.refl _ (List.mem_map_of_mem ha)
  | step hab hc hs ih =>
    exact Linked.step ih (List.mem_map_of_mem hc) (hrel _ hab.mem_right _ hc hs)

theorem IsComponents.mem_of_mem {areas : List Area} {G : List (List Area)} (h : IsComponents areas G)
    {g : List Area} (hg : g ∈ G) {x : Area} (hx : x ∈ g) : x ∈ areas := by
  rw [← h.perm.mem_iff]
  exact List.mem_flatten.2 ⟨g, hg, hx⟩

/-- the image of the connected components under a map that keeps "share a base" (on the areas) are the
    connected components of the image -/
theorem IsComponents.map (f : Area → Area) {areas : List Area} {G : List (List Area)} (h : IsComponents areas G)
    (hrel : ∀ a ∈ areas, ∀ b ∈ areas, ((f a).2.SharesBase (f b).2 ↔ a.2.SharesBase b.2)) :
    IsComponents (areas.map f) (G.map (·.map f)) := by
  refine ⟨?_, ?_, ?_, ?_⟩
  · have : (G.map (·.map f)).flatten = G.flatten.map f := by
      induction G with
      | nil => rfl
      | cons g gs ih => simp [List.flatten_cons, List.map_append]
    rw [this]
    exact h.perm.map f
  · intro g' hg'
    obtain ⟨g, hg, rfl⟩ := List.mem_map.1 hg'
    intro he
    exact h.nonempty g hg (List.map_eq_nil_iff.1 he)
  · intro g' hg' a' ha' b' hb'
    obtain ⟨g, hg, rfl⟩ := List.mem_map.1 hg'
    obtain ⟨a, ha, rfl⟩ := List.mem_map.1 ha'
    obtain ⟨b, hb, rfl⟩ := List.mem_map.1 hb'
    exact Linked.map f (fun x hx y hy hs => (hrel x hx y hy).2 hs) (h.linked g hg a ha b hb)
  · have hsep := h.separated
    have hsub : ∀ g ∈ G, ∀ x ∈ g, x ∈ areas := fun g hg x hx => h.mem_of_mem hg hx
    clear h
    induction G with
    | nil => exact List.Pairwise.nil
    | cons g gs ih =>
      rw [List.map_cons, List.pairwise_cons]
      have hp := List.pairwise_cons.1 hsep
      refine ⟨?_, ih hp.2 (fun k hk => hsub k (List.mem_cons_of_mem _ hk))⟩
      intro k' hk' a' ha' b' hb'
      obtain ⟨k, hk, rfl⟩ := List.mem_map.1 hk'
      obtain ⟨a, ha, rfl⟩ := List.mem_map.1 ha'
      obtain ⟨b, hb, rfl⟩ := List.mem_map.1 hb'
      intro hs
      exact hp.1 k hk a ha b hb
        ((hrel a (hsub g (List.mem_cons_self ..) a ha) b (hsub k (List.mem_cons_of_mem _ hk) b hb)).1 hs)

/-- connected components are unique: two families that are `IsComponents` of the same areas have the
    same groups (as sets of members) -/
theorem IsComponents.unique {areas : List Area} {G G' : List (List Area)} (h : IsComponents areas G)
    (h' : IsComponents areas G') : ∀ g ∈ G, ∃ g' ∈ G', ∀ x, x ∈ g ↔ x ∈ g' := by
  intro g hg
  obtain ⟨a, ha⟩ := List.exists_mem_of_ne_nil g (h.nonempty g hg)
  have ha' : a ∈ G'.flatten := h'.perm.mem_iff.2 (h.mem_of_mem hg ha)
  obtain ⟨g', hg', hag'⟩ := List.mem_flatten.1 ha'
  exact ⟨g', hg', fun x => (h.same_iff_linked hg ha).trans (h'.same_iff_linked hg' hag').symm⟩

end Components
end ASV
