/-
  Helper lemmas for C13: `remove_incomplete` is the documented three-stage rule.
-/
import ASV.Proofs.RefineOrder
namespace ASV.Refine

theorem cross_le_trans {a b c La Lb Lc : Int} (hb : 0 < Lb) (hLa : 0 ≤ La) (hLc : 0 ≤ Lc)
    (h1 : a * Lb ≤ b * La) (h2 : b * Lc ≤ c * Lb) : a * Lc ≤ c * La := by
  have e1 : a * Lb * Lc ≤ b * La * Lc := Int.mul_le_mul_of_nonneg_right h1 hLc
  have e2 : b * Lc * La ≤ c * Lb * La := Int.mul_le_mul_of_nonneg_right h2 hLa
  have e3 : b * La * Lc = b * Lc * La := by ac_rfl
  have e4 : a * Lb * Lc = (a * Lc) * Lb := by ac_rfl
  have e5 : c * Lb * La = (c * La) * Lb := by ac_rfl
  rw [e4] at e1
  rw [e5] at e2
  exact Int.le_of_mul_le_mul_right (by omega) hb

theorem cross_lt_of_lt_of_le {a b c La Lb Lc : Int} (hb : 0 < Lb) (hLa : 0 ≤ La) (hLc : 0 < Lc)
    (h1 : a * Lb < b * La) (h2 : b * Lc ≤ c * Lb) : a * Lc < c * La := by
  have e1 : a * Lb * Lc < b * La * Lc := Int.mul_lt_mul_of_pos_right h1 hLc
  have e2 : b * Lc * La ≤ c * Lb * La := Int.mul_le_mul_of_nonneg_right h2 hLa
  have e3 : b * La * Lc = b * Lc * La := by ac_rfl
  have e4 : a * Lb * Lc = (a * Lc) * Lb := by ac_rfl
  have e5 : c * Lb * La = (c * La) * Lb := by ac_rfl
  rw [e4] at e1
  rw [e5] at e2
  exact Int.lt_of_mul_lt_mul_right (a := Lb) (b := a * Lc) (c := c * La) (by omega) (by omega)

theorem cross_lt_of_le_of_lt {a b c La Lb Lc : Int} (hb : 0 < Lb) (hLa : 0 < La) (hLc : 0 ≤ Lc)
    (h1 : a * Lb ≤ b * La) (h2 : b * Lc < c * Lb) : a * Lc < c * La := by
  have e1 : a * Lb * Lc ≤ b * La * Lc := Int.mul_le_mul_of_nonneg_right h1 hLc
  have e2 : b * Lc * La < c * Lb * La := Int.mul_lt_mul_of_pos_right h2 hLa
  have e3 : b * La * Lc = b * Lc * La := by ac_rfl
  have e4 : a * Lb * Lc = (a * Lc) * Lb := by ac_rfl
  have e5 : c * Lb * La = (c * La) * Lb := by ac_rfl
  rw [e4] at e1
  rw [e5] at e2
  exact Int.lt_of_mul_lt_mul_right (a := Lb) (b := a * Lc) (c := c * La) (by omega) (by omega)

theorem pos_of_cross {h b Lh Lb : Int} (hLh : 0 < Lh) (hLb : 0 < Lb) (hh : 0 < h) (hlt : h * Lb < b * Lh) : 0 < b := by
  have : 0 < h * Lb := Int.mul_pos hh hLb
  apply Int.pos_of_mul_pos_left (a := b) (b := Lh) (by omega) (by omega)

/-- `a` covers a strictly smaller share of its profile than `b` -/
def ShareLt (env : Env) (a b : Hit) : Prop := a.length * env.len b.prof < b.length * env.len a.prof

theorem shareLe_iff (env : Env) (a b : Hit) :
    shareLe env a b = true ↔ a.length * env.len b.prof ≤ b.length * env.len a.prof := by
  simp [shareLe]

theorem ShareLt.not_le {env : Env} {a b : Hit} (h : ShareLt env a b) : shareLe env b a = false := by
  simp only [shareLe, decide_eq_false_iff_not]
  simp only [ShareLt] at h
  omega

theorem ShareLt.le {env : Env} {a b : Hit} (h : ShareLt env a b) : shareLe env a b = true := by
  simp only [shareLe, decide_eq_true_eq]
  simp only [ShareLt] at h
  omega

theorem longestScan_none (env : Env) : ∀ (best : Option Hit) (l : List Hit),
    longestScan env best l = none → best = none ∧ ∀ h ∈ l, h.length ≤ 0
  | best, [], h => by simp [longestScan] at h; simp [h]
  | best, x :: t, h => by
    simp only [longestScan] at h
    split at h
    · have := (longestScan_none env (some x) t h).1
      simp at this
    · rename_i hx
      have ih := longestScan_none env best t h
      refine ⟨ih.1, ?_⟩
      intro y hy
      rcases List.mem_cons.mp hy with rfl | hy
      · rw [ih.1] at hx
        simp only [longer, decide_eq_true_eq] at hx
        omega
      · exact ih.2 y hy

/-- where the scan's answer sits: either the incoming best survived, or the answer is the first
    hit with the largest share -/
theorem longestScan_some (env : Env) : ∀ (best : Option Hit) (l : List Hit) (b : Hit),
    (∀ h ∈ l, 0 < env.len h.prof) → (∀ c, best = some c → 0 < env.len c.prof ∧ 0 < c.length) →
    longestScan env best l = some b →
    (best = some b ∧ ∀ d ∈ l, longer env d (some b) = false) ∨
    (∃ as bs, l = as ++ b :: bs ∧ (∀ a ∈ as, ShareLt env a b) ∧ (∀ c, best = some c → ShareLt env c b) ∧
      0 < b.length ∧ ∀ d ∈ bs, shareLe env d b = true)
  | best, [], b, _, _, h => by
    simp only [longestScan] at h
    exact Or.inl ⟨h, by simp⟩
  | best, x :: t, b, hl, hbest, h => by
    have hlx : 0 < env.len x.prof := hl x (by simp)
    have hlt : ∀ h ∈ t, 0 < env.len h.prof := fun h hh => hl h (List.mem_cons_of_mem _ hh)
    simp only [longestScan] at h
    split at h
    · rename_i hx
      -- `x` becomes the best so far
      have hxpos : 0 < x.length := by
        cases best with
        | none => simpa [longer] using hx
        | some c =>
          have hc := hbest c rfl
          simp only [longer, decide_eq_true_eq] at hx
          have h0 : 0 < c.length * env.len x.prof := Int.mul_pos hc.2 hlx
          exact Int.pos_of_mul_pos_left (a := x.length) (b := env.len c.prof) (by omega) hc.1
      have hbx : ∀ c, best = some c → ShareLt env c x := by
        intro c hc
        subst hc
        simp only [longer, decide_eq_true_eq] at hx
        simp only [ShareLt]
        omega
      rcases longestScan_some env (some x) t b hlt
          (by intro c hc; simp only [Option.some.injEq] at hc; subst hc; exact ⟨hlx, hxpos⟩) h with
        ⟨hb, hrest⟩ | ⟨as, bs, e, has, hc, hpos, hbs⟩
      · simp only [Option.some.injEq] at hb
        subst hb
        right
        refine ⟨[], t, rfl, by simp, hbx, hxpos, ?_⟩
        intro d hd
        have := hrest d hd
        simp only [longer, decide_eq_false_iff_not] at this
        simp only [shareLe, decide_eq_true_eq]
        omega
      · have hxb : ShareLt env x b := hc x rfl
        have hb_mem : b ∈ t := by rw [e]; simp
        have hlb := hlt b hb_mem
        right
        refine ⟨x :: as, bs, by rw [e]; rfl, ?_, ?_, hpos, hbs⟩
        · intro a ha
          rcases List.mem_cons.mp ha with rfl | ha
          · exact hxb
          · exact has a ha
        · intro c hc'
          have hcx := hbx c hc'
          have hcl := (hbest c hc').1
          simp only [ShareLt] at hcx hxb ⊢
          exact cross_lt_of_lt_of_le hlx (by omega) hlb hcx (by omega)
    · rename_i hx
      rcases longestScan_some env best t b hlt hbest h with ⟨hb, hrest⟩ | ⟨as, bs, e, has, hc, hpos, hbs⟩
      · left
        refine ⟨hb, ?_⟩
        intro d hd
        rcases List.mem_cons.mp hd with rfl | hd
        · rw [hb] at hx; simpa using hx
        · exact hrest d hd
      · have hb_mem : b ∈ t := by rw [e]; simp
        have hlb := hlt b hb_mem
        right
        refine ⟨x :: as, bs, by rw [e]; rfl, ?_, hc, hpos, hbs⟩
        intro a ha
        rcases List.mem_cons.mp ha with rfl | ha
        · -- `a` did not beat the best so far, which `b` later beat (or there was none and `a` is empty)
          cases best with
          | none =>
            simp only [longer, decide_eq_true_eq] at hx
            simp only [ShareLt]
            have h1 : a.length * env.len b.prof ≤ 0 := Int.mul_nonpos_of_nonpos_of_nonneg (by omega) (by omega)
            have h2 : 0 < b.length * env.len a.prof := Int.mul_pos hpos hlx
            omega
          | some c =>
            have hcb := hc c rfl
            have hcl := (hbest c rfl).1
            simp only [longer, decide_eq_true_eq] at hx
            simp only [ShareLt] at hcb ⊢
            exact cross_lt_of_le_of_lt hcl hlx (by omega) (by omega) hcb
        · exact has a ha

theorem filter_isEmpty_eq {α} (p : α → Bool) : ∀ l : List α, (l.filter p).isEmpty = !l.any p
  | [] => rfl
  | a :: l => by
    simp only [List.filter, List.any]
    cases h : p a
    · simp [filter_isEmpty_eq p l]
    · simp

theorem isComplete_eq (env : Env) : isComplete env = complete env := by
  funext h
  simp only [isComplete, complete]

theorem overFallback_eq (env : Env) (b : Hit) : overFallback env b = overThird env b := by
  simp only [overFallback, overThird]

theorem removeIncomplete_eq_spec (env : Env) (l : List Hit) (hl : ∀ h ∈ l, 0 < env.len h.prof) :
    removeIncomplete env l = specIncomplete env l := by
  simp only [removeIncomplete, specIncomplete, filter_isEmpty_eq, Bool.not_not, isComplete_eq]
  split
  · rfl
  · cases hscan : longestScan env none l with
    | none =>
      have hall := (longestScan_none env none l hscan).2
      simp only
      cases hfind : l.find? (fun b => l.all fun d => shareLe env d b) with
      | none => simp only [firstRegulator]; rfl
      | some b =>
        have hb : b ∈ l := List.mem_of_find?_eq_some hfind
        have : overThird env b = false := by
          simp only [overThird, decide_eq_false_iff_not]
          have h1 := hall b hb
          have h2 := hl b hb
          omega
        simp only [this, firstRegulator]
        rfl
    | some b =>
      rcases longestScan_some env none l b hl (by intro c hc; simp at hc) hscan with
        ⟨hb, _⟩ | ⟨as, bs, e, has, _, _, hbs⟩
      · simp at hb
      · have hfind : l.find? (fun b => l.all fun d => shareLe env d b) = some b := by
          rw [List.find?_eq_some_iff_append]
          refine ⟨?_, as, bs, e, ?_⟩
          · rw [List.all_eq_true]
            intro d hd
            rw [e] at hd
            rcases List.mem_append.mp hd with hd | hd
            · exact (has d hd).le
            · rcases List.mem_cons.mp hd with rfl | hd
              · simp [shareLe]
              · exact hbs d hd
          · intro a ha
            have hbl : b ∈ l := by rw [e]; simp
            have : (l.all fun d => shareLe env d a) = false := by
              rw [List.all_eq_false]
              exact ⟨b, hbl, by rw [(has a ha).not_le]; simp⟩
            simp [this]
        simp only [hfind, overFallback_eq, firstRegulator]
        rfl

end ASV.Refine
