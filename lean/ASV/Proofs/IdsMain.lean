/-
  C16 helper lemmas: the uniqueness block, the assembled `preProcessIds`, and the bridge between
  the `Prop`-level statements and the executable spec of `ASV/Spec/Ids.lean`.
-/
import ASV.Proofs.IdsLoops
namespace ASV.Ids
open ASV.Generated.Ids

theorem hasDup_false_iff : ∀ {l : List Str}, hasDup l = false ↔ l.Nodup
  | [] => by simp [hasDup]
  | x :: xs => by
    simp only [hasDup, Bool.or_eq_false_iff, List.nodup_cons, hasDup_false_iff (l := xs)]
    simp

theorem uniquePass_total (recs : List Rec) : ∃ out t, uniquePass recs = .ok (out, t) := by
  unfold uniquePass
  simp only
  split
  · obtain ⟨out, t, h⟩ := dupPass_total recs []
    have := (dupPass_spec h List.nodup_nil).2.2.2.2.1
    simp only [h]
    refine ⟨out, t, ?_⟩
    simp [this]
  · exact ⟨_, _, rfl⟩

theorem uniquePass_spec {recs recs1 : List Rec} {taken : List Str} (h : uniquePass recs = .ok (recs1, taken)) :
    (recs1.map (·.id)).Nodup ∧ (∀ r ∈ recs1, r.id ∈ taken) ∧ List.Forall₂ (DupRel taken) recs recs1 := by
  unfold uniquePass at h
  simp only at h
  split at h
  · split at h
    · simp at h
    · rename_i out t hd
      split at h
      · simp at h
      · simp only [Except.ok.injEq, Prod.mk.injEq] at h
        obtain ⟨rfl, rfl⟩ := h
        obtain ⟨i1, _, i3, _, _, i6⟩ := dupPass_spec hd List.nodup_nil
        refine ⟨i1, fun r hr => (i3 _).mpr (Or.inr (List.mem_map.mpr ⟨r, hr, rfl⟩)), i6⟩
  · rename_i hnd
    simp only [Except.ok.injEq, Prod.mk.injEq] at h
    obtain ⟨rfl, rfl⟩ := h
    refine ⟨hasDup_false_iff.mp (by simpa using hnd), fun r hr => List.mem_map.mpr ⟨r, hr, rfl⟩, ?_⟩
    exact List.forall₂_same.mpr fun _ _ => Or.inl rfl

theorem uniquePass_keeps_nil {recs recs1 : List Rec} {taken : List Str} (h : uniquePass recs = .ok (recs1, taken))
    (hx : ∃ r ∈ recs, r.id = []) : ∃ o ∈ recs1, o.id = [] := by
  unfold uniquePass at h
  simp only at h
  split at h
  · split at h
    · simp at h
    · rename_i out t hd
      split at h
      · simp at h
      · simp only [Except.ok.injEq, Prod.mk.injEq] at h
        obtain ⟨rfl, rfl⟩ := h
        exact dupPass_keeps_nil hd (by simp) hx
  · simp only [Except.ok.injEq, Prod.mk.injEq] at h
    obtain ⟨rfl, rfl⟩ := h
    exact hx

theorem mkRecs_forall₂ : ∀ (k : Nat) (inp : List (Str × Str × Option Str)),
    List.Forall₂ (fun p r => r.id = p.1 ∧ r.name = p.2.1 ∧ r.orig = none) inp (mkRecs k inp)
  | _, [] => List.Forall₂.nil
  | k, _ :: rest => List.Forall₂.cons ⟨rfl, rfl, rfl⟩ (mkRecs_forall₂ (k + 1) rest)

theorem checkNames_ok {recs out : List Rec} (h : checkNames recs = .ok out) : out = recs ∧ ∀ r ∈ recs, r.id ≠ [] := by
  unfold checkNames at h
  split at h
  · simp at h
  · rename_i hn
    simp only [Except.ok.injEq] at h
    refine ⟨h.symm, fun r hr hid => hn ?_⟩
    exact List.any_eq_true.mpr ⟨r, hr, by simp [hid]⟩

/-- everything a successful run of the identifier handling guarantees, in one place -/
structure Post (al : Bool) (inp : List (Str × Str × Option Str)) (recs : List Rec) : Prop where
  distinct : (recs.map (·.id)).Nodup
  each : ∀ r ∈ recs, Clean r.id ∧ Clean r.name ∧ (al = false → r.id.length ≤ 16 ∧ r.name.length ≤ 16) ∧ r.id ≠ [] ∧
    ∀ a, r.acc = some a → a.length ≤ 16
  remembers : List.Forall₂ (fun p r => r.orig = if r.id = p.1 then none else some p.1) inp recs
  inputsNamed : ∀ p ∈ inp, p.1 ≠ []

theorem forall₂_mem_right {α β} {R : α → β → Prop} {l₁ : List α} {l₂ : List β} (h : List.Forall₂ R l₁ l₂) :
    ∀ b ∈ l₂, ∃ a ∈ l₁, R a b := by
  induction h with
  | nil => simp
  | cons hab _ ih =>
    intro b hb
    rcases List.mem_cons.mp hb with rfl | hb
    · exact ⟨_, List.mem_cons_self, hab⟩
    · obtain ⟨a, ha, hr⟩ := ih b hb
      exact ⟨a, List.mem_cons_of_mem _ ha, hr⟩

theorem forall₂_mem_left {α β} {R : α → β → Prop} {l₁ : List α} {l₂ : List β} (h : List.Forall₂ R l₁ l₂) :
    ∀ a ∈ l₁, ∃ b ∈ l₂, R a b := by
  induction h with
  | nil => simp
  | cons hab _ ih =>
    intro a ha
    rcases List.mem_cons.mp ha with rfl | ha
    · exact ⟨_, List.mem_cons_self, hab⟩
    · obtain ⟨b, hb, hr⟩ := ih a ha
      exact ⟨b, List.mem_cons_of_mem _ hb, hr⟩

theorem forall₂_comp {α β γ} {R : α → β → Prop} {S : β → γ → Prop} :
    ∀ {l₁ : List α} {l₂ : List β} {l₃ : List γ}, List.Forall₂ R l₁ l₂ → List.Forall₂ S l₂ l₃ →
      List.Forall₂ (fun a c => ∃ b, R a b ∧ S b c) l₁ l₃
  | _, _, _, .nil, .nil => .nil
  | _, _, _, .cons h1 t1, .cons h2 t2 => .cons ⟨_, h1, h2⟩ (forall₂_comp t1 t2)

theorem forall₂_imp_mem {α β} {R S : α → β → Prop} :
    ∀ {l₁ : List α} {l₂ : List β}, List.Forall₂ R l₁ l₂ → (∀ a ∈ l₁, ∀ b ∈ l₂, R a b → S a b) →
      List.Forall₂ S l₁ l₂
  | _, _, .nil, _ => .nil
  | _, _, .cons h t, himp =>
    .cons (himp _ List.mem_cons_self _ List.mem_cons_self h)
      (forall₂_imp_mem t fun a ha b hb => himp a (List.mem_cons_of_mem _ ha) b (List.mem_cons_of_mem _ hb))

theorem origSet_some {s : Str} (h : s ≠ []) : origSet (some s) = true := by
  cases s with
  | nil => exact absurd rfl h
  | cons _ _ => rfl

/-- one record through both passes: the remembered id is the input id exactly when the id changed -/
theorem remembers_pointwise {al : Bool} {taken : List Str} {pid : Str} {r0 r1 r2 : Rec}
    (hp : pid ≠ []) (h0 : r0.id = pid ∧ r0.orig = none) (h1 : DupRel taken r0 r1)
    (h2 : ∃ t t', (∀ y ∈ taken, y ∈ t) ∧ FixPost al t r1 r2 t') :
    r2.orig = if r2.id = pid then none else some pid := by
  obtain ⟨t, t', hsub, p⟩ := h2
  rw [p.orig]
  unfold fixOrig
  rcases h1 with rfl | ⟨hne, ho, _, _, hmem⟩
  · rw [h0.2, h0.1]
    by_cases he : r2.id = pid
    · simp [origSet, he]
    · have : pid ≠ r2.id := fun h => he h.symm
      simp [origSet, he, this]
  · rw [ho, h0.1, origSet_some hp]
    have : r2.id ≠ pid := by
      rcases p.fresh with heq | hfresh
      · exact heq ▸ (h0.1 ▸ hne)
      · exact fun h => hfresh (h ▸ hsub _ (h0.1 ▸ hmem))
    simp [this]

theorem preProcessIds_post {al : Bool} {inp : List (Str × Str × Option Str)} {recs : List Rec}
    (h : preProcessIds al inp = .ok recs) : Post al inp recs := by
  unfold preProcessIds at h
  split at h
  · simp at h
  · rename_i recs1 taken hu
    split at h
    · simp at h
    · rename_i recs2 hf
      obtain ⟨rfl, hne⟩ := checkNames_ok h
      obtain ⟨u1, u2, u3⟩ := uniquePass_spec hu
      have f1 := fixAll_distinct hf u2 u1
      have f2 := fixAll_forall₂ hf
      have hm := mkRecs_forall₂ 1 inp
      -- no input id is empty: it would survive both passes and fail the final check
      have hin : ∀ p ∈ inp, p.1 ≠ [] := by
        intro p hp hnil
        obtain ⟨r, hr, hpr⟩ := forall₂_mem_left hm p hp
        obtain ⟨o, ho, hoid⟩ := uniquePass_keeps_nil hu ⟨r, hr, hpr.1.trans hnil⟩
        obtain ⟨o', ho', hoid'⟩ := fixAll_keeps_nil hf ⟨o, ho, hoid⟩
        exact hne o' ho' hoid'
      refine ⟨f1.1, ?_, ?_, hin⟩
      · intro r hr
        obtain ⟨a, _, t, t', _, p⟩ := forall₂_mem_right f2 r hr
        exact ⟨p.cleanId, p.cleanName, fun hal => ⟨p.shortId hal, p.shortName hal⟩, hne r hr, p.acc⟩
      · -- compose the three pointwise relations
        have h123 := forall₂_comp (forall₂_comp hm u3) f2
        refine forall₂_imp_mem h123 ?_
        rintro p hp r2 _ ⟨r1, ⟨r0, h0, h1⟩, h2⟩
        exact remembers_pointwise (hin p hp) ⟨h0.1, h0.2.2⟩ h1 h2

/-- the only ways the identifier handling rejects an input: no 16-character id left
    (RuntimeError) or a record without id; never the assertion, never an endless loop -/
theorem preProcessIds_err {al : Bool} {inp : List (Str × Str × Option Str)} {e : Err}
    (h : preProcessIds al inp = .error e) : e = .runtime ∨ e = .noName := by
  unfold preProcessIds at h
  split at h
  · rename_i e' hu
    obtain ⟨out, t, hok⟩ := uniquePass_total (mkRecs 1 inp)
    rw [hok] at hu
    simp at hu
  · split at h
    · rename_i e' hf
      simp only [Except.error.injEq] at h
      exact Or.inl (h ▸ fixAll_err hf)
    · unfold checkNames at h
      split at h
      · simp only [Except.error.injEq] at h
        exact Or.inr h.symm
      · simp at h

/-- with long headers allowed nothing is shortened and no length limit applies, so
    `fix_record_name_id` cannot fail -/
theorem fixRecordNameId_long_ok {taken : List Str} {r : Rec} {e : Err} :
    fixRecordNameId true taken r ≠ .error e := by
  intro h
  unfold fixRecordNameId at h
  split at h
  · rename_i e' h1
    unfold shortenStep at h1
    simp at h1
  · split at h
    · rename_i e' h2
      unfold stripStep at h2
      split at h2
      · split at h2
        · simp only [if_true] at h2
          unfold uniqueFallback at h2
          split at h2
          · rename_i e'' hg
            have := (generateUniqueId_err hg).2
            omega
          · simp at h2
        · simp at h2
      · simp at h2
    · simp at h

theorem fixAll_long_ok : ∀ {rs : List Rec} {taken : List Str} {e : Err}, fixAll true taken rs ≠ .error e
  | [], _, _, h => by simp [fixAll] at h
  | r :: rs, taken, e, h => by
    unfold fixAll at h
    split at h
    · rename_i e' h1
      exact fixRecordNameId_long_ok h1
    · split at h
      · rename_i e' h2
        exact fixAll_long_ok h2
      · simp at h

theorem preProcessIds_err_long {inp : List (Str × Str × Option Str)} {e : Err}
    (h : preProcessIds true inp = .error e) : e = .noName := by
  rcases preProcessIds_err h with rfl | rfl
  · unfold preProcessIds at h
    split at h
    · rename_i e' hu
      obtain ⟨out, t, hok⟩ := uniquePass_total (mkRecs 1 inp)
      rw [hok] at hu
      simp at hu
    · split at h
      · rename_i e' hf
        exact absurd hf fixAll_long_ok
      · unfold checkNames at h
        split at h
        · simp at h
        · simp at h
  · rfl

/-! ### bridge to the executable spec -/

def toOut (r : Rec) : IdSpec.Out := ⟨r.id, r.name, r.orig⟩

theorem pairwiseDistinct_iff : ∀ {l : List Str}, IdSpec.pairwiseDistinct l = true ↔ l.Nodup
  | [] => by simp [IdSpec.pairwiseDistinct]
  | x :: xs => by
    simp only [IdSpec.pairwiseDistinct, Bool.and_eq_true, List.nodup_cons, pairwiseDistinct_iff (l := xs),
      List.all_eq_true, Bool.not_eq_true', beq_eq_false_iff_ne, ne_eq]
    constructor
    · exact fun ⟨h1, h2⟩ => ⟨fun hm => h1 x hm rfl, h2⟩
    · exact fun ⟨h1, h2⟩ => ⟨fun y hy heq => h1 (heq ▸ hy), h2⟩

theorem remembersAll_of_forall₂ : ∀ {ids : List Str} {recs : List Rec},
    List.Forall₂ (fun i r => r.orig = if r.id = i then none else some i) ids recs →
    IdSpec.remembersAll ids (recs.map toOut) = true
  | _, _, .nil => rfl
  | _, _, .cons (a := i) (b := r) h t => by
    simp only [List.map_cons, IdSpec.remembersAll, Bool.and_eq_true]
    refine ⟨?_, remembersAll_of_forall₂ t⟩
    unfold IdSpec.remembers toOut
    simp only
    by_cases he : r.id = i
    · simp [he, h]
    · simp [he, h]

theorem forall₂_map_left {α β γ} {R : β → γ → Prop} {f : α → β} :
    ∀ {l₁ : List α} {l₂ : List γ}, List.Forall₂ (fun a c => R (f a) c) l₁ l₂ → List.Forall₂ R (l₁.map f) l₂
  | _, _, .nil => .nil
  | _, _, .cons h t => .cons h (forall₂_map_left t)

theorem post_recordsOk {al : Bool} {inp : List (Str × Str × Option Str)} {recs : List Rec} (p : Post al inp recs) :
    IdSpec.recordsOk al (inp.map (·.1)) (recs.map toOut) = true := by
  unfold IdSpec.recordsOk
  simp only [Bool.and_eq_true, List.map_map]
  refine ⟨⟨⟨?_, ?_⟩, ?_⟩, ?_⟩
  · exact pairwiseDistinct_iff.mpr (by simpa [Function.comp_def, toOut] using p.distinct)
  · simp only [List.all_eq_true, List.mem_map, Bool.and_eq_true]
    rintro o ⟨r, hr, rfl⟩
    exact ⟨(clean_iff_fileSafe _).mp (p.each r hr).1, (clean_iff_fileSafe _).mp (p.each r hr).2.1⟩
  · simp only [List.all_eq_true, List.mem_map, Bool.and_eq_true]
    rintro o ⟨r, hr, rfl⟩
    unfold IdSpec.shortEnough toOut
    cases al with
    | true => simp
    | false =>
      have := (p.each r hr).2.2.1 rfl
      simp [this.1, this.2]
  · exact remembersAll_of_forall₂ (forall₂_map_left p.remembers)

theorem uniqueOk_of_ok {pre : Str} {taken : List Str} {start : Nat} {maxLength : Int} {n : Str} {k : Nat}
    (h : generateUniqueId pre taken start maxLength = .ok (n, k)) : IdSpec.uniqueOk taken maxLength n = true := by
  obtain ⟨_, h2, h3⟩ := generateUniqueId_ok h
  unfold IdSpec.uniqueOk
  simp only [Bool.and_eq_true, Bool.not_eq_true', Bool.or_eq_true, decide_eq_true_eq]
  refine ⟨by simpa using h2, ?_⟩
  by_cases hm : maxLength ≤ 0
  · exact Or.inl hm
  · exact Or.inr (h3 (by omega))

theorem falsy_eq (o : Option Str) : IdSpec.falsy o = !origSet o := by
  cases o with
  | none => rfl
  | some s => cases s <;> rfl

theorem fixOk_of_post {al : Bool} {taken : List Str} {r r' : Rec} {t' : List Str} (p : FixPost al taken r r' t') :
    IdSpec.fixOk al taken r.id r.orig (toOut r') t' = true := by
  unfold IdSpec.fixOk toOut
  simp only [Bool.and_eq_true]
  refine ⟨⟨⟨⟨⟨⟨⟨?_, ?_⟩, ?_⟩, ?_⟩, ?_⟩, ?_⟩, ?_⟩, ?_⟩
  · exact (clean_iff_fileSafe _).mp p.cleanId
  · exact (clean_iff_fileSafe _).mp p.cleanName
  · unfold IdSpec.shortEnough
    cases al with
    | true => rfl
    | false => simpa using p.shortId rfl
  · unfold IdSpec.shortEnough
    cases al with
    | true => rfl
    | false => simpa using p.shortName rfl
  · rcases p.fresh with h | h
    · simp [h]
    · simp [h]
  · simp only [List.all_eq_true]
    intro y hy
    simpa using p.sub y hy
  · by_cases hm : r.id ∈ taken
    · have := p.mem hm
      simp [this]
    · simp [hm]
  · rw [p.orig, falsy_eq]
    unfold fixOrig
    simp only [beq_iff_eq]
    by_cases h1 : origSet r.orig = true
    · simp [h1]
    · have h1' : origSet r.orig = false := by simpa using h1
      by_cases h2 : r'.id = r.id
      · simp [h1', h2]
      · have h3 : r.id ≠ r'.id := fun h => h2 h.symm
        simp [h1', h2, h3]

end ASV.Ids
