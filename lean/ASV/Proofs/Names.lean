/-
  Helper lemmas for C20, part 3: the names `prepare_output_directory` and `_run_antismash` derive
  (`canonical_base_filename`, the empty `--output-dir`, the results file's name).
-/
import ASV.Proofs.OutputDir
namespace ASV.WriteSafety
open ASV.PosixPath (Path Plain)

theorem basename_append_slash (a n : Path) (hn : '/' ∉ n) : PosixPath.basename (a ++ '/' :: n) = n := by
  simp [PosixPath.basename, PosixPath.splitSlash_append_slash a n hn]

theorem basename_single (n : Path) (hn : '/' ∉ n) : PosixPath.basename n = n := by
  simp [PosixPath.basename, PosixPath.splitSlash_single n hn]

/-- `basename(join(d, n)) == n` for a plain name -/
theorem basename_join_plain (d n : Path) (hn : Plain n) : PosixPath.basename (PosixPath.join d n) = n := by
  by_cases hd : d = []
  · subst hd
    have h1 : (n.head? == some '/') = false := by simpa using PosixPath.plain_head n hn
    simp [PosixPath.join, h1, basename_single n hn.2.2.2]
  · obtain ⟨a', ha'⟩ := PosixPath.join_plain_shape d n hd hn
    rw [ha', basename_append_slash a' n hn.2.2.2]

theorem normpath_abs_ne_nil (p : Path) (h : PosixPath.isabs p = true) : PosixPath.normpath p ≠ [] := by
  rw [PosixPath.normpath_abs p h]
  obtain ⟨k, hk⟩ := Nat.exists_eq_succ_of_ne_zero (PosixPath.leadSlashes_pos p h)
  simp [hk, List.replicate_succ]

theorem normpath_abs_isabs (p : Path) (h : PosixPath.isabs p = true) :
    PosixPath.isabs (PosixPath.normpath p) = true := by
  rw [PosixPath.normpath_abs p h]
  obtain ⟨k, hk⟩ := Nat.exists_eq_succ_of_ne_zero (PosixPath.leadSlashes_pos p h)
  simp [hk, List.replicate_succ, PosixPath.isabs]

/-- the results file's name always ends in `.json` -/
theorem jsonName_shape (r : RunIn) : ∃ pre : List Char, r.jsonName.toList = pre ++ ".json".toList := by
  unfold RunIn.jsonName
  exact ⟨_, by rw [String.toList_append]⟩

/-- with an empty `name` argument the directory used is `abspath` of the derived prefix: absolute, so
    in particular not empty -/
theorem effective_empty_name (c : CallIn) (h : c.nameArg = "") (hcwd : PosixPath.isabs c.cwd.toList = true) :
    (effective c).1.name.toList ≠ [] ∧ PosixPath.isabs (effective c).1.name.toList = true ∧
      (effective c).2.outputDir = (effective c).1.name := by
  have hb : (c.nameArg == "") = true := by simp [h]
  simp only [effective, hb, if_true, String.toList_ofList]
  exact ⟨normpath_abs_ne_nil _ (PosixPath.isabs_absArg _ _ hcwd),
         normpath_abs_isabs _ (PosixPath.isabs_absArg _ _ hcwd), trivial⟩

theorem effective_given_name (c : CallIn) (h : c.nameArg ≠ "") :
    (effective c).1.name = c.nameArg ∧ (effective c).2.outputDir = c.opts.outputDir := by
  have hb : (c.nameArg == "") = false := by simpa using h
  unfold effective canonicalBaseFilename
  simp only [hb, Bool.false_eq_true, if_false]
  split <;> simp

/-- an explicit `--output-basename` is never replaced by a name derived from the input -/
theorem option_basename_kept (inputFile directory : String) (o : Options) (h : o.outputBasename ≠ "") :
    canonicalBaseFilename inputFile directory o =
      (String.ofList (PosixPath.join directory.toList o.outputBasename.toList), o) := by
  have hb : (o.outputBasename != "") = true := by simpa using h
  simp [canonicalBaseFilename, hb]


/-! ### the executable pipeline spec holds of the model -/

theorem pipeline_meets_spec' (p : PipeIn) (wf : p.prep.WF = true) : specPipeline p (runPipeline p) = true := by
  unfold specPipeline
  cases ha : specAccepts p.prep with
  | false => simp [pipeline_refused p wf ha, refusedUntouched]
  | true =>
    cases hf : p.results.hasFault with
    | true =>
      obtain ⟨e, he⟩ := pipeline_fault p wf ha hf
      obtain ⟨_, _, hw⟩ := writeToFile_fault p.results (.path p.jsonName) (preparedDir p.prep) hf
      have hall := pipeline_prefix_events p wf ha _ hw
      rw [he]
      have hA : Ev.annotated ∉ (prepareOutputDir p.prep).trace ++ Ev.prepared ::
          (writeToFile p.results (.path p.jsonName) (preparedDir p.prep)).trace := fun h => (hall _ h).1 rfl
      have hO : Ev.outputsWritten ∉ (prepareOutputDir p.prep).trace ++ Ev.prepared ::
          (writeToFile p.results (.path p.jsonName) (preparedDir p.prep)).trace := fun h => (hall _ h).2.1 rfl
      have hW : ((prepareOutputDir p.prep).trace ++ Ev.prepared ::
          (writeToFile p.results (.path p.jsonName) (preparedDir p.prep)).trace).any
            (fun e => e == Ev.openW p.jsonName || e == Ev.write p.jsonName) = false := by
        rw [List.any_eq_false]
        intro x hx
        have := hall x hx
        simp [this.2.2.1 p.jsonName, this.2.2.2 p.jsonName]
      simp [hA, hO, hW]
    | false =>
      rw [pipeline_clean p wf ha hf]
      have hall := pipeline_prefix_events p wf ha _
        (fun ev hev => Or.inl (convertRecords_trace 0 p.results.records p.results.results ev hev))
      have hq : ∀ ev ∈ (prepareOutputDir p.prep).trace ++ Ev.prepared ::
          (convertRecords 0 p.results.records p.results.results).trace,
          (fun e : Ev => e != Ev.openW p.jsonName) ev = true := by
        intro ev hev
        simpa using (hall ev hev).2.2.1 p.jsonName
      have hassoc : (prepareOutputDir p.prep).trace ++
            Ev.prepared :: (convertRecords 0 p.results.records p.results.results).trace ++
            [Ev.openW p.jsonName, Ev.write p.jsonName, Ev.annotated, Ev.outputsWritten] =
          ((prepareOutputDir p.prep).trace ++
            Ev.prepared :: (convertRecords 0 p.results.records p.results.results).trace) ++
            [Ev.openW p.jsonName, Ev.write p.jsonName, Ev.annotated, Ev.outputsWritten] := by
        simp
      rw [hassoc]
      simp only [Bool.not_true, Bool.false_eq_true, if_false, Option.isNone_none, decide_true, Bool.true_and]
      rw [dropWhile_prefix _ _ _ hq]
      simp

/-! ### reloaded results -/

theorem jsonShape_faulty_or_none : ∀ v : PyVal, jsonShape v = .none ∨ (jsonShape v).faulty = true
  | .none => Or.inl rfl
  | .bool _ => Or.inr rfl
  | .int _ => Or.inr rfl
  | .str _ => Or.inr rfl
  | .list _ => Or.inr rfl
  | .dict _ => Or.inr rfl
  | .seq _ => Or.inr rfl
  | .seqConv _ _ => Or.inr rfl
  | .conv v => by simpa [jsonShape] using jsonShape_faulty_or_none v
  | .convRaises _ => Or.inr rfl
  | .dunder v => by simpa [jsonShape] using jsonShape_faulty_or_none v
  | .dunderRaises _ => Or.inr rfl
  | .both v _ => by simpa [jsonShape] using jsonShape_faulty_or_none v
  | .opaque => Or.inr rfl

/-- a reloaded record's modules are faulty as soon as one of them was written as something other
    than `null` -/
theorem reloadDict_faulty (m : ModDict) (k : String) (t : Bool) (v : PyVal) (hk : (k, ModSpec.mod t v) ∈ m)
    (hv : jsonShape v ≠ .none) : dictFaulty (reloadDict m) = true := by
  induction m with
  | nil => simp at hk
  | cons kv rest ih =>
    obtain ⟨k', s⟩ := kv
    rcases List.mem_cons.1 hk with h | h
    · cases h
      rcases jsonShape_faulty_or_none v with h1 | h1
      · exact absurd h1 hv
      · simp [reloadDict, dictFaulty_cons, h1]
    · have := ih h
      cases s <;> simp [reloadDict, dictFaulty_cons, this]

theorem reload_hasFault (r : Results) (i : Nat) (hi : i < r.records.length) (hi' : i < r.results.length)
    (k : String) (t : Bool) (v : PyVal) (hk : (k, ModSpec.mod t v) ∈ r.results[i]) (hv : jsonShape v ≠ .none) :
    (reload r).hasFault = true := by
  have hmem : r.results[i] ∈ r.results.take r.records.length := by
    have hlt : i < (r.results.take r.records.length).length := by simp; omega
    have := List.getElem_mem hlt
    simpa using this
  have hf := reloadDict_faulty r.results[i] k t v hk hv
  have e : (reload r).results.take (reload r).records.length =
      (r.results.take r.records.length).map reloadDict := by
    unfold reload
    apply List.take_of_length_le
    simp
  simp only [Results.hasFault, conversionFault, Bool.or_eq_true]
  refine Or.inl (Or.inr ?_)
  rw [e, List.any_eq_true]
  exact ⟨reloadDict r.results[i], List.mem_map_of_mem hmem, hf⟩

theorem reload_lengths (r : Results) : (reload r).results.length = (reload r).records.length := by
  simp [reload]

end ASV.WriteSafety
