/-
  C08 helper lemmas, part 4: what one `add_cds` call does to the record's relations and caches.
-/
import ASV.Proofs.LookupSpec
namespace ASV.Lookup
open ASV

/-! ### the collections an `add_cds` call reaches, with the section each files the gene under -/

mutual
/-- the collection itself and, recursively, every child that contains the gene; a child is handed the
    section its parent chose -/
def downNodes (g : Gene) (given : Option Section) : AreaT → List (AreaT × Section)
  | .mk id kind loc core product kids =>
    (.mk id kind loc core product kids, (chooseSection loc g given).getD .post)
      :: downKids g (chooseSection loc g given) kids
def downKids (g : Gene) (sec : Option Section) : List AreaT → List (AreaT × Section)
  | [] => []
  | k :: ks => (if containedBy g.loc k.loc then downNodes g sec k else []) ++ downKids g sec ks
end

/-- does `Protocluster.add_cds` record the gene as defining? -/
def defines (g : Gene) (d : AreaT) : Bool :=
  d.kind == .proto && containedBy g.loc d.core && g.cores.contains d.product

/-- `r'` is `r` after the triples `(gene, collection, section)` in `P` have been entered into the gene lists
    and those in `Q` into the definition sets / region back links: the relations grow by exactly those
    entries, back links are put in front, the caches of the touched collections (and only those) are marked
    dirty, everything else is untouched -/
structure Eff2 (P Q : List (Gene × AreaT × Section)) (r r' : Rec) : Prop where
  len : r'.len = r.len
  genes : r'.genes = r.genes
  byName : r'.byName = r.byName
  byLoc : r'.byLoc = r.byLoc
  cdsCache : r'.cdsCache = r.cdsCache
  cdsCacheDirty : r'.cdsCacheDirty = r.cdsCacheDirty
  regions : r'.regions = r.regions
  protos : r'.protos = r.protos
  cands : r'.cands = r.cands
  subs : r'.subs = r.subs
  slotVal : r'.slotVal = r.slotVal
  tupleVal : r'.tupleVal = r.tupleVal
  log : r'.log = r.log
  members : ∀ x, x ∈ r'.members ↔ x ∈ r.members ∨ ∃ t ∈ P, x = (t.2.1.id, t.1.id)
  sections : ∀ x, x ∈ r'.sections ↔ x ∈ r.sections ∨ ∃ t ∈ P, x = ((t.2.1.id, t.2.2), t.1.id)
  defs : ∀ x, x ∈ r'.defs ↔ x ∈ r.defs ∨ ∃ t ∈ Q, defines t.1 t.2.1 = true ∧ x = (t.2.1.id, t.1.id)
  regionOf : ∃ pre, r'.regionOf = pre ++ r.regionOf ∧
    ∀ x, x ∈ pre ↔ ∃ t ∈ Q, t.2.1.kind = .region ∧ x = (t.1.id, some t.2.1.id)
  clean : ∀ aid, aid ∈ r'.clean ↔ aid ∈ r.clean ∧ ∀ t ∈ P, t.2.1.id ≠ aid
  slotClean : ∀ x, x ∈ r'.slotClean ↔ x ∈ r.slotClean ∧ ∀ t ∈ P, (t.2.1.id, t.2.2) ≠ x
  /-- lists of untouched collections keep their order too -/
  childrenSame : ∀ aid, (∀ t ∈ P, t.2.1.id ≠ aid) → r'.children aid = r.children aid
  sectionSame : ∀ aid s, (∀ t ∈ P, (t.2.1.id, t.2.2) ≠ (aid, s)) → r'.section aid s = r.section aid s

abbrev Eff (P : List (Gene × AreaT × Section)) (r r' : Rec) : Prop := Eff2 P P r r'

theorem Eff.refl (r : Rec) : Eff [] r r := by
  constructor <;> simp

theorem Eff2.trans {P Q P' Q' : List (Gene × AreaT × Section)} {r₁ r₂ r₃ : Rec}
    (h₁ : Eff2 P Q r₁ r₂) (h₂ : Eff2 P' Q' r₂ r₃) : Eff2 (P ++ P') (Q ++ Q') r₁ r₃ := by
  constructor
  · rw [h₂.len, h₁.len]
  · rw [h₂.genes, h₁.genes]
  · rw [h₂.byName, h₁.byName]
  · rw [h₂.byLoc, h₁.byLoc]
  · rw [h₂.cdsCache, h₁.cdsCache]
  · rw [h₂.cdsCacheDirty, h₁.cdsCacheDirty]
  · rw [h₂.regions, h₁.regions]
  · rw [h₂.protos, h₁.protos]
  · rw [h₂.cands, h₁.cands]
  · rw [h₂.subs, h₁.subs]
  · rw [h₂.slotVal, h₁.slotVal]
  · rw [h₂.tupleVal, h₁.tupleVal]
  · rw [h₂.log, h₁.log]
  · intro x; rw [h₂.members, h₁.members]; simp only [List.mem_append]; grind
  · intro x; rw [h₂.sections, h₁.sections]; simp only [List.mem_append]; grind
  · intro x; rw [h₂.defs, h₁.defs]; simp only [List.mem_append]; grind
  · obtain ⟨p1, e1, c1⟩ := h₁.regionOf
    obtain ⟨p2, e2, c2⟩ := h₂.regionOf
    refine ⟨p2 ++ p1, by rw [e2, e1, List.append_assoc], ?_⟩
    intro x; simp only [List.mem_append, c1, c2]; grind
  · intro aid; rw [h₂.clean, h₁.clean]; simp only [List.mem_append]; grind
  · intro x; rw [h₂.slotClean, h₁.slotClean]; simp only [List.mem_append]; grind
  · intro aid h
    rw [h₂.childrenSame aid (fun t ht => h t (List.mem_append.2 (Or.inr ht))),
      h₁.childrenSame aid (fun t ht => h t (List.mem_append.2 (Or.inl ht)))]
  · intro aid s h
    rw [h₂.sectionSame aid s (fun t ht => h t (List.mem_append.2 (Or.inr ht))),
      h₁.sectionSame aid s (fun t ht => h t (List.mem_append.2 (Or.inl ht)))]

theorem Eff.trans {P Q : List (Gene × AreaT × Section)} {r₁ r₂ r₃ : Rec} (h₁ : Eff P r₁ r₂) (h₂ : Eff Q r₂ r₃) :
    Eff (P ++ Q) r₁ r₃ := Eff2.trans h₁ h₂

/-- only membership in the second list matters -/
theorem Eff2.congrQ {P Q Q' : List (Gene × AreaT × Section)} {r r' : Rec} (h : Eff2 P Q r r')
    (hQ : ∀ x, x ∈ Q ↔ x ∈ Q') : Eff2 P Q' r r' :=
  { h with
    defs := fun x => by rw [h.defs]; simp only [hQ]
    regionOf := by
      obtain ⟨pre, e, c⟩ := h.regionOf
      exact ⟨pre, e, fun x => by rw [c]; simp only [hQ]⟩ }

theorem mem_insertNew {α} [BEq α] [LawfulBEq α] (l : List α) (y x : α) : x ∈ insertNew l y ↔ x ∈ l ∨ x = y := by
  unfold insertNew
  split
  · rename_i h
    have : y ∈ l := by simpa using h
    constructor
    · exact Or.inl
    · rintro (h | rfl) <;> assumption
  · simp

theorem filter_insertNew_ne {α} [BEq α] [LawfulBEq α] (l : List α) (y : α) (p : α → Bool) (h : p y = false) :
    (insertNew l y).filter p = l.filter p := by
  unfold insertNew
  split
  · rfl
  · simp [List.filter_append, h]

/-- the subclass tail of `add_cds` (Protocluster / Region) applied to the state after the children -/
def tail (g : Gene) (id : Nat) (kind : Kind) (core : Loc) (product : String) (r2 : Rec) : Rec :=
  match kind with
  | .proto =>
    if containedBy g.loc core && g.cores.contains product
    then { r2 with defs := insertNew r2.defs (id, g.id) } else r2
  | .region => { r2 with regionOf := (g.id, some id) :: r2.regionOf }
  | _ => r2

theorem tail_eff (g : Gene) (s : Section) (id : Nat) (kind : Kind) (loc core : Loc) (product : String)
    (kids : List AreaT) (r2 : Rec) :
    Eff2 [] [(g, AreaT.mk id kind loc core product kids, s)] r2 (tail g id kind core product r2) := by
  cases kind with
  | proto =>
    have hself : defines g (AreaT.mk id .proto loc core product kids)
        = (containedBy g.loc core && g.cores.contains product) := by
      simp [defines, AreaT.kind, AreaT.core, AreaT.product]
    cases hdef : (containedBy g.loc core && g.cores.contains product)
    · simp only [tail, hdef, Bool.false_eq_true, if_false]
      have hd' : ¬(containedBy g.loc core = true ∧ product ∈ g.cores) := by simpa using hdef
      constructor <;> simp [hself, AreaT.kind]
      exact fun a b h1 h2 => absurd ⟨h1, h2⟩ hd'
    · simp only [tail, hdef, if_true]
      have hd' : containedBy g.loc core = true ∧ product ∈ g.cores := by simpa using hdef
      constructor <;> simp [hself, AreaT.kind, AreaT.id, mem_insertNew, Rec.children, Rec.section]
      intro a b; simp [hd']
  | region =>
    simp only [tail]
    constructor <;> simp [defines, AreaT.kind, AreaT.id, Rec.children, Rec.section]
    exact ⟨[(g.id, some id)], rfl, by simp⟩
  | cand => simp only [tail]; constructor <;> simp [defines, AreaT.kind]
  | sub => simp only [tail]; constructor <;> simp [defines, AreaT.kind]
  | sideProto => simp only [tail]; constructor <;> simp [defines, AreaT.kind]

theorem pushDown_unfold (g : Gene) (given : Option Section) (id : Nat) (kind : Kind) (loc core : Loc) (product : String)
    (kids : List AreaT) (r : Rec) :
    pushDown g given (.mk id kind loc core product kids) r
      = tail g id kind core product (pushKids g (chooseSection loc g given) kids
          { r with members := insertNew r.members (id, g.id),
                   sections := insertNew r.sections ((id, (chooseSection loc g given).getD .post), g.id),
                   clean := r.clean.filter (· != id),
                   slotClean := r.slotClean.filter (· != (id, (chooseSection loc g given).getD .post)) }) := by
  cases kind <;> simp [pushDown, tail]

/-- the collection's own entry: gene list, section list, both caches marked dirty -/
theorem own_eff (g : Gene) (s : Section) (a : AreaT) (r : Rec) :
    Eff2 [(g, a, s)] [] r
      { r with members := insertNew r.members (a.id, g.id),
               sections := insertNew r.sections ((a.id, s), g.id),
               clean := r.clean.filter (· != a.id),
               slotClean := r.slotClean.filter (· != (a.id, s)) } := by
  refine { len := rfl, genes := rfl, byName := rfl, byLoc := rfl, cdsCache := rfl, cdsCacheDirty := rfl,
           regions := rfl, protos := rfl, cands := rfl, subs := rfl, slotVal := rfl, tupleVal := rfl, log := rfl,
           members := ?_, sections := ?_, defs := ?_, regionOf := ?_, clean := ?_, slotClean := ?_,
           childrenSame := ?_, sectionSame := ?_ }
  · intro x; simp [mem_insertNew]
  · intro x; simp [mem_insertNew]
  · intro x; simp
  · exact ⟨[], by simp⟩
  · intro aid; simp only [List.mem_filter, bne_iff_ne, ne_eq, List.mem_singleton, forall_eq]
    constructor
    · rintro ⟨h1, h2⟩; exact ⟨h1, fun e => h2 e.symm⟩
    · rintro ⟨h1, h2⟩; exact ⟨h1, fun e => h2 e.symm⟩
  · intro x; simp only [List.mem_filter, bne_iff_ne, ne_eq, List.mem_singleton, forall_eq]
    constructor
    · rintro ⟨h1, h2⟩; exact ⟨h1, fun e => h2 e.symm⟩
    · rintro ⟨h1, h2⟩; exact ⟨h1, fun e => h2 e.symm⟩
  · intro aid h
    have hne : a.id ≠ aid := by simpa using h
    simp only [Rec.children]
    rw [filter_insertNew_ne]
    simpa using hne
  · intro aid s' h
    have hne : (a.id, s) ≠ (aid, s') := by simpa using h
    simp only [Rec.section]
    rw [filter_insertNew_ne]
    simpa using hne

mutual
theorem pushDown_eff (g : Gene) : ∀ (given : Option Section) (a : AreaT) (r : Rec),
    Eff ((downNodes g given a).map fun d => (g, d.1, d.2)) r (pushDown g given a r)
  | given, .mk id kind loc core product kids, r => by
    rw [pushDown_unfold]
    have h1 := own_eff g ((chooseSection loc g given).getD .post) (.mk id kind loc core product kids) r
    have hk := pushKids_eff g (chooseSection loc g given) kids
      { r with members := insertNew r.members (id, g.id),
               sections := insertNew r.sections ((id, (chooseSection loc g given).getD .post), g.id),
               clean := r.clean.filter (· != id),
               slotClean := r.slotClean.filter (· != (id, (chooseSection loc g given).getD .post)) }
    have ht := tail_eff g ((chooseSection loc g given).getD .post) id kind loc core product kids
      (pushKids g (chooseSection loc g given) kids
        { r with members := insertNew r.members (id, g.id),
                 sections := insertNew r.sections ((id, (chooseSection loc g given).getD .post), g.id),
                 clean := r.clean.filter (· != id),
                 slotClean := r.slotClean.filter (· != (id, (chooseSection loc g given).getD .post)) })
    have := (Eff2.trans (Eff2.trans h1 hk) ht)
    simp only [AreaT.id, List.append_nil, List.nil_append, List.singleton_append] at this
    simp only [downNodes, List.map_cons]
    exact this.congrQ (fun x => by simp only [List.mem_append, List.mem_cons, List.mem_singleton, List.not_mem_nil, or_false]; exact Or.comm)
theorem pushKids_eff (g : Gene) : ∀ (sec : Option Section) (ks : List AreaT) (r : Rec),
    Eff ((downKids g sec ks).map fun d => (g, d.1, d.2)) r (pushKids g sec ks r)
  | sec, [], r => by simp [downKids, pushKids]; exact Eff.refl r
  | sec, k :: ks, r => by
    simp only [downKids, pushKids, List.map_append]
    by_cases hc : containedBy g.loc k.loc = true
    · simp only [hc, if_true]
      exact (pushDown_eff g sec k r).trans (pushKids_eff g sec ks _)
    · simp only [hc, if_false, Bool.false_eq_true, List.map_nil]
      exact (Eff.refl r).trans (pushKids_eff g sec ks _)
end

/-! ### linking one gene to a list of collections -/

/-- every collection in `areas` that contains the gene, with the children the gene is passed down to -/
def downAll (g : Gene) (areas : List AreaT) : List (AreaT × Section) :=
  areas.flatMap fun a => if containedBy g.loc a.loc then downNodes g none a else []

theorem mem_downAll (g : Gene) (areas : List AreaT) (d : AreaT × Section) :
    d ∈ downAll g areas ↔ ∃ a ∈ areas, containedBy g.loc a.loc = true ∧ d ∈ downNodes g none a := by
  simp only [downAll, List.mem_flatMap]
  constructor
  · rintro ⟨a, ha, hd⟩
    by_cases hc : containedBy g.loc a.loc = true
    · simp only [hc, if_true] at hd; exact ⟨a, ha, hc, hd⟩
    · simp [hc] at hd
  · rintro ⟨a, ha, hc, hd⟩
    exact ⟨a, ha, by simp [hc, hd]⟩

theorem downAll_append (g : Gene) (l₁ l₂ : List AreaT) : downAll g (l₁ ++ l₂) = downAll g l₁ ++ downAll g l₂ := by
  simp [downAll]

theorem linkAll_eff (g : Gene) : ∀ (areas : List AreaT) (r : Rec),
    Eff ((downAll g areas).map fun d => (g, d.1, d.2)) r (linkAll g areas r)
  | [], r => by simp [downAll, linkAll]; exact Eff.refl r
  | a :: areas, r => by
    have ih := linkAll_eff g areas
    simp only [linkAll, List.foldl_cons] at ih ⊢
    have e : downAll g (a :: areas) = (if containedBy g.loc a.loc then downNodes g none a else []) ++ downAll g areas := by
      simp [downAll]
    rw [e, List.map_append]
    by_cases hc : containedBy g.loc a.loc = true
    · simp only [hc, if_true]
      exact (pushDown_eff g none a r).trans (ih _)
    · simp only [hc, if_false, Bool.false_eq_true, List.map_nil]
      exact (Eff.refl r).trans (ih _)

/-- the collections added to the record, in the order `_link_cds_to_parent` visits them -/
def registered (r : Rec) : List AreaT := r.regions ++ r.protos ++ r.cands ++ r.subs

theorem linkCdsToParent_eff (r : Rec) (g : Gene) :
    Eff ((downAll g (registered r)).map fun d => (g, d.1, d.2)) r (linkCdsToParent r g) := by
  simp only [linkCdsToParent]
  have h1 := linkAll_eff g r.regions r
  generalize linkAll g r.regions r = r1 at h1 ⊢
  have h2 := linkAll_eff g r1.protos r1
  generalize linkAll g r1.protos r1 = r2 at h2 ⊢
  have h3 := linkAll_eff g r2.cands r2
  generalize linkAll g r2.cands r2 = r3 at h3 ⊢
  have h4 := linkAll_eff g r3.subs r3
  have e2 : r1.protos = r.protos := h1.protos
  have e3 : r2.cands = r.cands := by rw [h2.cands, h1.cands]
  have e4 : r3.subs = r.subs := by rw [h3.subs, h2.subs, h1.subs]
  have := ((h1.trans h2).trans h3).trans h4
  rw [e2, e3] at this
  rw [e4] at this ⊢
  simpa [registered, downAll_append] using this

/-- `for cds in found: area.add_cds(cds)` when everything found is contained: never raises -/
theorem addAll_eff (a : AreaT) : ∀ (L : List Gene) (r : Rec), (∀ g ∈ L, containedBy g.loc a.loc = true) →
    ∃ r', L.foldlM (fun r g => areaAddCds r a g) r = .ok r' ∧
      Eff (L.flatMap fun g => (downNodes g none a).map fun d => (g, d.1, d.2)) r r'
  | [], r, _ => ⟨r, rfl, by simpa using Eff.refl r⟩
  | g :: L, r, h => by
    have hc := h g (by simp)
    obtain ⟨r', h1, h2⟩ := addAll_eff a L (pushDown g none a r) (fun x hx => h x (by simp [hx]))
    refine ⟨r', ?_, ?_⟩
    · simp only [List.foldlM_cons, areaAddCds, hc, if_true, bind, Except.bind, pure, Except.pure]
      exact h1
    · simp only [List.flatMap_cons]
      exact (pushDown_eff g none a r).trans h2

end ASV.Lookup
