/-
  C08 helper lemmas, part 4: what one `add_cds` call does to the record's relations.
-/
import ASV.Proofs.LookupSpec
namespace ASV.Lookup
open ASV

/-! ### the collections an `add_cds` call reaches -/

mutual
/-- the collection itself and, recursively, every child that contains the gene -/
def downNodes (g : Gene) : AreaT → List AreaT
  | .mk id kind loc core product kids => .mk id kind loc core product kids :: downKids g kids
def downKids (g : Gene) : List AreaT → List AreaT
  | [] => []
  | k :: ks => (if containedBy g.loc k.loc then downNodes g k else []) ++ downKids g ks
end

/-- does `Protocluster.add_cds` record the gene as defining? -/
def defines (g : Gene) (d : AreaT) : Bool :=
  d.kind == .proto && containedBy g.loc d.core && g.cores.contains d.product

/-- `r'` is `r` after the pairs `(gene, collection)` in `P` have been entered -/
structure Eff (P : List (Gene × AreaT)) (r r' : Rec) : Prop where
  len : r'.len = r.len
  genes : r'.genes = r.genes
  regions : r'.regions = r.regions
  protos : r'.protos = r.protos
  cands : r'.cands = r.cands
  subs : r'.subs = r.subs
  members : ∀ x, x ∈ r'.members ↔ x ∈ r.members ∨ ∃ gd ∈ P, x = (gd.2.id, gd.1.id)
  defs : ∀ x, x ∈ r'.defs ↔ x ∈ r.defs ∨ ∃ gd ∈ P, defines gd.1 gd.2 = true ∧ x = (gd.2.id, gd.1.id)
  regionOf : ∀ x, x ∈ r'.regionOf ↔ x ∈ r.regionOf ∨ ∃ gd ∈ P, gd.2.kind = .region ∧ x = (gd.1.id, gd.2.id)

theorem Eff.refl (r : Rec) : Eff [] r r := by
  constructor <;> simp

theorem Eff.trans {P Q : List (Gene × AreaT)} {r₁ r₂ r₃ : Rec} (h₁ : Eff P r₁ r₂) (h₂ : Eff Q r₂ r₃) :
    Eff (P ++ Q) r₁ r₃ := by
  constructor
  · rw [h₂.len, h₁.len]
  · rw [h₂.genes, h₁.genes]
  · rw [h₂.regions, h₁.regions]
  · rw [h₂.protos, h₁.protos]
  · rw [h₂.cands, h₁.cands]
  · rw [h₂.subs, h₁.subs]
  · intro x; rw [h₂.members, h₁.members]; simp only [List.mem_append]; grind
  · intro x; rw [h₂.defs, h₁.defs]; simp only [List.mem_append]; grind
  · intro x; rw [h₂.regionOf, h₁.regionOf]; simp only [List.mem_append]; grind

theorem mem_insertNew (l : List (Nat × Nat)) (y x : Nat × Nat) : x ∈ insertNew l y ↔ x ∈ l ∨ x = y := by
  unfold insertNew
  split
  · rename_i h
    have : y ∈ l := by simpa using h
    constructor
    · exact Or.inl
    · rintro (h | rfl) <;> assumption
  · simp

theorem Eff.congr {P Q : List (Gene × AreaT)} {r r' : Rec} (h : Eff P r r') (hPQ : ∀ x, x ∈ P ↔ x ∈ Q) : Eff Q r r' := by
  constructor
  · exact h.len
  · exact h.genes
  · exact h.regions
  · exact h.protos
  · exact h.cands
  · exact h.subs
  · intro x; rw [h.members]; simp only [hPQ]
  · intro x; rw [h.defs]; simp only [hPQ]
  · intro x; rw [h.regionOf]; simp only [hPQ]

/-- the subclass tail of `add_cds` (Protocluster / Region) applied to the state after the children -/
def tail (g : Gene) (id : Nat) (kind : Kind) (core : Loc) (product : String) (r2 : Rec) : Rec :=
  match kind with
  | .proto =>
    if containedBy g.loc core && g.cores.contains product
    then { r2 with defs := insertNew r2.defs (id, g.id) } else r2
  | .region => { r2 with regionOf := (g.id, id) :: r2.regionOf }
  | _ => r2

theorem tail_spec (g : Gene) (id : Nat) (kind : Kind) (loc core : Loc) (product : String) (kids : List AreaT) (r2 : Rec) :
    let r3 := tail g id kind core product r2
    r3.len = r2.len ∧ r3.genes = r2.genes ∧ r3.regions = r2.regions ∧ r3.protos = r2.protos ∧ r3.cands = r2.cands
    ∧ r3.subs = r2.subs ∧ r3.members = r2.members
    ∧ (∀ x, x ∈ r3.defs ↔ x ∈ r2.defs ∨ (defines g (.mk id kind loc core product kids) = true ∧ x = (id, g.id)))
    ∧ (∀ x, x ∈ r3.regionOf ↔ x ∈ r2.regionOf ∨ (kind = .region ∧ x = (g.id, id))) := by
  cases kind with
  | proto =>
    have hself : defines g (AreaT.mk id .proto loc core product kids)
        = (containedBy g.loc core && g.cores.contains product) := by
      simp [defines, AreaT.kind, AreaT.core, AreaT.product]
    rw [hself]
    cases hdef : (containedBy g.loc core && g.cores.contains product)
    · simp only [tail, hdef, Bool.false_eq_true, if_false]
      simp
    · simp only [tail, hdef, if_true]
      simp [mem_insertNew]
  | region => simp [tail, defines, AreaT.kind]; grind
  | cand => simp [tail, defines, AreaT.kind]
  | sub => simp [tail, defines, AreaT.kind]

theorem pushDown_unfold (g : Gene) (id : Nat) (kind : Kind) (loc core : Loc) (product : String) (kids : List AreaT) (r : Rec) :
    pushDown g (.mk id kind loc core product kids) r
      = tail g id kind core product (pushKids g kids { r with members := insertNew r.members (id, g.id) }) := by
  cases kind <;> simp [pushDown, tail]

mutual
theorem pushDown_eff (g : Gene) : ∀ (a : AreaT) (r : Rec), Eff ((downNodes g a).map fun d => (g, d)) r (pushDown g a r)
  | .mk id kind loc core product kids, r => by
    have hk := pushKids_eff g kids { r with members := insertNew r.members (id, g.id) }
    rw [pushDown_unfold]
    obtain ⟨t1, t2, t3, t4, t5, t6, t7, t8, t9⟩ := tail_spec g id kind loc core product kids
      (pushKids g kids { r with members := insertNew r.members (id, g.id) })
    constructor
    · rw [t1]; exact hk.len
    · rw [t2]; exact hk.genes
    · rw [t3]; exact hk.regions
    · rw [t4]; exact hk.protos
    · rw [t5]; exact hk.cands
    · rw [t6]; exact hk.subs
    · intro x
      rw [t7, hk.members]
      simp only [mem_insertNew, downNodes, List.map_cons, List.mem_cons, exists_eq_or_imp, AreaT.id]
      grind
    · intro x
      rw [t8, hk.defs]
      simp only [downNodes, List.map_cons, List.mem_cons, exists_eq_or_imp, AreaT.id]
      grind
    · intro x
      rw [t9, hk.regionOf]
      simp only [downNodes, List.map_cons, List.mem_cons, exists_eq_or_imp, AreaT.id, AreaT.kind]
      grind
theorem pushKids_eff (g : Gene) : ∀ (ks : List AreaT) (r : Rec), Eff ((downKids g ks).map fun d => (g, d)) r (pushKids g ks r)
  | [], r => by simp [downKids, pushKids]; exact Eff.refl r
  | k :: ks, r => by
    simp only [downKids, pushKids, List.map_append]
    by_cases hc : containedBy g.loc k.loc = true
    · simp only [hc, if_true]
      exact (pushDown_eff g k r).trans (pushKids_eff g ks _)
    · simp only [hc, if_false, Bool.false_eq_true, List.map_nil]
      exact (Eff.refl r).trans (pushKids_eff g ks _)
end

/-! ### linking one gene to a list of collections -/

/-- every collection in `areas` that contains the gene, with the children the gene is passed down to -/
def downAll (g : Gene) (areas : List AreaT) : List AreaT :=
  areas.flatMap fun a => if containedBy g.loc a.loc then downNodes g a else []

theorem mem_downAll (g : Gene) (areas : List AreaT) (d : AreaT) :
    d ∈ downAll g areas ↔ ∃ a ∈ areas, containedBy g.loc a.loc = true ∧ d ∈ downNodes g a := by
  simp only [downAll, List.mem_flatMap]
  constructor
  · rintro ⟨a, ha, hd⟩
    by_cases hc : containedBy g.loc a.loc = true
    · simp only [hc, if_true] at hd; exact ⟨a, ha, hc, hd⟩
    · simp [hc] at hd
  · rintro ⟨a, ha, hc, hd⟩
    exact ⟨a, ha, by simp [hc, hd]⟩

theorem downAll_append (g : Gene) (l₁ l₂ : List AreaT) : downAll g (l₁ ++ l₂) = downAll g l₁ ++ downAll g l₂ := by
  simp [downAll]

theorem linkAll_eff (g : Gene) : ∀ (areas : List AreaT) (r : Rec),
    Eff ((downAll g areas).map fun d => (g, d)) r (linkAll g areas r)
  | [], r => by simp [downAll, linkAll]; exact Eff.refl r
  | a :: areas, r => by
    have ih := linkAll_eff g areas
    simp only [linkAll, List.foldl_cons] at ih ⊢
    have e : downAll g (a :: areas) = (if containedBy g.loc a.loc then downNodes g a else []) ++ downAll g areas := by
      simp [downAll]
    rw [e, List.map_append]
    by_cases hc : containedBy g.loc a.loc = true
    · simp only [hc, if_true]
      exact (pushDown_eff g a r).trans (ih _)
    · simp only [hc, if_false, Bool.false_eq_true, List.map_nil]
      exact (Eff.refl r).trans (ih _)

/-- the collections added to the record, in the order `_link_cds_to_parent` visits them -/
def registered (r : Rec) : List AreaT := r.regions ++ r.protos ++ r.cands ++ r.subs

theorem linkCdsToParent_eff (r : Rec) (g : Gene) :
    Eff ((downAll g (registered r)).map fun d => (g, d)) r (linkCdsToParent r g) := by
  simp only [linkCdsToParent]
  have h1 := linkAll_eff g r.regions r
  generalize linkAll g r.regions r = r1 at h1 ⊢
  have h2 := linkAll_eff g r1.protos r1
  generalize linkAll g r1.protos r1 = r2 at h2 ⊢
  have h3 := linkAll_eff g r2.cands r2
  generalize linkAll g r2.cands r2 = r3 at h3 ⊢
  have h4 := linkAll_eff g r3.subs r3
  have e2 : r1.protos = r.protos := h1.protos
  have e3 : r2.cands = r.cands := by rw [h2.cands, h1.cands]
  have e4 : r3.subs = r.subs := by rw [h3.subs, h2.subs, h1.subs]
  have := ((h1.trans h2).trans h3).trans h4
  rw [e2, e3] at this
  rw [e4] at this ⊢
  simpa [registered, downAll_append] using this

/-- `for cds in found: area.add_cds(cds)` when everything found is contained: never raises -/
theorem addAll_eff (a : AreaT) : ∀ (L : List Gene) (r : Rec), (∀ g ∈ L, containedBy g.loc a.loc = true) →
    ∃ r', L.foldlM (fun r g => areaAddCds r a g) r = .ok r' ∧
      Eff (L.flatMap fun g => (downNodes g a).map fun d => (g, d)) r r'
  | [], r, _ => ⟨r, rfl, by simpa using Eff.refl r⟩
  | g :: L, r, h => by
    have hc := h g (by simp)
    obtain ⟨r', h1, h2⟩ := addAll_eff a L (pushDown g a r) (fun x hx => h x (by simp [hx]))
    refine ⟨r', ?_, ?_⟩
    · simp only [List.foldlM_cons, areaAddCds, hc, if_true, bind, Except.bind, pure, Except.pure]
      exact h1
    · simp only [List.flatMap_cons]
      exact (pushDown_eff g a r).trans h2

end ASV.Lookup
