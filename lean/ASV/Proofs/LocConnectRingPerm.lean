/-
  `connect_locations` on a ring does not depend on the order of its arguments, and connecting its
  own result again returns it (C04).
-/
import ASV.Proofs.LocConnectRingShort
set_option linter.unusedSimpArgs false
set_option linter.unusedVariables false
namespace ASV

theorem hullP_perm {q₁ q₂ : List Part} (h : q₁.Perm q₂) : hullP q₁ = hullP q₂ := by
  simp only [hullP, minList_perm (h.map _), maxList_perm (h.map _)]

theorem any_isTwo_perm {r₁ r₂ : List RLoc} (h : r₁.Perm r₂) : r₁.any RLoc.isTwo = r₂.any RLoc.isTwo := by
  rw [Bool.eq_iff_iff, List.any_eq_true, List.any_eq_true]
  exact ⟨fun ⟨x, hx, e⟩ => ⟨x, h.mem_iff.1 hx, e⟩, fun ⟨x, hx, e⟩ => ⟨x, h.mem_iff.2 hx, e⟩⟩

theorem connB_many (r1 r2 : RLoc) (rest : List RLoc) (L : Int) :
    connB (r1 :: r2 :: rest) L =
      if 0 < (hullP (preOf L (r1 :: r2 :: rest))).lo ∧
          (hullP (postOf L (r1 :: r2 :: rest))).hi ≤ (hullP (preOf L (r1 :: r2 :: rest))).lo then
        .compound [⟨(hullP (preOf L (r1 :: r2 :: rest))).lo, L, .fwd⟩, ⟨0, (hullP (postOf L (r1 :: r2 :: rest))).hi, .fwd⟩]
      else .simple ⟨0, L, .fwd⟩ := rfl

theorem connB_perm {r₁ r₂ : List RLoc} (h : r₁.Perm r₂) (L : Int) : connB r₁ L = connB r₂ L := by
  have hpre : hullP (preOf L r₁) = hullP (preOf L r₂) := hullP_perm (h.flatMap_right _)
  have hpost : hullP (postOf L r₁) = hullP (postOf L r₂) := hullP_perm (h.flatMap_right _)
  have hlen := h.length_eq
  match r₁, r₂, h, hpre, hpost, hlen with
  | [], r₂, h, _, _, _ => rw [List.nil_perm.1 h]
  | [a], r₂, h, _, _, _ => rw [List.singleton_perm.1 h]
  | a :: b :: t, [], _, _, _, hlen => simp at hlen
  | a :: b :: t, [c], _, _, _, hlen => simp at hlen
  | a :: b :: t, c :: d :: u, _, hpre, hpost, _ => rw [connB_many, connB_many, hpre, hpost]

theorem connA_perm {r₁ r₂ : List RLoc} (h : r₁.Perm r₂) (L : Int) (hL : 0 < L) (hok : ∀ r ∈ r₁, r.OK L) :
    connA r₁ L = connA r₂ L := by
  have hpre : hullP (preOf L r₁) = hullP (preOf L r₂) := hullP_perm (h.flatMap_right _)
  have hpost : hullP (postOf L r₁) = hullP (postOf L r₂) := hullP_perm (h.flatMap_right _)
  have hpe : preOf L r₁ = [] ↔ preOf L r₂ = [] := by
    have := (h.flatMap_right (RLoc.pre L))
    exact ⟨fun e => by rw [preOf] at e; rw [e] at this; exact List.nil_perm.1 this,
           fun e => by rw [preOf] at e; rw [e] at this; exact List.perm_nil.1 this⟩
  have hqe : postOf L r₁ = [] ↔ postOf L r₂ = [] := by
    have := (h.flatMap_right (RLoc.post L))
    exact ⟨fun e => by rw [postOf] at e; rw [e] at this; exact List.nil_perm.1 this,
           fun e => by rw [postOf] at e; rw [e] at this; exact List.perm_nil.1 this⟩
  have hw : isWrappingShorter (r₁.map (RLoc.toLoc L)) L = isWrappingShorter (r₂.map (RLoc.toLoc L)) L := by
    apply isWrappingShorter_perm (h.map _) L (by omega)
    intro l hl
    obtain ⟨r, hr, rfl⟩ := List.mem_map.1 hl
    have := toLoc_bounds (hok r hr); omega
  have hh : hullOf (r₁.map (RLoc.toLoc L)) = hullOf (r₂.map (RLoc.toLoc L)) := by
    simp only [hullOf, minList_perm ((h.map _).map _), maxList_perm ((h.map _).map _), commonStrand_perm (h.map _)]
  unfold connA
  rw [hw, hpre, hpost, hh]
  by_cases c1 : postOf L r₁ = []
  · rw [if_pos c1, if_pos (hqe.1 c1)]
  · rw [if_neg c1, if_neg (fun e => c1 (hqe.2 e))]
    by_cases c2 : preOf L r₁ = []
    · rw [if_pos c2, if_pos (hpe.1 c2)]
    · rw [if_neg c2, if_neg (fun e => c2 (hpe.2 e))]

/-- the closed form does not depend on the order of the locations -/
theorem connR_perm {r₁ r₂ : List RLoc} (h : r₁.Perm r₂) (L : Int) (hL : 0 < L) (hok : ∀ r ∈ r₁, r.OK L) :
    connR r₁ L = connR r₂ L := by
  unfold connR
  rw [any_isTwo_perm h, connB_perm h L, connA_perm h L hL hok]

/-- the closed form is one part, or a forward two-part span `[a, L) + [0, b)` -/
theorem connR_shape (rs : List RLoc) (L : Int) (hL : 0 < L) (hne : rs ≠ []) (hok : ∀ r ∈ rs, r.OK L) :
    (∃ p, connR rs L = .simple p) ∨ (∃ a b, connR rs L = .compound [⟨a, L, .fwd⟩, ⟨0, b, .fwd⟩]) := by
  unfold connR
  by_cases htwo : rs.any RLoc.isTwo = true
  · rw [if_pos htwo]
    match rs, htwo with
    | [], htwo => simp at htwo
    | [r1], htwo =>
      cases r1 with
      | one p => simp [RLoc.isTwo] at htwo
      | two x y => exact Or.inr ⟨x, y, rfl⟩
    | r1 :: r2 :: rest, _ =>
      rw [connB_many]
      split
      · exact Or.inr ⟨_, _, rfl⟩
      · exact Or.inl ⟨_, rfl⟩
  · rw [if_neg htwo]
    unfold connA
    split
    · split
      · exact Or.inl ⟨_, rfl⟩
      · split
        · exact Or.inl ⟨_, rfl⟩
        · split
          · exact Or.inr ⟨_, _, rfl⟩
          · exact Or.inl ⟨_, rfl⟩
    · exact Or.inl ⟨_, rfl⟩

/-- connecting a well-formed one-part span, or a forward two-part span, on its own returns it -/
theorem connect_self (c : Loc) (L : Int) (hL : 0 < L) (hwf : areaWF L L c = true)
    (hshape : (∃ p, c = .simple p) ∨ (∃ a b, c = .compound [⟨a, L, .fwd⟩, ⟨0, b, .fwd⟩])) :
    connect [c] (some L) = .ok c := by
  rcases hshape with ⟨p, rfl⟩ | ⟨a, b, rfl⟩
  · simp only [areaWF, Loc.parts, Bool.and_eq_true, decide_eq_true_eq] at hwf
    have hin : ∀ l ∈ [Loc.simple p], RingIn L l := by
      intro l hl
      simp only [List.mem_singleton] at hl; subst hl
      exact RingInStrict.ringIn (Or.inl ⟨p, rfl, by omega, by omega, by omega⟩)
    rw [connect_ring_closed _ L (by simp) hL hin]
    have ht : toR (.simple p) = .one p := rfl
    have hw : isWrappingShorter [Loc.simple p] L = false := by
      simp [isWrappingShorter, bridgesOrigin, sortLocs, insertLocBy]
    simp only [List.map, ht, connR, List.any_cons, List.any_nil, RLoc.isTwo, Bool.or_false, Bool.false_eq_true, if_false,
      connA, RLoc.toLoc, hw, hullOf_single]
  · simp only [areaWF, Loc.parts, Bool.and_eq_true, decide_eq_true_eq] at hwf
    have hin : ∀ l ∈ [Loc.compound [⟨a, L, .fwd⟩, ⟨0, b, .fwd⟩]], RingIn L l := by
      intro l hl
      simp only [List.mem_singleton] at hl; subst hl
      exact RingInSpan.ringIn (Or.inr (Or.inl ⟨a, b, .fwd, rfl, by omega, by omega, by omega⟩))
    rw [connect_ring_closed _ L (by simp) hL hin]
    have ht : toR (Loc.compound [⟨a, L, .fwd⟩, ⟨0, b, .fwd⟩]) = .two a b :=
      toR_areaTwo a b L .fwd (by decide) (by omega) (by omega) (by omega)
    simp only [List.map, ht, connR, List.any_cons, List.any_nil, RLoc.isTwo, Bool.or_false, if_true, connB, RLoc.toLoc, fl]

end ASV
