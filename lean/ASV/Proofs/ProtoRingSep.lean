/-
  C03 helper lemmas for every circular record (no restriction on positions or chain lengths):
  what `connect_locations` returns is a well-formed area covering its inputs; the cutoff-widened core
  used by `merge_over_origin` covers exactly the bases within the cutoff; when the merge loop ends no
  two cores of a rule are within the cutoff of each other.
-/
import ASV.Proofs.ProtoRing
import ASV.Proofs.LocExtendArea
import ASV.Proofs.LocConnectRingPerm
import ASV.Proofs.ProtoExtend
namespace ASV.Proto
open ASV ASV.Chains

/-- a core as `connect_locations` returns it on a ring: a well-formed span, one part or the forward
    two-part span `[a, L) + [0, b)` -/
def RingArea (L : Int) (c : Loc) : Prop :=
  areaWF L L c = true ∧ ((∃ p, c = .simple p) ∨ (∃ a b, c = .compound [⟨a, L, .fwd⟩, ⟨0, b, .fwd⟩]))

theorem RingArea.ringIn {L : Int} {c : Loc} (h : RingArea L c) : RingIn L c := by
  obtain ⟨hwf, ⟨p, rfl⟩ | ⟨a, b, rfl⟩⟩ := h
  · simp only [areaWF, Loc.parts, Bool.and_eq_true, decide_eq_true_eq] at hwf
    exact RingInStrict.ringIn (Or.inl ⟨p, rfl, by omega, by omega, by omega⟩)
  · simp only [areaWF, Loc.parts, Bool.and_eq_true, decide_eq_true_eq] at hwf
    exact RingInSpan.ringIn (Or.inr (Or.inl ⟨a, b, .fwd, rfl, by omega, by omega, by omega⟩))

theorem RingArea.inside {L : Int} {c : Loc} (h : RingArea L c) (i : Int) (hi : c.mem i = true) : 0 ≤ i ∧ i < L := by
  obtain ⟨hwf, ⟨p, rfl⟩ | ⟨a, b, rfl⟩⟩ := h
  · simp only [areaWF, Loc.parts, Bool.and_eq_true, decide_eq_true_eq] at hwf
    simp only [Loc.mem, Loc.parts, List.any_cons, List.any_nil, Bool.or_false, Part.mem_iff] at hi
    omega
  · simp only [areaWF, Loc.parts, Bool.and_eq_true, decide_eq_true_eq] at hwf
    simp only [Loc.mem, Loc.parts, List.any_cons, List.any_nil, Bool.or_false, Bool.or_eq_true, Part.mem_iff] at hi
    omega

/-- `connect_locations` on a ring: succeeds, returns a `RingArea`, covers every input -/
theorem connect_ring_area (ls : List Loc) (L : Int) (hne : ls ≠ []) (hL : 0 < L) (hin : ∀ l ∈ ls, RingIn L l) :
    ∃ c, connect ls (some L) = .ok c ∧ RingArea L c ∧ ∀ l ∈ ls, ∀ i, l.mem i = true → c.mem i = true := by
  have hok := toR_ok L hL ls hin
  have hne' : ls.map toR ≠ [] := by simpa using hne
  refine ⟨_, connect_ring_closed ls L hne hL hin, ⟨connR_wf _ L hL hne' hok, connR_shape _ L hL hne' hok⟩, ?_⟩
  intro l hl i hi
  exact connR_covers _ L hL hok (toR l) (List.mem_map.2 ⟨l, hl, rfl⟩) i ((toR_spec L hL l (hin l hl)).2.2.2 i hi)

/-- sharing a base makes `locations_overlap` true (no side condition) -/
theorem overlap_of_shared (a b : Loc) (i : Int) (ha : a.mem i = true) (hb : b.mem i = true) :
    locationsOverlap a b = true := by
  simp only [Loc.mem, List.any_eq_true, Part.mem_iff] at ha hb
  obtain ⟨p, hp, hp1, hp2⟩ := ha
  obtain ⟨q, hq, hq1, hq2⟩ := hb
  simp only [locationsOverlap, List.any_eq_true]
  refine ⟨p, hp, q, hq, ?_⟩
  simp only [partsOverlap, Part.mem, Bool.or_eq_true, Bool.and_eq_true, decide_eq_true_eq]
  omega

/-- the cutoff-widened core of `merge_over_origin`: exactly the bases within ring distance `d` -/
theorem extend_ring_area (c : Loc) (L d : Int) (hL : 0 < L) (h : RingArea L c) (hd : 0 ≤ d) (hdL : d ≤ L) :
    ∃ e, extendLocation c d L true = .ok e ∧
      ∀ i, e.mem i = true ↔ (0 ≤ i ∧ i < L ∧ ∃ j, c.mem j = true ∧ ringAbs L i j ≤ d) := by
  obtain ⟨hwf, ⟨p, rfl⟩ | ⟨a, b, rfl⟩⟩ := h
  · simp only [areaWF, Loc.parts, Bool.and_eq_true, decide_eq_true_eq] at hwf
    refine ⟨_, extend_simple_ring_eq p d L (by omega) (by omega) (by omega) hd hdL, ?_⟩
    intro i
    rw [extSimpleRing_mem p d L (by omega) (by omega) (by omega) hd i]
    simp [Loc.mem, Loc.parts]
  · simp only [areaWF, Loc.parts, Bool.and_eq_true, decide_eq_true_eq] at hwf
    refine ⟨_, extend_area_ring_eq a b d L hL (by omega) (by omega) (by omega) hd, ?_⟩
    intro i
    exact extAreaRing_mem a b d L hL (by omega) (by omega) (by omega) hd i

/-! ### `Protocluster(...)`, `merge_pair` -/

theorem mkPC_ok {rule : String} {core s : Loc} {pc : PC} (h : mkPC rule core s = .ok pc) : pc = ⟨rule, core, s⟩ := by
  unfold mkPC at h
  simp only [bind, Except.bind, pure, Except.pure, throw, throwThe, MonadExceptOf.throw] at h
  repeat' split at h
  all_goals first | (injection h with h; exact h.symm) | cases h

def Covers (outer inner : Loc) : Prop := ∀ i, inner.mem i = true → outer.mem i = true

theorem Covers.refl (a : Loc) : Covers a a := fun _ h => h
theorem Covers.trans {a b c : Loc} (h1 : Covers a b) (h2 : Covers b c) : Covers a c := fun i h => h1 i (h2 i h)

theorem mergePair_ok (r : Rec) (hcirc : r.circular = true) (hL : 0 < r.len) (rules : List RuleM) (first second pc : PC)
    (h1 : RingArea r.len first.core) (h2 : RingArea r.len second.core)
    (h : mergePair r rules first second = .ok pc) :
    pc.rule = first.rule ∧ RingArea r.len pc.core ∧ Covers pc.core first.core ∧ Covers pc.core second.core := by
  have hw : r.wrap = some r.len := by simp [Rec.wrap, hcirc]
  simp only [mergePair, bind, Except.bind, hw] at h
  cases hr : findRule rules first.rule with
  | error e => simp [hr] at h
  | ok rule =>
    simp only [hr] at h
    obtain ⟨c, hc, harea, hcov⟩ := connect_ring_area [first.core, second.core] r.len (by simp) hL
      (by intro l hl; simp at hl; rcases hl with rfl | rfl; exact h1.ringIn; exact h2.ringIn)
    simp only [hc] at h
    cases he : extendArea r c rule.nbhd true with
    | error e => simp [he] at h
    | ok s =>
      simp only [he] at h
      have := mkPC_ok h
      subst this
      exact ⟨rfl, harea, hcov _ (by simp), hcov _ (by simp)⟩

/-- an entry of the merge loop: a protocluster of the rule with an area core, paired with that core
    widened by the cutoff -/
def EntryOK (r : Rec) (c : Int) (prod : String) (x : PC × Loc) : Prop :=
  RingArea r.len x.1.core ∧ x.1.rule = prod ∧ extendLocation x.1.core c r.len r.circular = .ok x.2

theorem mem_eraseIdx_or {α : Type} (l : List α) (j : Nat) (x : α) (hx : x ∈ l) : x ∈ l.eraseIdx j ∨ l[j]? = some x := by
  obtain ⟨i, hi, rfl⟩ := List.getElem_of_mem hx
  by_cases hij : i = j
  · subst hij; right; simp [hi]
  · left; exact List.mem_eraseIdx_iff_getElem.2 ⟨i, hi, hij, rfl⟩

theorem mergeStep_some (r : Rec) (hcirc : r.circular = true) (hL : 0 < r.len) (rules : List RuleM) (c : Int) (prod : String) :
    ∀ (group g' : List (PC × Loc)), mergeStep r rules c group = .ok (some g') → (∀ x ∈ group, EntryOK r c prod x) →
      (∀ x ∈ g', EntryOK r c prod x) ∧ g'.length + 1 = group.length ∧
      ∀ x ∈ group, ∃ y ∈ g', Covers y.1.core x.1.core := by
  intro group
  induction group with
  | nil => intro g' h; simp [mergeStep, pure, Except.pure] at h
  | cons fe rest ih =>
    obtain ⟨first, ext⟩ := fe
    intro g' h hok
    simp only [mergeStep] at h
    cases hf : rest.findIdx? (fun x => locationsOverlap x.1.core ext) with
    | some j =>
      simp only [hf] at h
      cases hj : rest[j]? with
      | none => simp [hj, pure, Except.pure] at h
      | some other =>
        have hjlt : j < rest.length := by
          cases Nat.lt_or_ge j rest.length with
          | inl h' => exact h'
          | inr h' => rw [List.getElem?_eq_none h'] at hj; cases hj
        have hother : other ∈ rest := List.mem_of_getElem? hj
        simp only [hj, bind, Except.bind] at h
        cases hm : mergePair r rules first other.1 with
        | error e => simp [hm] at h
        | ok merged =>
          simp only [hm] at h
          cases he : extendLocation merged.core c r.len r.circular with
          | error e => simp [he] at h
          | ok e =>
            simp only [he, pure, Except.pure, Except.ok.injEq, Option.some.injEq] at h
            subst h
            have hfirst := hok (first, ext) (by simp)
            have hoth := hok other (by simp [hother])
            obtain ⟨mr, marea, mc1, mc2⟩ := mergePair_ok r hcirc hL rules first other.1 merged hfirst.1 hoth.1 hm
            refine ⟨?_, ?_, ?_⟩
            · intro x hx
              simp only [List.mem_cons] at hx
              rcases hx with rfl | hx
              · exact ⟨marea, by rw [mr]; exact hfirst.2.1, he⟩
              · exact hok x (by simp [List.mem_of_mem_eraseIdx hx])
            · simp only [List.length_cons, List.length_eraseIdx, hjlt, if_true]; omega
            · intro x hx
              simp only [List.mem_cons] at hx
              rcases hx with rfl | hx
              · exact ⟨(merged, e), by simp, mc1⟩
              · rcases mem_eraseIdx_or rest j x hx with hx' | hx'
                · exact ⟨x, by simp [hx'], Covers.refl _⟩
                · rw [hj] at hx'; cases hx'
                  exact ⟨(merged, e), by simp, mc2⟩
    | none =>
      simp only [hf, bind, Except.bind] at h
      cases hrec : mergeStep r rules c rest with
      | error e => simp [hrec] at h
      | ok o =>
        cases o with
        | none => simp [hrec, pure, Except.pure] at h
        | some rest' =>
          simp only [hrec, pure, Except.pure, Except.ok.injEq, Option.some.injEq] at h
          subst h
          obtain ⟨a1, a2, a3⟩ := ih rest' hrec (fun x hx => hok x (by simp [hx]))
          refine ⟨?_, by simp only [List.length_cons]; omega, ?_⟩
          · intro x hx
            simp only [List.mem_cons] at hx
            rcases hx with rfl | hx
            · exact hok _ (by simp)
            · exact a1 x hx
          · intro x hx
            simp only [List.mem_cons] at hx
            rcases hx with rfl | hx
            · exact ⟨_, by simp, Covers.refl _⟩
            · obtain ⟨y, hy, hc⟩ := a3 x hx
              exact ⟨y, by simp [hy], hc⟩

/-- when a round of the loop merges nothing, no later core shares a base with an earlier widened core -/
theorem mergeStep_none (r : Rec) (rules : List RuleM) (c : Int) :
    ∀ (group : List (PC × Loc)), mergeStep r rules c group = .ok none →
      group.Pairwise (fun a b => locationsOverlap b.1.core a.2 = false) := by
  intro group
  induction group with
  | nil => intro _; exact List.Pairwise.nil
  | cons fe rest ih =>
    obtain ⟨first, ext⟩ := fe
    intro h
    simp only [mergeStep] at h
    cases hf : rest.findIdx? (fun x => locationsOverlap x.1.core ext) with
    | some j =>
      simp only [hf] at h
      cases hj : rest[j]? with
      | none =>
        have := (List.findIdx?_eq_some_iff_getElem.1 hf).1
        rw [List.getElem?_eq_getElem this] at hj; cases hj
      | some other =>
        simp only [hj, bind, Except.bind] at h
        cases hm : mergePair r rules first other.1 with
        | error e => simp [hm] at h
        | ok merged =>
          simp only [hm] at h
          cases he : extendLocation merged.core c r.len r.circular with
          | error e => simp [he] at h
          | ok e => simp [he, pure, Except.pure] at h
    | none =>
      simp only [hf, bind, Except.bind] at h
      cases hrec : mergeStep r rules c rest with
      | error e => simp [hrec] at h
      | ok o =>
        cases o with
        | some rest' => simp [hrec, pure, Except.pure] at h
        | none =>
          rw [List.pairwise_cons]
          exact ⟨fun b hb => List.findIdx?_eq_none_iff.1 hf b hb, ih hrec⟩

theorem mergeFix_spec (r : Rec) (hcirc : r.circular = true) (hL : 0 < r.len) (rules : List RuleM) (c : Int) (prod : String) :
    ∀ (fuel : Nat) (group out : List (PC × Loc)), group.length ≤ fuel + 1 → group ≠ [] →
      mergeFix r rules c fuel group = .ok out → (∀ x ∈ group, EntryOK r c prod x) →
      (∀ x ∈ out, EntryOK r c prod x) ∧ out.Pairwise (fun a b => locationsOverlap b.1.core a.2 = false) ∧
      ∀ x ∈ group, ∃ y ∈ out, Covers y.1.core x.1.core := by
  intro fuel
  induction fuel with
  | zero =>
    intro group out hlen hne h hok
    simp only [mergeFix, pure, Except.pure, Except.ok.injEq] at h
    subst h
    refine ⟨hok, ?_, fun x hx => ⟨x, hx, Covers.refl _⟩⟩
    cases group with
    | nil => exact List.Pairwise.nil
    | cons x t =>
      cases t with
      | nil => exact List.pairwise_singleton _ _
      | cons y t' => simp at hlen
  | succ n ih =>
    intro group out hlen hne h hok
    simp only [mergeFix, bind, Except.bind] at h
    cases hs : mergeStep r rules c group with
    | error e => simp [hs] at h
    | ok o =>
      cases o with
      | none =>
        simp only [hs, pure, Except.pure, Except.ok.injEq] at h
        subst h
        exact ⟨hok, mergeStep_none r rules c group hs, fun x hx => ⟨x, hx, Covers.refl _⟩⟩
      | some g =>
        simp only [hs] at h
        obtain ⟨a1, a2, a3⟩ := mergeStep_some r hcirc hL rules c prod group g hs hok
        have hgne : g ≠ [] := by
          intro e; subst e
          obtain ⟨x, hx⟩ := List.exists_mem_of_ne_nil group hne
          obtain ⟨y, hy, _⟩ := a3 x hx
          cases hy
        obtain ⟨b1, b2, b3⟩ := ih g out (by omega) hgne h a1
        refine ⟨b1, b2, ?_⟩
        intro x hx
        obtain ⟨y, hy, hc⟩ := a3 x hx
        obtain ⟨z, hz, hc2⟩ := b3 y hy
        exact ⟨z, hz, hc2.trans hc⟩

/-! ### from "no shared base with the widened core" to "further apart than the cutoff" -/

/-- every base of `q` is more than `c` positions (the shorter way round) from every base of `p`:
    at least `c` bases lie strictly between the two spans -/
def FarApart (L c : Int) (p q : Loc) : Prop := ∀ x y, p.mem x = true → q.mem y = true → c < ringAbs L y x

theorem farApart_of_noOverlap (r : Rec) (hL : 0 < r.len) (c : Int) (hc : 0 ≤ c) (hcL : c ≤ r.len) (prod : String)
    (a b : PC × Loc) (ha : EntryOK r c prod a) (hb : EntryOK r c prod b) (hcirc : r.circular = true)
    (hno : locationsOverlap b.1.core a.2 = false) : FarApart r.len c a.1.core b.1.core := by
  intro x y hx hy
  obtain ⟨e, he, hmem⟩ := extend_ring_area a.1.core r.len c hL ha.1 hc hcL
  have hae := ha.2.2
  rw [hcirc, he] at hae
  cases hae
  by_cases hle : ringAbs r.len y x ≤ c
  · exfalso
    have hyin := hb.1.inside y hy
    have : a.2.mem y = true := (hmem y).2 ⟨hyin.1, hyin.2, x, hx, hle⟩
    have := overlap_of_shared b.1.core a.2 y hy this
    rw [hno] at this; cases this
  · omega

/-! ### `sorted(key=start)` and the products -/

theorem insertByStart_perm (x : PC × Loc) : ∀ l, (insertByStart x l).Perm (x :: l) := by
  intro l
  induction l with
  | nil => exact List.Perm.refl _
  | cons y ys ih =>
    simp only [insertByStart]
    split
    · exact (List.Perm.cons y ih).trans (List.Perm.swap x y ys)
    · exact List.Perm.refl _

theorem sortByStart_perm : ∀ l, (sortByStart l).Perm l := by
  intro l
  induction l with
  | nil => exact List.Perm.refl _
  | cons x xs ih =>
    show (insertByStart x (sortByStart xs)).Perm (x :: xs)
    exact (insertByStart_perm x _).trans (List.Perm.cons x ih)

theorem eraseDups_nodup : ∀ (n : Nat) (l : List String), l.length ≤ n → l.eraseDups.Nodup := by
  intro n
  induction n with
  | zero =>
    intro l h
    have : l = [] := List.eq_nil_of_length_eq_zero (by omega)
    subst this; simp [List.eraseDups, List.eraseDupsBy, List.eraseDupsBy.loop]
  | succ n ih =>
    intro l h
    cases l with
    | nil => simp [List.eraseDups, List.eraseDupsBy, List.eraseDupsBy.loop]
    | cons a as =>
      rw [List.eraseDups_cons, List.nodup_cons]
      refine ⟨?_, ih _ (Nat.le_trans (List.length_filter_le _ _) (by simpa using h))⟩
      intro hmem
      rw [List.mem_eraseDups, List.mem_filter] at hmem
      simp at hmem

theorem mapM_pairwise {α β : Type} (f : α → E β) {R : α → α → Prop} {S : β → β → Prop}
    (hRS : ∀ a b ya yb, f a = .ok ya → f b = .ok yb → R a b → S ya yb) :
    ∀ (l : List α) (out : List β), l.mapM f = .ok out → l.Pairwise R → out.Pairwise S := by
  intro l
  induction l with
  | nil => intro out h _; simp [List.mapM_nil, pure, Except.pure] at h; subst h; exact List.Pairwise.nil
  | cons a l ih =>
    intro out h hp
    simp only [List.mapM_cons, bind, Except.bind, pure, Except.pure] at h
    cases hfa : f a with
    | error e => simp [hfa] at h
    | ok b =>
      simp only [hfa] at h
      cases hrest : l.mapM f with
      | error e => simp [hrest] at h
      | ok bs =>
        simp only [hrest, Except.ok.injEq] at h
        subst h
        rw [List.pairwise_cons] at hp ⊢
        refine ⟨?_, ih bs hrest hp.2⟩
        intro y hy
        obtain ⟨a', ha', hfa'⟩ := mapM_ok_mem f l bs hrest y hy
        exact hRS a a' b y hfa hfa' (hp.1 a' ha')

theorem pairwise_of_length_lt_two {α : Type} (R : α → α → Prop) (l : List α) (h : l.length < 2) : l.Pairwise R := by
  cases l with
  | nil => exact List.Pairwise.nil
  | cons x t =>
    cases t with
    | nil => exact List.pairwise_singleton _ _
    | cons y t' => simp only [List.length_cons] at h; omega

/-- **`merge_over_origin` on any circular record**: it returns area cores; two protoclusters of the same
    rule in its result are further apart than the rule's cutoff, all the way round the ring; and every
    input core is covered by a result core of its rule -/
theorem mergeOverOrigin_ring (r : Rec) (hcirc : r.circular = true) (hL : 0 < r.len) (rules : List RuleM)
    (hrules : ∀ name rule, findRule rules name = .ok rule → 0 ≤ rule.cutoff ∧ rule.cutoff ≤ r.len)
    (clusters merged : List PC) (harea : ∀ pc ∈ clusters, RingArea r.len pc.core)
    (h : mergeOverOrigin r rules clusters = .ok merged) :
    (∀ q ∈ merged, RingArea r.len q.core ∧ ∃ pc ∈ clusters, q.rule = pc.rule) ∧
    merged.Pairwise (fun p q => p.rule = q.rule → ∀ rule, findRule rules p.rule = .ok rule →
      FarApart r.len rule.cutoff p.core q.core) ∧
    (∀ pc ∈ clusters, ∃ q ∈ merged, q.rule = pc.rule ∧ Covers q.core pc.core) := by
  simp only [mergeOverOrigin, bind, Except.bind] at h
  cases hw : clusters.mapM (fun pc => do
      let rule ← findRule rules pc.rule
      let e ← extendLocation pc.core rule.cutoff r.len r.circular
      pure (pc, e)) with
  | error e => simp only [bind, Except.bind] at hw; simp [hw] at h
  | ok withExt =>
    simp only [bind, Except.bind] at hw
    simp only [hw] at h
    -- what the entries are
    have W1 : ∀ x ∈ withExt, x.1 ∈ clusters ∧ ∃ rule, findRule rules x.1.rule = .ok rule ∧
        extendLocation x.1.core rule.cutoff r.len r.circular = .ok x.2 := by
      intro x hx
      obtain ⟨pc, hpc, hf⟩ := mapM_ok_mem _ clusters withExt hw x hx
      cases hr : findRule rules pc.rule with
      | error e => simp [hr] at hf
      | ok rule =>
        simp only [hr] at hf
        cases he : extendLocation pc.core rule.cutoff r.len r.circular with
        | error e => simp [he] at hf
        | ok e =>
          simp only [he, pure, Except.pure, Except.ok.injEq] at hf
          subst hf
          exact ⟨hpc, rule, hr, he⟩
    have W2 : ∀ pc ∈ clusters, ∃ x ∈ withExt, x.1 = pc := by
      intro pc hpc
      obtain ⟨y, hy, hf⟩ := mapM_ok_mem' _ clusters withExt hw pc hpc
      cases hr : findRule rules pc.rule with
      | error e => simp [hr] at hf
      | ok rule =>
        simp only [hr] at hf
        cases he : extendLocation pc.core rule.cutoff r.len r.circular with
        | error e => simp [he] at hf
        | ok e =>
          simp only [he, pure, Except.pure, Except.ok.injEq] at hf
          exact ⟨y, hy, by rw [← hf]⟩
    -- the per-product loop
    let f2 : String → E (List (PC × Loc)) := fun prod =>
      if (withExt.filter (·.1.rule == prod)).length < 2 then pure (withExt.filter (·.1.rule == prod))
      else do
        let rule ← findRule rules prod
        mergeFix r rules rule.cutoff (withExt.filter (·.1.rule == prod)).length (sortByStart (withExt.filter (·.1.rule == prod)))
    split at h
    · cases h
    · next groups heq =>
      have hg : ((clusters.map (·.rule)).eraseDups).mapM f2 = .ok groups := heq
      simp only [pure, Except.pure, Except.ok.injEq] at h
      subst h
      -- one product
      have G : ∀ prod g, f2 prod = .ok g →
          (∀ x ∈ g, RingArea r.len x.1.core ∧ x.1.rule = prod) ∧
          g.Pairwise (fun a b => ∀ rule, findRule rules prod = .ok rule → FarApart r.len rule.cutoff a.1.core b.1.core) ∧
          (∀ x ∈ withExt, x.1.rule = prod → ∃ y ∈ g, Covers y.1.core x.1.core) := by
        intro prod g hfg
        have hgroup : ∀ x ∈ withExt.filter (·.1.rule == prod), x ∈ withExt ∧ x.1.rule = prod := by
          intro x hx
          simp only [List.mem_filter, beq_iff_eq] at hx
          exact hx
        simp only [f2] at hfg
        split at hfg
        · next hlt =>
          simp only [pure, Except.pure, Except.ok.injEq] at hfg
          subst hfg
          refine ⟨?_, pairwise_of_length_lt_two _ _ hlt, ?_⟩
          · intro x hx
            exact ⟨harea _ (W1 x (hgroup x hx).1).1, (hgroup x hx).2⟩
          · intro x hx hxr
            exact ⟨x, by simp [List.mem_filter, hx, hxr], Covers.refl _⟩
        · next hge =>
          simp only [bind, Except.bind] at hfg
          cases hr : findRule rules prod with
          | error e => simp [hr] at hfg
          | ok rule =>
            simp only [hr] at hfg
            have hentry : ∀ x ∈ sortByStart (withExt.filter (·.1.rule == prod)), EntryOK r rule.cutoff prod x := by
              intro x hx
              have hx' := (sortByStart_perm _).mem_iff.1 hx
              obtain ⟨hxw, hxr⟩ := hgroup x hx'
              obtain ⟨hxc, rule', hr', he'⟩ := W1 x hxw
              rw [hxr, hr] at hr'
              cases hr'
              exact ⟨harea _ hxc, hxr, he'⟩
            have hlen : (sortByStart (withExt.filter (·.1.rule == prod))).length = (withExt.filter (·.1.rule == prod)).length :=
              (sortByStart_perm _).length_eq
            have hne : sortByStart (withExt.filter (·.1.rule == prod)) ≠ [] := by
              intro e; rw [e] at hlen; simp at hlen; omega
            obtain ⟨b1, b2, b3⟩ := mergeFix_spec r hcirc hL rules rule.cutoff prod _ _ g (by omega) hne hfg hentry
            have hcut := hrules prod rule hr
            refine ⟨fun x hx => ⟨(b1 x hx).1, (b1 x hx).2.1⟩, ?_, ?_⟩
            · refine List.Pairwise.imp_of_mem ?_ b2
              intro a b ha hb hno rule' hr'
              cases hr'
              exact farApart_of_noOverlap r hL rule.cutoff hcut.1 hcut.2 prod a b (b1 a ha) (b1 b hb) hcirc hno
            · intro x hx hxr
              have : x ∈ sortByStart (withExt.filter (·.1.rule == prod)) :=
                (sortByStart_perm _).mem_iff.2 (by simp [List.mem_filter, hx, hxr])
              exact b3 x this
      have hnodup : ((clusters.map (·.rule)).eraseDups).Pairwise (· ≠ ·) :=
        List.nodup_iff_pairwise_ne.1 (eraseDups_nodup _ _ (Nat.le_refl _))
      refine ⟨?_, ?_, ?_⟩
      · intro q hq
        obtain ⟨x, hx, rfl⟩ := List.mem_map.1 hq
        obtain ⟨g, hgm, hxg⟩ := List.mem_flatten.1 hx
        obtain ⟨prod, hprod, hf⟩ := mapM_ok_mem f2 _ groups hg g hgm
        refine ⟨((G prod g hf).1 x hxg).1, ?_⟩
        rw [List.mem_eraseDups] at hprod
        obtain ⟨pc, hpc, e⟩ := List.mem_map.1 hprod
        exact ⟨pc, hpc, by rw [((G prod g hf).1 x hxg).2, e]⟩
      · rw [List.pairwise_map, List.pairwise_flatten]
        constructor
        · intro g hgm
          obtain ⟨prod, _, hf⟩ := mapM_ok_mem f2 _ groups hg g hgm
          obtain ⟨g1, g2, _⟩ := G prod g hf
          refine List.Pairwise.imp_of_mem ?_ g2
          intro a b ha _ hab _ rule hr
          rw [(g1 a ha).2] at hr
          exact hab rule hr
        · refine mapM_pairwise f2 ?_ _ groups hg hnodup
          intro p1 p2 g1 g2 hf1 hf2 hne x hx y hy hxy
          exact absurd (((G p1 g1 hf1).1 x hx).2.symm.trans (hxy.trans ((G p2 g2 hf2).1 y hy).2)) hne
      · intro pc hpc
        obtain ⟨x, hx, rfl⟩ := W2 pc hpc
        have hprod : x.1.rule ∈ (clusters.map (·.rule)).eraseDups := by
          rw [List.mem_eraseDups]; exact List.mem_map.2 ⟨x.1, hpc, rfl⟩
        obtain ⟨g, hgm, hf⟩ := mapM_ok_mem' f2 _ groups hg _ hprod
        obtain ⟨g1, _, g3⟩ := G x.1.rule g hf
        obtain ⟨y, hy, hc⟩ := g3 x hx rfl
        exact ⟨y.1, List.mem_map.2 ⟨y, List.mem_flatten.2 ⟨g, hgm, hy⟩, rfl⟩, (g1 y hy).2, hc⟩

/-! ### the sweep on any circular record: every anchoring gene ends up inside an area core -/

theorem insertFeat_perm_of_ok (x : Loc) : ∀ (ys zs : List Loc), insertFeat x ys = .ok zs → zs.Perm (x :: ys) := by
  intro ys
  induction ys with
  | nil => intro zs h; simp only [insertFeat, pure, Except.pure, Except.ok.injEq] at h; subst h; exact List.Perm.refl _
  | cons y ys ih =>
    intro zs h
    simp only [insertFeat, bind, Except.bind] at h
    cases hlt : featureLt y x with
    | error e => simp [hlt] at h
    | ok b =>
      simp only [hlt] at h
      cases b with
      | true =>
        simp only [if_true] at h
        cases hrec : insertFeat x ys with
        | error e => simp [hrec] at h
        | ok more =>
          simp only [hrec, pure, Except.pure, Except.ok.injEq] at h
          subst h
          exact (List.Perm.cons y (ih more hrec)).trans (List.Perm.swap x y ys)
      | false =>
        simp only [Bool.false_eq_true, if_false, pure, Except.pure, Except.ok.injEq] at h
        subst h; exact List.Perm.refl _

theorem sortFeats_perm_of_ok : ∀ (ls s : List Loc), sortFeats ls = .ok s → s.Perm ls := by
  intro ls
  induction ls with
  | nil => intro s h; simp only [sortFeats, pure, Except.pure, Except.ok.injEq] at h; subst h; exact List.Perm.refl _
  | cons x xs ih =>
    intro s h
    simp only [sortFeats, bind, Except.bind] at h
    cases hrec : sortFeats xs with
    | error e => simp [hrec] at h
    | ok s' =>
      simp only [hrec] at h
      exact (insertFeat_perm_of_ok x s' s h).trans (List.Perm.cons x (ih s' hrec))

theorem sweepCores_ring_cover (r : Rec) (hcirc : r.circular = true) (hL : 0 < r.len) (c : Int) :
    ∀ (rest acc out : List Loc), sweepCores r c acc rest = .ok out →
      (∀ k ∈ acc, RingArea r.len k) → (∀ y ∈ rest, RingIn r.len y) →
      (∀ k ∈ out, RingArea r.len k) ∧ (∀ k ∈ acc, ∃ k' ∈ out, Covers k' k) ∧ (∀ y ∈ rest, ∃ k' ∈ out, Covers k' y) := by
  have hw : r.wrap = some r.len := by simp [Rec.wrap, hcirc]
  intro rest
  induction rest with
  | nil =>
    intro acc out h hacc _
    cases acc with
    | nil => simp only [sweepCores, pure, Except.pure, Except.ok.injEq] at h; subst h; simp
    | cons a t =>
      simp only [sweepCores, pure, Except.pure, Except.ok.injEq] at h; subst h
      exact ⟨hacc, fun k hk => ⟨k, hk, Covers.refl _⟩, by simp⟩
  | cons cds rest ih =>
    intro acc out h hacc hrest
    have hcds := hrest cds (by simp)
    obtain ⟨c1, hc1, a1, cov1⟩ := connect_ring_area [cds] r.len (by simp) hL (by intro l hl; simp at hl; subst hl; exact hcds)
    cases acc with
    | nil =>
      simp only [sweepCores, hw, hc1, bind, Except.bind] at h
      obtain ⟨o1, o2, o3⟩ := ih [c1] out h (by intro k hk; simp at hk; subst hk; exact a1) (fun y hy => hrest y (by simp [hy]))
      refine ⟨o1, by simp, ?_⟩
      intro y hy
      simp only [List.mem_cons] at hy
      rcases hy with rfl | hy
      · obtain ⟨k', hk', hc⟩ := o2 c1 (by simp)
        exact ⟨k', hk', hc.trans (cov1 _ (by simp))⟩
      · exact o3 y hy
    | cons previous older =>
      have hprev := hacc previous (by simp)
      simp only [sweepCores, bind, Except.bind] at h
      cases hd : extendArea r previous c false with
      | error e => simp [hd] at h
      | ok dummy =>
        simp only [hd] at h
        split at h
        · cases h
        · split at h
          · -- joined to the previous core
            obtain ⟨m, hm, am, covm⟩ := connect_ring_area [previous, cds] r.len (by simp) hL
              (by intro l hl; simp at hl; rcases hl with rfl | rfl; exact hprev.ringIn; exact hcds)
            simp only [hw, hm] at h
            obtain ⟨o1, o2, o3⟩ := ih (m :: older) out h
              (by intro k hk; simp only [List.mem_cons] at hk; rcases hk with rfl | hk
                  · exact am
                  · exact hacc k (by simp [hk]))
              (fun y hy => hrest y (by simp [hy]))
            refine ⟨o1, ?_, ?_⟩
            · intro k hk
              simp only [List.mem_cons] at hk
              rcases hk with rfl | hk
              · obtain ⟨k', hk', hc⟩ := o2 m (by simp)
                exact ⟨k', hk', hc.trans (covm _ (by simp))⟩
              · exact o2 k (by simp [hk])
            · intro y hy
              simp only [List.mem_cons] at hy
              rcases hy with rfl | hy
              · obtain ⟨k', hk', hc⟩ := o2 m (by simp)
                exact ⟨k', hk', hc.trans (covm _ (by simp))⟩
              · exact o3 y hy
          · -- a new core
            simp only [hw, hc1] at h
            obtain ⟨o1, o2, o3⟩ := ih (c1 :: previous :: older) out h
              (by intro k hk; simp only [List.mem_cons] at hk; rcases hk with rfl | hk
                  · exact a1
                  · exact hacc k (by simpa using hk))
              (fun y hy => hrest y (by simp [hy]))
            refine ⟨o1, fun k hk => o2 k (by simp only [List.mem_cons] at hk ⊢; exact Or.inr hk), ?_⟩
            intro y hy
            simp only [List.mem_cons] at hy
            rcases hy with rfl | hy
            · obtain ⟨k', hk', hc⟩ := o2 c1 (by simp)
              exact ⟨k', hk', hc.trans (cov1 _ (by simp))⟩
            · exact o3 y hy

theorem mem_dropLast_or_last {α : Type} (l : List α) (last : α) (h : l.getLast? = some last) (x : α) (hx : x ∈ l) :
    x ∈ l.dropLast ∨ x = last := by
  have hne : l ≠ [] := by intro e; subst e; simp at h
  have := List.dropLast_concat_getLast hne
  rw [← this] at hx
  simp only [List.mem_append, List.mem_singleton] at hx
  rcases hx with hx | hx
  · exact Or.inl hx
  · right
    rw [List.getLast?_eq_getLast hne] at h
    cases h; exact hx

theorem fixFirstLast_ring_cover (r : Rec) (hcirc : r.circular = true) (hL : 0 < r.len) (c : Int) (cores out : List Loc)
    (h : fixFirstLast r c cores = .ok out) (hc : ∀ k ∈ cores, RingArea r.len k) :
    (∀ k ∈ out, RingArea r.len k) ∧ ∀ k ∈ cores, ∃ k' ∈ out, Covers k' k := by
  have hw : r.wrap = some r.len := by simp [Rec.wrap, hcirc]
  cases cores with
  | nil => simp [fixFirstLast] at h
  | cons first rest =>
    simp only [fixFirstLast] at h
    cases hl : rest.getLast? with
    | none =>
      simp only [hl, pure, Except.pure, Except.ok.injEq] at h; subst h
      exact ⟨hc, fun k hk => ⟨k, hk, Covers.refl _⟩⟩
    | some last =>
      simp only [hl] at h
      split at h
      · have hlast : last ∈ rest := List.mem_of_getLast? hl
        obtain ⟨m, hm, am, covm⟩ := connect_ring_area [last, first] r.len (by simp) hL
          (by intro l hl'; simp at hl'; rcases hl' with rfl | rfl
              · exact (hc _ (by simp [hlast])).ringIn
              · exact (hc _ (by simp)).ringIn)
        simp only [hw, hm, bind, Except.bind, pure, Except.pure, Except.ok.injEq] at h
        subst h
        refine ⟨?_, ?_⟩
        · intro k hk
          simp only [List.mem_cons] at hk
          rcases hk with rfl | hk
          · exact am
          · exact hc k (by simp [List.dropLast_subset rest hk])
        · intro k hk
          simp only [List.mem_cons] at hk
          rcases hk with rfl | hk
          · exact ⟨m, by simp, covm _ (by simp)⟩
          · rcases mem_dropLast_or_last rest last hl k hk with hk' | rfl
            · exact ⟨k, by simp [hk'], Covers.refl _⟩
            · exact ⟨m, by simp, covm _ (by simp)⟩
      · simp only [pure, Except.pure, Except.ok.injEq] at h; subst h
        exact ⟨hc, fun k hk => ⟨k, hk, Covers.refl _⟩⟩

/-- on any circular record: whenever `find_protoclusters`' core computation returns, its cores are
    areas and every anchoring gene lies inside one of them -/
theorem findCores_ring_cover (r : Rec) (hcirc : r.circular = true) (hL : 0 < r.len) (c : Int) (anchors cores : List Loc)
    (hin : ∀ a ∈ anchors, RingIn r.len a) (h : findCores r c anchors = .ok cores) :
    (∀ k ∈ cores, RingArea r.len k) ∧ ∀ a ∈ anchors, ∃ k ∈ cores, Covers k a := by
  have hw : r.wrap = some r.len := by simp [Rec.wrap, hcirc]
  simp only [findCores, bind, Except.bind] at h
  cases hs : sortFeats anchors with
  | error e => simp [hs] at h
  | ok sorted =>
    simp only [hs] at h
    have hp1 := sortFeats_perm_of_ok anchors sorted hs
    cases hs2 : sortFeats (sorted.filter fun l => !bridgesOrigin l) with
    | error e => simp [hs2] at h
    | ok rest =>
      simp only [hs2] at h
      have hp2 := sortFeats_perm_of_ok _ rest hs2
      cases hcr : (sorted.filter bridgesOrigin).mapM fun c => connect [c] r.wrap with
      | error e => simp [hcr] at h
      | ok crossCores =>
        simp only [hcr] at h
        cases hsw : sweepCores r c crossCores.reverse rest with
        | error e => simp [hsw] at h
        | ok coresRev =>
          simp only [hsw] at h
          have hsorted_in : ∀ l ∈ sorted, RingIn r.len l := fun l hl => hin l (hp1.mem_iff.1 hl)
          -- the cores of the origin-spanning anchors
          have hcross : (∀ k ∈ crossCores, RingArea r.len k) ∧
              ∀ x ∈ sorted.filter bridgesOrigin, ∃ k ∈ crossCores, Covers k x := by
            constructor
            · intro k hk
              obtain ⟨x, hx, hf⟩ := mapM_ok_mem _ _ crossCores hcr k hk
              obtain ⟨c1, hc1, a1, _⟩ := connect_ring_area [x] r.len (by simp) hL
                (by intro l hl; simp at hl; subst hl; exact hsorted_in _ (List.mem_filter.1 hx).1)
              rw [hw, hc1] at hf; cases hf; exact a1
            · intro x hx
              obtain ⟨k, hk, hf⟩ := mapM_ok_mem' _ _ crossCores hcr x hx
              obtain ⟨c1, hc1, _, cov1⟩ := connect_ring_area [x] r.len (by simp) hL
                (by intro l hl; simp at hl; subst hl; exact hsorted_in _ (List.mem_filter.1 hx).1)
              rw [hw, hc1] at hf; cases hf
              exact ⟨_, hk, cov1 _ (by simp)⟩
          have hrest_in : ∀ y ∈ rest, RingIn r.len y := fun y hy =>
            hsorted_in y (List.mem_filter.1 (hp2.mem_iff.1 hy)).1
          obtain ⟨s1, s2, s3⟩ := sweepCores_ring_cover r hcirc hL c rest crossCores.reverse coresRev hsw
            (fun k hk => hcross.1 k (by simpa using hk)) hrest_in
          obtain ⟨f1, f2⟩ := fixFirstLast_ring_cover r hcirc hL c coresRev.reverse cores h
            (fun k hk => s1 k (by simpa using hk))
          refine ⟨f1, ?_⟩
          intro a ha
          have hsa : a ∈ sorted := hp1.mem_iff.2 ha
          -- in a core after the sweep, hence after the fix-up
          have hswept : ∃ k ∈ coresRev, Covers k a := by
            by_cases hb : bridgesOrigin a = true
            · obtain ⟨k, hk, hc⟩ := hcross.2 a (by simp [List.mem_filter, hsa, hb])
              obtain ⟨k', hk', hc'⟩ := s2 k (by simpa using hk)
              exact ⟨k', hk', hc'.trans hc⟩
            · exact s3 a (hp2.mem_iff.2 (by simp [List.mem_filter, hsa, hb]))
          obtain ⟨k, hk, hc⟩ := hswept
          obtain ⟨k', hk', hc'⟩ := f2 k (by simpa using hk)
          exact ⟨k', hk', hc'.trans hc⟩

/-! ### through the later stages: cores stay areas -/

theorem foldlM_connect_ring_area (r : Rec) (hcirc : r.circular = true) (hL : 0 < r.len) :
    ∀ (l : List GeneInfo) (core out : Loc), (∀ g ∈ l, RingIn r.len g.loc) → RingArea r.len core →
      l.foldlM (fun core cds => connect [cds.loc, core] r.wrap) core = .ok out →
      RingArea r.len out ∧ Covers out core := by
  have hw : r.wrap = some r.len := by simp [Rec.wrap, hcirc]
  intro l
  induction l with
  | nil => intro core out _ hc h; simp only [List.foldlM_nil, pure, Except.pure, Except.ok.injEq] at h; subst h; exact ⟨hc, Covers.refl _⟩
  | cons g rest ih =>
    intro core out hin hc h
    obtain ⟨c1, hc1, a1, cov1⟩ := connect_ring_area [g.loc, core] r.len (by simp) hL
      (by intro l hl; simp at hl; rcases hl with rfl | rfl; exact hin g (by simp); exact hc.ringIn)
    simp only [List.foldlM_cons, hw, hc1, bind, Except.bind] at h
    obtain ⟨o1, o2⟩ := ih c1 out (fun x hx => hin x (by simp [hx])) a1 (by simpa [hw] using h)
    exact ⟨o1, o2.trans (cov1 _ (by simp))⟩

theorem markExt_sub (r : Rec) (rule : RuleM) (core : Loc) (prev : GeneInfo) (w : List GeneInfo) :
    ∀ x ∈ markExt r rule core prev w, x ∈ w := by
  rw [markExt_eq]; exact specWalk_sub _ _ _ _ w prev

theorem cycle_sub (r : Rec) (items : List GeneInfo) (i : Nat) (b : Bool) : ∀ x ∈ cycle r items i b, x ∈ items := by
  intro x hx
  cases b <;> cases hc : r.circular <;>
    simp only [cycle, hc, Bool.false_eq_true, if_false, if_true, List.mem_append, List.mem_reverse] at hx
  · exact List.mem_of_mem_take hx
  · rcases hx with hx | hx
    · exact List.mem_of_mem_take hx
    · exact List.mem_of_mem_drop hx
  · exact List.mem_of_mem_drop hx
  · rcases hx with hx | hx
    · exact List.mem_of_mem_drop hx
    · exact List.mem_of_mem_take hx

theorem extendCluster_ring_area (within : Lookup) (r : Rec) (hcirc : r.circular = true) (hL : 0 < r.len)
    (rules : List RuleM) (hgenes : ∀ g ∈ r.genes, RingIn r.len g.loc) (pc pc' : PC) (d : Doms)
    (harea : RingArea r.len pc.core) (h : extendCluster within r rules pc = .ok (pc', d)) :
    RingArea r.len pc'.core ∧ pc'.rule = pc.rule ∧ Covers pc'.core pc.core := by
  simp only [extendCluster, bind, Except.bind] at h
  cases hr : findRule rules pc.rule with
  | error e => simp [hr] at h
  | ok rule =>
    simp only [hr] at h
    have hname : rule.name = pc.rule := by
      simp only [findRule] at hr
      cases hf : rules.find? (·.name == pc.rule) with
      | none => simp [hf] at hr
      | some x =>
        simp only [hf, pure, Except.pure, Except.ok.injEq] at hr
        subst hr
        simpa using List.find?_some hf
    cases hb : bisectLeft r.genes pc.core with
    | error e => simp [hb] at h
    | ok idx =>
      simp only [hb] at h
      split at h
      · next firstC lastC _ _ =>
        cases h1 : (markExt r rule pc.core firstC (cycle r r.genes idx false)).foldlM
            (fun core cds => connect [cds.loc, core] r.wrap) pc.core with
        | error e => simp [h1] at h
        | ok core1 =>
          simp only [h1] at h
          obtain ⟨a1, c1⟩ := foldlM_connect_ring_area r hcirc hL _ pc.core core1
            (fun g hg => hgenes g (cycle_sub r r.genes idx false g (markExt_sub r rule pc.core firstC _ g hg))) harea h1
          cases h2 : (markExt r rule core1 lastC (cycle r r.genes idx true)).foldlM
              (fun core cds => connect [cds.loc, core] r.wrap) core1 with
          | error e => simp [h2] at h
          | ok core2 =>
            simp only [h2] at h
            obtain ⟨a2, c2⟩ := foldlM_connect_ring_area r hcirc hL _ core1 core2
              (fun g hg => hgenes g (cycle_sub r r.genes idx true g (markExt_sub r rule core1 lastC _ g hg))) a1 h2
            split at h
            · cases h
            · cases he : extendArea r core2 rule.nbhd true with
              | error e => simp [he] at h
              | ok s =>
                simp only [he] at h
                cases hm : mkPC rule.name core2 s with
                | error e => simp [hm] at h
                | ok q =>
                  simp only [hm, pure, Except.pure, Except.ok.injEq, Prod.mk.injEq] at h
                  have := mkPC_ok hm
                  subst this
                  obtain ⟨rfl, _⟩ := h
                  exact ⟨a2, hname, c2.trans c1⟩
      · cases h

theorem filterE_ok_sub {α : Type} (p : α → E Bool) : ∀ (l out : List α), filterE p l = .ok out → ∀ x ∈ out, x ∈ l := by
  intro l
  induction l with
  | nil => intro out h x hx; simp only [filterE, pure, Except.pure, Except.ok.injEq] at h; subst h; cases hx
  | cons a l ih =>
    intro out h x hx
    simp only [filterE, bind, Except.bind] at h
    cases hp : p a with
    | error e => simp [hp] at h
    | ok b =>
      simp only [hp] at h
      cases hrest : filterE p l with
      | error e => simp [hrest] at h
      | ok rest =>
        simp only [hrest, pure, Except.pure, Except.ok.injEq] at h
        subst h
        cases b with
        | true =>
          simp only [if_true, List.mem_cons] at hx
          rcases hx with rfl | hx
          · simp
          · exact List.mem_cons_of_mem _ (ih rest hrest x hx)
        | false =>
          simp only [Bool.false_eq_true, if_false] at hx
          exact List.mem_cons_of_mem _ (ih rest hrest x hx)

theorem filterE_sublist {α : Type} (p : α → E Bool) : ∀ (l out : List α), filterE p l = .ok out → out.Sublist l := by
  intro l
  induction l with
  | nil => intro out h; simp only [filterE, pure, Except.pure, Except.ok.injEq] at h; subst h; exact List.Sublist.slnil
  | cons a l ih =>
    intro out h
    simp only [filterE, bind, Except.bind] at h
    cases hp : p a with
    | error e => simp [hp] at h
    | ok b =>
      simp only [hp] at h
      cases hrest : filterE p l with
      | error e => simp [hrest] at h
      | ok rest =>
        simp only [hrest, pure, Except.pure, Except.ok.injEq] at h
        subst h
        cases b with
        | true => simp only [if_true]; exact (ih rest hrest).cons₂ a
        | false => simp only [Bool.false_eq_true, if_false]; exact (ih rest hrest).cons a

end ASV.Proto
