/-
  C15 helper lemmas: every ORF reported for a chunk lies inside the area the chunk was cut from.
-/
import ASV.Proofs.OrfCoords
import ASV.Proofs.OrfSort
namespace ASV.Orf
open ASV

/-- the location of an ORF of a window `[o, o + n)` (around the origin when `o < 0`) lies in it -/
theorem orfLoc_in_window (fwd : Bool) (n : Nat) (o L : Int) (s e : Nat) (hL : 0 < L) (hs : s < e)
    (he : e + 3 ≤ n) (ho : -L ≤ o) (hon : o + n ≤ L) (hn : (n : Int) ≤ L) :
    locInArea L (o, o + n) (orfLoc fwd n o (some L) s e) = true := by
  have hlen : orfLen s e ≤ L := by simp only [orfLen]; omega
  rw [orfLoc_ring fwd n o L s e hL hs hlen]
  have hb1 : o ≤ orfBase fwd n o s e := by cases fwd <;> simp only [orfBase, Bool.false_eq_true, ↓reduceIte] <;> omega
  have hb2 : orfBase fwd n o s e + orfLen s e ≤ o + n := by
    cases fwd <;> simp only [orfBase, orfLen, Bool.false_eq_true, ↓reduceIte] <;> omega
  have hm : 0 < orfLen s e := by simp only [orfLen]; omega
  have ha : orfBase fwd n o s e % L =
      if 0 ≤ orfBase fwd n o s e then orfBase fwd n o s e else orfBase fwd n o s e + L := by
    split
    · exact Int.emod_eq_of_lt (by omega) (by omega)
    · exact emod_of_decomp _ _ _ (-1) (by omega) (by omega) (by omega)
  generalize orfBase fwd n o s e = b at *
  generalize orfLen s e = m at *
  rw [ha]
  by_cases hb0 : 0 ≤ b
  · simp only [hb0, if_true]
    rw [if_pos (by omega)]
    simp only [locInArea, Loc.parts, List.all_cons, List.all_nil, Bool.and_true, Bool.and_eq_true,
      decide_eq_true_eq]
    refine ⟨by omega, ?_⟩
    split
    · simp only [Bool.and_eq_true, decide_eq_true_eq]; omega
    · simp only [Bool.or_eq_true, Bool.and_eq_true, decide_eq_true_eq]; omega
  · simp only [hb0, if_false]
    have ho' : ¬ (o ≥ 0) := by omega
    by_cases hc : b + L + m ≤ L
    · rw [if_pos hc]
      simp only [locInArea, Loc.parts, List.all_cons, List.all_nil, Bool.and_true, Bool.and_eq_true,
        decide_eq_true_eq, ho', if_false, Bool.or_eq_true]
      omega
    · rw [if_neg hc]
      cases fwd <;>
      simp only [locInArea, Loc.parts, Bool.false_eq_true, if_false, if_true, List.all_cons, List.all_nil,
        Bool.and_true, Bool.and_eq_true, decide_eq_true_eq, ho', Bool.or_eq_true] <;> omega

theorem upper_length (s : Seq) : (upper s).length = s.length := by
  simp only [upper, List.length_map]

/-- membership in `scan_orfs`' result -/
theorem mem_scanOrfs (seq : Seq) (fwd : Bool) (offset minLen : Int) (recLen : Option Int) (l : Loc) :
    l ∈ scanOrfs seq fwd offset minLen recLen ↔
      ∃ s e, IsOrf (upper seq) s e ∧ minLen < orfLen s e ∧
        l = orfLoc fwd (upper seq).length offset recLen s e := by
  unfold scanOrfs
  rw [(sortByKey_perm _).mem_iff, List.mem_map]
  constructor
  · rintro ⟨⟨s, e⟩, hm, rfl⟩
    exact ⟨s, e, ((mem_scanMatches _ _ _ _).1 hm).1, ((mem_scanMatches _ _ _ _).1 hm).2, rfl⟩
  · rintro ⟨s, e, h1, h2, rfl⟩
    exact ⟨(s, e), (mem_scanMatches _ _ _ _).2 ⟨h1, h2⟩, rfl⟩

/-- everything `scan_orfs` reports for a chunk of length `n` cut at `o` lies in `[o, o + n)` -/
theorem scanOrfs_in_window (chunk : Seq) (fwd : Bool) (o minLen L : Int) (hL : 0 < L)
    (ho : -L ≤ o) (hon : o + chunk.length ≤ L) (hn : (chunk.length : Int) ≤ L) (l : Loc)
    (hl : l ∈ scanOrfs chunk fwd o minLen (some L)) :
    locInArea L (o, o + chunk.length) l = true := by
  obtain ⟨s, e, horf, _, rfl⟩ := (mem_scanOrfs _ _ _ _ _ _).1 hl
  rw [upper_length] at *
  exact orfLoc_in_window fwd _ o L s e hL horf.lt (by have := horf.inside; rw [upper_length] at this; exact this) ho hon hn

theorem revComp_length (s : Seq) : (revComp s).length = s.length := by
  simp only [revComp, List.length_reverse, List.length_map]

theorem chunkOf_length (rec : Seq) (st en : Int) (hok : AreaOk rec.length (st, en))
    (hen : en ≤ rec.length) : ((chunkOf rec st en).length : Int) = en - st := by
  obtain ⟨h1, h2, h3, h4⟩ := hok
  simp only at h1 h2 h3 h4
  unfold chunkOf
  split
  · simp only [slice, List.length_take, List.length_drop]; omega
  · simp only [slice, List.length_append, List.length_take, List.length_drop]; omega

/-- `find_all_orfs`, scanning half: every location found lies in one of the intergenic areas -/
theorem scanAreas_in_areas (rec : Seq) (minLen : Int) (hL : 0 < rec.length) :
    ∀ (areas : List (Int × Int)) (locs : List Loc), (∀ a ∈ areas, AreaOk rec.length a) →
      scanAreas rec minLen areas = some locs →
      ∀ l ∈ locs, ∃ a ∈ areas, locInArea rec.length a l = true := by
  intro areas
  induction areas with
  | nil =>
    intro locs _ h l hl
    simp only [scanAreas, Option.some.injEq] at h
    subst h
    exact absurd hl List.not_mem_nil
  | cons a rest ih =>
    intro locs hok h l hl
    obtain ⟨st, en⟩ := a
    unfold scanAreas at h
    split at h
    · rename_i hen
      cases hrest : scanAreas rec minLen rest with
      | none => rw [hrest] at h; simp only [Option.map_none, reduceCtorEq] at h
      | some restLocs =>
        rw [hrest] at h
        simp only [Option.map_some, Option.some.injEq] at h
        subst h
        have hokA := hok (st, en) List.mem_cons_self
        have hlenC := chunkOf_length rec st en hokA hen
        obtain ⟨h1, h2, h3, h4⟩ := hokA
        simp only at h1 h2 h3 h4
        rcases List.mem_append.1 hl with hl | hl
        · refine ⟨(st, en), List.mem_cons_self, ?_⟩
          have key : ∀ (chunk : Seq) (fwd : Bool), (chunk.length : Int) = en - st →
              l ∈ scanOrfs chunk fwd st minLen (some (rec.length : Int)) →
              locInArea rec.length (st, en) l = true := by
            intro chunk fwd hc hmem
            have := scanOrfs_in_window chunk fwd st minLen rec.length (by omega) h1 (by omega) (by omega) l hmem
            rw [show st + (chunk.length : Int) = en by omega] at this
            exact this
          rcases List.mem_append.1 hl with hl | hl
          · exact key _ true hlenC hl
          · exact key _ false (by rw [revComp_length]; exact hlenC) hl
        · obtain ⟨a, ha, hin⟩ := ih restLocs (fun a ha => hok a (List.mem_cons_of_mem _ ha)) hrest l hl
          exact ⟨a, List.mem_cons_of_mem _ ha, hin⟩
    · simp only [reduceCtorEq] at h

/-- what the scanning loop of `find_all_orfs` returns: for every area, the forward scan of its
    chunk and the reverse scan of the chunk's reverse complement — nothing else, nothing less -/
theorem scanAreas_mem (rec : Seq) (minLen : Int) :
    ∀ (areas : List (Int × Int)) (locs : List Loc), scanAreas rec minLen areas = some locs →
      ∀ l, l ∈ locs ↔ ∃ a ∈ areas,
        l ∈ scanOrfs (chunkOf rec a.1 a.2) true a.1 minLen (some (rec.length : Int)) ∨
        l ∈ scanOrfs (revComp (chunkOf rec a.1 a.2)) false a.1 minLen (some (rec.length : Int)) := by
  intro areas
  induction areas with
  | nil =>
    intro locs h l
    simp only [scanAreas, Option.some.injEq] at h
    subst h
    simp only [List.not_mem_nil, false_and, exists_false]
  | cons a rest ih =>
    intro locs h l
    obtain ⟨st, en⟩ := a
    unfold scanAreas at h
    split at h
    · cases hrest : scanAreas rec minLen rest with
      | none => rw [hrest] at h; simp only [Option.map_none, reduceCtorEq] at h
      | some restLocs =>
        rw [hrest] at h
        simp only [Option.map_some, Option.some.injEq] at h
        subst h
        simp only [List.mem_append, ih restLocs hrest l, List.mem_cons, exists_eq_or_imp]
    · simp only [reduceCtorEq] at h

/-- the loop fails only on `assert end <= len(record)` -/
theorem scanAreas_isSome (rec : Seq) (minLen : Int) :
    ∀ (areas : List (Int × Int)), (∀ a ∈ areas, a.2 ≤ (rec.length : Int)) →
      ∃ locs, scanAreas rec minLen areas = some locs := by
  intro areas
  induction areas with
  | nil => intro _; exact ⟨[], rfl⟩
  | cons a rest ih =>
    intro h
    obtain ⟨st, en⟩ := a
    obtain ⟨locs, hl⟩ := ih (fun a ha => h a (List.mem_cons_of_mem _ ha))
    have := h (st, en) List.mem_cons_self
    simp only at this
    unfold scanAreas
    rw [if_pos this, hl]
    exact ⟨_, rfl⟩

end ASV.Orf
