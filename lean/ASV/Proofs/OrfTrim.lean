/-
  C15 helper lemmas: `get_trimmed_orf` — the search returns the latest admissible in-frame start
  codon, and the new location (C09's exon walk) is the suffix of the ORF from that codon.
-/
import ASV.Spec.Orf
import ASV.Proofs.ProtDna
namespace ASV.Orf
open ASV

theorem lastStart_spec (seq : Seq) :
    ∀ (cnt i : Nat) (acc : Option Nat) (k : Nat), lastStart seq cnt i acc = some k →
      (acc = some k ∧ ∀ j, j < cnt → isStart (codonAt seq (i + 3 * j)) = false) ∨
      (∃ j, j < cnt ∧ k = i + 3 * j ∧ isStart (codonAt seq k) = true ∧
        ∀ j', j < j' → j' < cnt → isStart (codonAt seq (i + 3 * j')) = false) := by
  intro cnt
  induction cnt with
  | zero =>
    intro i acc k h
    simp only [lastStart] at h
    exact Or.inl ⟨h, fun j hj => by omega⟩
  | succ cnt ih =>
    intro i acc k h
    rw [lastStart] at h
    rcases ih (i + 3) _ k h with ⟨hacc, hno⟩ | ⟨j, hj, hk, hs, hno⟩
    · by_cases hst : isStart (codonAt seq i) = true
      · rw [if_pos hst] at hacc
        have hki : i = k := by simpa using hacc
        subst hki
        refine Or.inr ⟨0, by omega, by omega, hst, ?_⟩
        intro j' h1 h2
        have := hno (j' - 1) (by omega)
        rw [show i + 3 + 3 * (j' - 1) = i + 3 * j' by omega] at this
        exact this
      · rw [if_neg hst] at hacc
        refine Or.inl ⟨hacc, ?_⟩
        intro j hj
        by_cases h0 : j = 0
        · subst h0; simpa using hst
        · have := hno (j - 1) (by omega)
          rw [show i + 3 + 3 * (j - 1) = i + 3 * j by omega] at this
          exact this
    · refine Or.inr ⟨j + 1, by omega, by omega, hs, ?_⟩
      intro j' h1 h2
      have := hno (j' - 1) (by omega) (by omega)
      rw [show i + 3 + 3 * (j' - 1) = i + 3 * j' by omega] at this
      exact this

/-- what `starts[-1]` is: a start codon inside the search range `[lo, hi)`, in the range's frame,
    and the last such -/
theorem trimSearch_spec (seq : Seq) (incl : Option Int) (minLen : Int) (maxLen : Option Int) (k : Nat)
    (h : trimSearch seq incl minLen maxLen = .start k) :
    isStart (codonAt seq k) = true ∧
    trimLo seq.length (maxLen.getD seq.length) ≤ k ∧
    (k : Int) < trimHi seq.length minLen (incl.getD seq.length) ∧
    ((k : Int) - trimLo seq.length (maxLen.getD seq.length)) % 3 = 0 ∧
    ∀ k' : Nat, k < k' → (k' : Int) < trimHi seq.length minLen (incl.getD seq.length) →
      ((k' : Int) - trimLo seq.length (maxLen.getD seq.length)) % 3 = 0 →
      isStart (codonAt seq k') = false := by
  unfold trimSearch at h
  simp only at h
  split at h
  · simp only [reduceCtorEq] at h
  · split at h
    · simp only [reduceCtorEq] at h
    · split at h
      · simp only [reduceCtorEq] at h
      · generalize hlo : trimLo (seq.length : Int) (maxLen.getD seq.length) = lo at h ⊢
        generalize hhi : trimHi (seq.length : Int) minLen (incl.getD seq.length) = hi at h ⊢
        have hlo0 : 0 ≤ lo := by rw [← hlo]; unfold trimLo; omega
        split at h
        · simp only [reduceCtorEq] at h
        · rename_i k0 hk0
          have hk : k0 = k := by simpa using h
          subst hk
          rcases lastStart_spec seq _ _ _ _ hk0 with ⟨hacc, _⟩ | ⟨j, hj, hk, hs, hno⟩
          · simp only [reduceCtorEq] at hacc
          · by_cases hgt : hi > lo
            · rw [if_pos hgt] at hj hno
              refine ⟨hs, by omega, by omega, by omega, ?_⟩
              intro k' h1 h2 h3
              have := hno (((k' : Int) - lo) / 3).toNat (by omega) (by omega)
              rw [show lo.toNat + 3 * (((k' : Int) - lo) / 3).toNat = k' by omega] at this
              exact this
            · rw [if_neg hgt] at hj; omega

theorem startCodons_length : ∀ c ∈ Gen.startCodons, c.length = 3 := by decide

/-- a start codon is three characters, so it lies inside the sequence -/
theorem isStart_inside (seq : Seq) (k : Nat) (h : isStart (codonAt seq k) = true) : k + 3 ≤ seq.length := by
  simp only [isStart, List.contains_eq_mem, decide_eq_true_eq] at h
  have := startCodons_length _ h
  simp only [codonAt, List.length_take, List.length_drop] at this
  omega

theorem extract_length (recf : Int → Char) (compl : Char → Char) (l : Loc) (hwf : ProtDna.geneWF l = true) :
    ((ProtDna.extract recf compl l).length : Int) = l.len := by
  obtain ⟨_, hparts⟩ := (ProtDna.geneWF_iff l).mp hwf
  rw [ProtDna.extract_uniform recf compl l l.strand (fun p hp => (hparts p hp).2), List.length_map,
    ProtDna.len_eq_bases_length l (fun p hp => Int.le_of_lt (hparts p hp).1)]

/-- once a start is found the call succeeds, and the new location is the suffix of the ORF from
    that start, each of its parts a non-empty piece of one of the ORF's parts on the same strand -/
theorem trimmedOrf_suffix (recf : Int → Char) (compl : Char → Char) (l : Loc)
    (hwf : ProtDna.geneWF l = true) (incl : Option Int) (minLen : Int) (maxLen : Option Int) (k : Nat)
    (h : trimSearch (ProtDna.extract recf compl l) incl minLen maxLen = .start k) :
    ∃ r, trimmedOrf (ProtDna.extract recf compl l) l incl minLen maxLen = .found r ∧
      ProtDna.extract recf compl r = (ProtDna.extract recf compl l).drop k ∧
      (∀ q ∈ r.parts, ∃ p ∈ l.parts, p.lo ≤ q.lo ∧ q.lo < q.hi ∧ q.hi ≤ p.hi ∧ q.strand = p.strand) := by
  have hspec := trimSearch_spec _ incl minLen maxLen k h
  have hin := isStart_inside _ k hspec.1
  have hlen := extract_length recf compl l hwf
  obtain ⟨r, hr, hb, hi⟩ := ProtDna.subLocationFromOffsets_slice l hwf k
    (ProtDna.extract recf compl l).length (by omega) (by omega)
  refine ⟨r, ?_, ?_, hi⟩
  · unfold trimmedOrf
    rw [h]
    simp only
    rw [hr]
  · rw [ProtDna.extract_slice recf compl l r hwf k _ hb hi]
    unfold ProtDna.sliceL
    exact List.take_of_length_le (by simp only [List.length_drop]; omega)

/-- the other two outcomes are passed through -/
theorem trimmedOrf_none (seq : Seq) (l : Loc) (incl : Option Int) (minLen : Int) (maxLen : Option Int) :
    (trimSearch seq incl minLen maxLen = .none → trimmedOrf seq l incl minLen maxLen = .none) ∧
    (trimSearch seq incl minLen maxLen = .valueError → trimmedOrf seq l incl minLen maxLen = .valueError) := by
  constructor <;> intro h <;> unfold trimmedOrf <;> rw [h]

end ASV.Orf
