/-
  `connect_locations` on a ring returns a span of length `shortestArc L (canon parts)` — the
  executable shortest-arc formula of Spec/Bases.lean — whenever that is less than half the record (C04).
-/
import ASV.Proofs.LocConnectRingPerm
import ASV.Proofs.ShortestArc
set_option linter.unusedSimpArgs false
set_option linter.unusedVariables false
namespace ASV

theorem strict_parts_ok {L : Int} {l : Loc} (h : RingInStrict L l) :
    ∀ p ∈ l.parts, 0 ≤ p.lo ∧ p.lo < p.hi ∧ p.hi ≤ L := by
  rcases h with ⟨p, hp, h0, h1, h2⟩ | ⟨x, y, s, _, rfl, hy0, hyx, hxL⟩ | ⟨x, y, rfl, hy0, hyx, hxL⟩
  · intro q hq; rw [hp] at hq; simp only [List.mem_singleton] at hq; subst hq; exact ⟨h0, h1, h2⟩
  · intro q hq
    simp only [areaTwo, Loc.parts, List.mem_cons, List.mem_nil_iff, or_false] at hq
    rcases hq with rfl | rfl <;> (dsimp only; omega)
  · intro q hq
    simp only [areaTwoRev, Loc.parts, List.mem_cons, List.mem_nil_iff, or_false] at hq
    rcases hq with rfl | rfl <;> (dsimp only; omega)

theorem strict_parts_ne {L : Int} {l : Loc} (h : RingInStrict L l) : l.parts ≠ [] := by
  rcases h with ⟨p, hp, _⟩ | ⟨x, y, s, _, rfl, _⟩ | ⟨x, y, rfl, _⟩
  · rw [hp]; simp
  · simp [areaTwo, Loc.parts]
  · simp [areaTwoRev, Loc.parts]

/-- the length of the connected span is the executable `shortestArc` of the union of the inputs'
    bases whenever that is less than half the record -/
theorem connect_ring_len_shortestArc (ls : List Loc) (L : Int) (hne : ls ≠ []) (hL : 0 < L)
    (hin : ∀ l ∈ ls, RingInStrict L l)
    (hshort : 2 * shortestArc L (canon (ls.flatMap (·.parts))) < L) :
    (connR (ls.map toR) L).len = shortestArc L (canon (ls.flatMap (·.parts))) := by
  have hin' : ∀ l ∈ ls, RingIn L l := fun l hl => (hin l hl).ringIn
  have hok := toR_ok L hL ls hin'
  have hrs : ls.map toR ≠ [] := by simpa using hne
  have hcovL : ∀ l ∈ ls, ∀ i, l.mem i = true → (connR (ls.map toR) L).mem i = true := by
    intro l hl i hi
    exact connR_covers _ L hL hok (toR l) (List.mem_map.2 ⟨l, hl, rfl⟩) i ((toR_spec L hL l (hin' l hl)).2.2.2 i hi)
  apply len_eq_shortestArc _ L hL ?_ ?_ _ (connR_wf _ L hL hrs hok) ?_ ?_ hshort
  · obtain ⟨l, hl⟩ := List.exists_mem_of_ne_nil _ hne
    obtain ⟨p, hp⟩ := List.exists_mem_of_ne_nil _ (strict_parts_ne (hin l hl))
    exact List.ne_nil_of_mem (List.mem_flatMap.2 ⟨l, hl, hp⟩)
  · intro p hp
    obtain ⟨l, hl, hpl⟩ := List.mem_flatMap.1 hp
    exact strict_parts_ok (hin l hl) p hpl
  · intro p hp i hi
    obtain ⟨l, hl, hpl⟩ := List.mem_flatMap.1 hp
    exact hcovL l hl i (by simp only [Loc.mem, List.any_eq_true]; exact ⟨p, hpl, hi⟩)
  · intro c hwf hlen hcov
    refine (connR_shortest _ L hL hrs hok c hwf hlen ?_).1
    intro r hr i hi
    obtain ⟨l, hl, rfl⟩ := List.mem_map.1 hr
    have hli := (toR_mem_iff L hL l (hin l hl) i).1 hi
    simp only [Loc.mem, List.any_eq_true] at hli
    obtain ⟨p, hpl, hpi⟩ := hli
    exact hcov p (List.mem_flatMap.2 ⟨l, hl, hpl⟩) i hpi

end ASV
