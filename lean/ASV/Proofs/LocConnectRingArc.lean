/-
  `connect_locations` on a ring returns a span of length `shortestArc L (canon parts)` — the
  executable shortest-arc formula of Spec/Bases.lean — whenever that is less than half the record (C04).
-/
import ASV.Proofs.LocConnectRingPerm
import ASV.Proofs.ShortestArc
set_option linter.unusedSimpArgs false
set_option linter.unusedVariables false
namespace ASV

theorem strict_parts_ok {L : Int} {l : Loc} (h : RingInStrict L l) :
    ∀ p ∈ l.parts, 0 ≤ p.lo ∧ p.lo < p.hi ∧ p.hi ≤ L := by
  rcases h with ⟨p, hp, h0, h1, h2⟩ | ⟨x, y, s, _, rfl, hy0, hyx, hxL⟩ | ⟨x, y, rfl, hy0, hyx, hxL⟩
  · intro q hq; rw [hp] at hq; simp only [List.mem_singleton] at hq; subst hq; exact ⟨h0, h1, h2⟩
  · intro q hq
    simp only [areaTwo, Loc.parts, List.mem_cons, List.mem_nil_iff, or_false] at hq
    rcases hq with rfl | rfl <;> (dsimp only; omega)
  · intro q hq
    simp only [areaTwoRev, Loc.parts, List.mem_cons, List.mem_nil_iff, or_false] at hq
    rcases hq with rfl | rfl <;> (dsimp only; omega)

theorem strict_parts_ne {L : Int} {l : Loc} (h : RingInStrict L l) : l.parts ≠ [] := by
  rcases h with ⟨p, hp, _⟩ | ⟨x, y, s, _, rfl, _⟩ | ⟨x, y, rfl, _⟩
  · rw [hp]; simp
  · simp [areaTwo, Loc.parts]
  · simp [areaTwoRev, Loc.parts]

/-- the closed form has the length `shortestArc L (canon ps)` for any list of parts `ps` with the same
    bases as the reduced locations, whenever that is less than half the record -/
theorem connR_len_shortestArc (rs : List RLoc) (L : Int) (hL : 0 < L) (hne : rs ≠ []) (hok : ∀ r ∈ rs, r.OK L)
    (ps : List Part) (hps : ∀ p ∈ ps, 0 ≤ p.lo ∧ p.lo < p.hi ∧ p.hi ≤ L)
    (h1 : ∀ p ∈ ps, ∀ i, p.mem i = true → ∃ r ∈ rs, (r.toLoc L).mem i = true)
    (h2 : ∀ r ∈ rs, ∀ i, (r.toLoc L).mem i = true → ∃ p ∈ ps, p.mem i = true)
    (hshort : 2 * shortestArc L (canon ps) < L) :
    (connR rs L).len = shortestArc L (canon ps) := by
  apply len_eq_shortestArc ps L hL ?_ hps _ (connR_wf _ L hL hne hok) ?_ ?_ hshort
  · obtain ⟨r, hr⟩ := List.exists_mem_of_ne_nil _ hne
    have hb := toLoc_bounds (hok r hr)
    have hm : (r.toLoc L).mem (r.toLoc L).start = true := by
      cases r with
      | one p => simp only [RLoc.toLoc, Loc.start, mem_simple]; have : (RLoc.one p).OK L := hok _ hr; simp only [RLoc.OK] at this; omega
      | two x y =>
        have : (RLoc.two x y).OK L := hok _ hr
        simp only [RLoc.OK] at this
        simp only [RLoc.toLoc, mem_two, fl, Loc.start, List.map, minList, List.foldl]; omega
    obtain ⟨p, hp, _⟩ := h2 r hr _ hm
    exact List.ne_nil_of_mem hp
  · intro p hp i hi
    obtain ⟨r, hr, hri⟩ := h1 p hp i hi
    exact connR_covers _ L hL hok r hr i hri
  · intro c hwf hlen hcov
    refine (connR_shortest _ L hL hne hok c hwf hlen ?_).1
    intro r hr i hi
    obtain ⟨p, hp, hpi⟩ := h2 r hr i hi
    exact hcov p hp i hpi

/-- the length of the connected span is the executable `shortestArc` of the union of the inputs'
    bases whenever that is less than half the record -/
theorem connect_ring_len_shortestArc (ls : List Loc) (L : Int) (hne : ls ≠ []) (hL : 0 < L)
    (hin : ∀ l ∈ ls, RingInStrict L l)
    (hshort : 2 * shortestArc L (canon (ls.flatMap (·.parts))) < L) :
    (connR (ls.map toR) L).len = shortestArc L (canon (ls.flatMap (·.parts))) := by
  have hin' : ∀ l ∈ ls, RingIn L l := fun l hl => (hin l hl).ringIn
  apply connR_len_shortestArc _ L hL (by simpa using hne) (toR_ok L hL ls hin') _ ?_ ?_ ?_ hshort
  · intro p hp
    obtain ⟨l, hl, hpl⟩ := List.mem_flatMap.1 hp
    exact strict_parts_ok (hin l hl) p hpl
  · intro p hp i hi
    obtain ⟨l, hl, hpl⟩ := List.mem_flatMap.1 hp
    refine ⟨toR l, List.mem_map.2 ⟨l, hl, rfl⟩, (toR_mem_iff L hL l (hin l hl) i).2 ?_⟩
    simp only [Loc.mem, List.any_eq_true]; exact ⟨p, hpl, hi⟩
  · intro r hr i hi
    obtain ⟨l, hl, rfl⟩ := List.mem_map.1 hr
    have hli := (toR_mem_iff L hL l (hin l hl) i).1 hi
    simp only [Loc.mem, List.any_eq_true] at hli
    obtain ⟨p, hpl, hpi⟩ := hli
    exact ⟨p, List.mem_flatMap.2 ⟨l, hl, hpl⟩, hpi⟩

/-- an input read as a *span* (what `_reduce_parts_to_location` makes of it): a location that does
    not bridge the origin covers `[start, end)` (a gene covers its introns), an origin-spanning one
    `[x, L) + [0, y)` -/
def spanOf (L : Int) (l : Loc) : Loc := (toR l).toLoc L

/-- the same for every `RingIn` input, with the inputs read as spans -/
theorem connect_ring_len_shortestArc_spans (ls : List Loc) (L : Int) (hne : ls ≠ []) (hL : 0 < L)
    (hin : ∀ l ∈ ls, RingIn L l)
    (hshort : 2 * shortestArc L (canon (ls.flatMap fun l => (spanOf L l).parts)) < L) :
    (connR (ls.map toR) L).len = shortestArc L (canon (ls.flatMap fun l => (spanOf L l).parts)) := by
  have hok := toR_ok L hL ls hin
  apply connR_len_shortestArc _ L hL (by simpa using hne) hok _ ?_ ?_ ?_ hshort
  · intro p hp
    obtain ⟨l, hl, hpl⟩ := List.mem_flatMap.1 hp
    have hr := hok (toR l) (List.mem_map.2 ⟨l, hl, rfl⟩)
    simp only [spanOf] at hpl
    cases hrl : toR l with
    | one q =>
      rw [hrl] at hpl hr
      simp only [RLoc.toLoc, Loc.parts, List.mem_singleton] at hpl; subst hpl; exact hr
    | two x y =>
      rw [hrl] at hpl hr
      simp only [RLoc.OK] at hr
      simp only [RLoc.toLoc, Loc.parts, List.mem_cons, List.mem_nil_iff, or_false] at hpl
      rcases hpl with rfl | rfl <;> (simp only [fl]; omega)
  · intro p hp i hi
    obtain ⟨l, hl, hpl⟩ := List.mem_flatMap.1 hp
    refine ⟨toR l, List.mem_map.2 ⟨l, hl, rfl⟩, ?_⟩
    simp only [spanOf] at hpl
    simp only [Loc.mem, List.any_eq_true]; exact ⟨p, hpl, hi⟩
  · intro r hr i hi
    obtain ⟨l, hl, rfl⟩ := List.mem_map.1 hr
    simp only [Loc.mem, List.any_eq_true] at hi
    obtain ⟨p, hpl, hpi⟩ := hi
    exact ⟨p, List.mem_flatMap.2 ⟨l, hl, hpl⟩, hpi⟩

end ASV
