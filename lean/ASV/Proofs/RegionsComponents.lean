/-
  C06 helper lemmas, part 3: generic facts about `Linked` / `IsComponents`, and the
  characterisation of `createRegions` on a linear record as "one region per group of the sweep".
-/
import ASV.Proofs.RegionsLine
import ASV.Spec.Components
namespace ASV.Components
open ASV

theorem Linked.mem_left {areas : List Area} {a b : Area} (h : Linked areas a b) : a ∈ areas := by
  induction h with
  | refl ha => exact ha
  | step _ _ _ ih => exact ih

theorem Linked.mem_right {areas : List Area} {a b : Area} (h : Linked areas a b) : b ∈ areas := by
  cases h with
  | refl ha => exact ha
  | step _ hc _ => exact hc

theorem Linked.trans {areas : List Area} {a b c : Area} (h1 : Linked areas a b) (h2 : Linked areas b c) :
    Linked areas a c := by
  induction h2 with
  | refl _ => exact h1
  | step _ hc hs ih => exact Linked.step ih hc hs

theorem Linked.symm {areas : List Area} {a b : Area} (h : Linked areas a b) : Linked areas b a := by
  induction h with
  | refl ha => exact Linked.refl _ ha
  | step hab hc hs ih =>
    have h1 := Linked.step (Linked.refl _ hc) hab.mem_right ((SharesBase_comm _ _).1 hs)
    exact h1.trans ih

theorem pairwise_mem {α} {R : α → α → Prop} {l : List α} (h : l.Pairwise R) {x y : α} (hx : x ∈ l) (hy : y ∈ l) :
    x = y ∨ R x y ∨ R y x := by
  induction l with
  | nil => cases hx
  | cons z zs ih =>
    have h' := List.pairwise_cons.1 h
    simp only [List.mem_cons] at hx hy
    rcases hx with rfl | hx <;> rcases hy with rfl | hy
    · exact Or.inl rfl
    · exact Or.inr (Or.inl (h'.1 y hy))
    · exact Or.inr (Or.inr (h'.1 x hx))
    · exact ih h'.2 hx hy

/-- two areas are linked only if they lie in the same group -/
theorem IsComponents.linked_same {areas : List Area} {groups : List (List Area)} (h : IsComponents areas groups)
    {a b : Area} (hl : Linked areas a b) {g : List Area} (hg : g ∈ groups) (ha : a ∈ g) : b ∈ g := by
  induction hl with
  | refl _ => exact ha
  | step _ hc hs ih =>
    rename_i b c _
    have hb := ih
    have hc' : c ∈ groups.flatten := h.perm.mem_iff.2 hc
    obtain ⟨g', hg', hcg'⟩ := List.mem_flatten.1 hc'
    rcases pairwise_mem h.separated hg hg' with rfl | h1 | h1
    · exact hcg'
    · exact absurd hs (h1 b hb c hcg')
    · exact absurd ((SharesBase_comm _ _).1 hs) (h1 c hcg' b hb)

/-- the property's wording: two areas are in the same region iff a chain of overlapping areas links them -/
theorem IsComponents.same_iff_linked {areas : List Area} {groups : List (List Area)} (h : IsComponents areas groups)
    {a b : Area} {g : List Area} (hg : g ∈ groups) (ha : a ∈ g) : b ∈ g ↔ Linked areas a b :=
  ⟨fun hb => h.linked g hg a ha b hb, fun hl => h.linked_same hl hg ha⟩

theorem Linked.of_perm {as bs : List Area} (hp : as.Perm bs) {a b : Area} (h : Linked as a b) : Linked bs a b := by
  induction h with
  | refl ha => exact Linked.refl _ (hp.mem_iff.1 ha)
  | step _ hc hs ih => exact Linked.step ih (hp.mem_iff.1 hc) hs

theorem IsComponents.of_perm {as bs : List Area} {gs : List (List Area)} (hp : as.Perm bs) (h : IsComponents as gs) :
    IsComponents bs gs :=
  ⟨h.perm.trans hp, h.nonempty, fun g hg a ha b hb => Linked.of_perm hp (h.linked g hg a ha b hb), h.separated⟩


end ASV.Components

namespace ASV.Regions
open ASV ASV.SweepG ASV.Components

/-- the hypotheses of the linear theorem: a linear record whose candidate clusters and subregions are
    single non-empty spans inside the record (what `add_*` and the constructors guarantee), with no
    regions yet -/
structure LinearOK (s : State) : Prop where
  lin : s.circular = false
  areas : ∀ f ∈ s.cands ++ s.subs, LineArea s.len f.loc
  noRegions : s.regions = []

/-- the hypotheses of the component theorem without the topology: a record — linear **or circular** — whose
    candidate clusters and subregions are single non-empty spans inside the record (none spans the origin),
    with no regions yet -/
structure NoSpanOK (s : State) : Prop where
  areas : ∀ f ∈ s.cands ++ s.subs, LineArea s.len f.loc
  noRegions : s.regions = []

theorem LinearOK.noSpan {s : State} (h : LinearOK s) : NoSpanOK s := ⟨h.areas, h.noRegions⟩

def areaLt (a b : Feat) : Bool := keyLt (lineKey a.loc) (lineKey b.loc)

/-- the areas in the order `areas.sort()` leaves them -/
def sortedAreas (s : State) : List Feat := sortP areaLt (s.cands ++ s.subs)

theorem sortedAreas_perm (s : State) : (sortedAreas s).Perm (s.cands ++ s.subs) := sortP_perm _ _

theorem sortedAreas_sorted (s : State) : (sortedAreas s).Pairwise (fun a b => fLo a ≤ fLo b) := by
  have h := sortP_sorted (key := fun f => lineKey f.loc) (lt := areaLt) (fun _ _ => rfl) (s.cands ++ s.subs)
  refine List.Pairwise.imp ?_ h
  intro a b hab
  rw [keyLt_false_iff] at hab
  simp only [lineKey, fLo] at *
  omega

theorem secOf_single {len : Int} (f : Feat) (h : LineArea len f.loc) : (secOf ⟨fLo f, fHi f, [f]⟩).1 = f.loc := by
  obtain ⟨p, hp, _⟩ := h
  simp only [secOf, fLo, fHi, hullStrand, List.foldl, hp, Loc.start, Loc.end, Loc.strand]

/-- on a linear record `create_regions` succeeds and adds exactly one region per group of the sweep
    over the sorted areas, in order -/
theorem createRegions_line (s : State) (h : NoSpanOK s) :
    ∃ s', createRegions s = .ok s' ∧
      s'.regions.map view = (sweep fLo fHi (sortedAreas s)).map grpView ∧
      s'.cands = s.cands ∧ s'.subs = s.subs ∧ s'.protos = s.protos ∧ s'.len = s.len ∧ s'.circular = s.circular := by
  have hperm := sortedAreas_perm s
  have hsort : sortAreas (s.cands ++ s.subs) = .ok (sortedAreas s) :=
    sortAreas_eq areaLt _ (fun x hx y hy => collectionLt_line (h.areas y hy) (h.areas x hx))
  by_cases hemp : s.cands ++ s.subs = []
  · have h1 : s.cands = [] := (List.append_eq_nil_iff.1 hemp).1
    have h2 : s.subs = [] := (List.append_eq_nil_iff.1 hemp).2
    refine ⟨s, ?_, ?_, rfl, rfl, rfl, rfl, rfl⟩
    · simp [createRegions, createRegionsOf, h1, h2, pure, Except.pure]
    · simp [sortedAreas, hemp, sortP, sweep, h.noRegions]
  · have hne : (s.cands.isEmpty && s.subs.isEmpty) = false := by
      cases hc : s.cands <;> cases hs : s.subs <;> simp_all
    have hsne : sortedAreas s ≠ [] := fun e => hemp (List.perm_nil.1 (e ▸ hperm.symm))
    obtain ⟨first, rest, hfr⟩ : ∃ first rest, sortedAreas s = first :: rest := by
      cases hsa : sortedAreas s with
      | nil => exact absurd hsa hsne
      | cons a b => exact ⟨a, b, rfl⟩
    have hall : ∀ f ∈ first :: rest, LineArea s.len f.loc := fun f hf => h.areas f (hperm.mem_iff.1 (hfr ▸ hf))
    have hsorted := sortedAreas_sorted s
    rw [hfr] at hsorted
    have hwf : ∀ y ∈ first :: rest, fLo y < fHi y := fun y hy => (hall y hy).bounds.2.1
    have hspec := sweep_spec fLo fHi first rest hsorted hwf
    have hsw : sweepAreas s.wrap first.loc [first] rest = .ok ((sweep fLo fHi (first :: rest)).map secOf) := by
      have hfb := (hall first (by simp)).bounds
      have hw : WrapOf s.len s.wrap := by
        unfold WrapOf State.wrap
        cases s.circular
        · exact Or.inl rfl
        · exact Or.inr ⟨rfl, by omega⟩
      have := sweepAreas_line (len := s.len) hw ⟨fLo first, fHi first, [first]⟩ rest (by simp) (hwf first (by simp))
        (by simp only [fLo, fHi]; omega)
        (fun y hy => hall y (by simp [hy])) (fun y hy => (List.pairwise_cons.1 hsorted).1 y hy)
        (List.pairwise_cons.1 hsorted).2
      rw [secOf_single first (hall first (by simp))] at this
      exact this
    have hmerge := mergeFirstLast_line (sweep fLo fHi (first :: rest)) hspec.sep
      (fun g hg => group_nonempty (hspec.inv g hg)) s.wrap ((sweep fLo fHi (first :: rest)).map secOf).length
    have hsec : sections s = .ok ((sweep fLo fHi (first :: rest)).map secOf) := by
      simp only [sections, sectionsOf, hsort, hfr, bind, Except.bind, hsw, hmerge]
    obtain ⟨s', h1, h2, h3⟩ := addSections_line (len := s.len) (sweep fLo fHi (first :: rest)) s rfl hspec.inv hspec.sep
      (by
        intro g hg f hf
        apply hall
        have : f ∈ ((sweep fLo fHi (first :: rest)).map Grp.members).flatten :=
          List.mem_flatten.2 ⟨g.members, List.mem_map.2 ⟨g, hg, rfl⟩, hf⟩
        rw [hspec.flat] at this
        simpa using this)
      (by rw [h.noRegions]; intro r hr; cases hr)
    refine ⟨s', ?_, ?_, h3⟩
    · have hsec' : sectionsOf s.wrap s.cands s.subs = .ok ((sweep fLo fHi (first :: rest)).map secOf) := hsec
      simp only [createRegions, createRegionsOf, hne, Bool.false_eq_true, if_false, hsec', bind, Except.bind, h1]
    · rw [h2, h.noRegions, hfr]; rfl

def toArea (f : Feat) : Area := (f.id, f.loc)
def areasOf (s : State) : List Area := (s.cands ++ s.subs).map toArea

theorem shares_iff_ov {len : Int} (a b : Feat) (ha : LineArea len a.loc) (hb : LineArea len b.loc) :
    (toArea a).2.SharesBase (toArea b).2 ↔ Ov fLo fHi a b := by
  obtain ⟨p, hp, _, hp1, _⟩ := ha
  obtain ⟨q, hq, _, hq1, _⟩ := hb
  simp only [toArea, Ov, fLo, fHi, hp, hq, Loc.start, Loc.end, Loc.SharesBase, Loc.mem, Loc.parts, List.any_cons, List.any_nil,
    Bool.or_false, Part.mem_iff]
  constructor
  · rintro ⟨i, h1, h2⟩; omega
  · intro h; exact ⟨max p.lo q.lo, by omega, by omega⟩

/-- the groups of the sweep over a sorted list of line areas are the connected components -/
theorem sweep_components {len : Int} (l : List Feat) (hall : ∀ f ∈ l, LineArea len f.loc)
    (hsorted : l.Pairwise (fun a b => fLo a ≤ fLo b)) :
    IsComponents (l.map toArea) ((sweep fLo fHi l).map (fun g => g.members.map toArea)) := by
  cases l with
  | nil => exact ⟨by simp [sweep], by simp [sweep], by simp [sweep], by simp [sweep]⟩
  | cons first rest =>
    have hwf : ∀ y ∈ first :: rest, fLo y < fHi y := fun y hy => (hall y hy).bounds.2.1
    have hspec := sweep_spec fLo fHi first rest hsorted hwf
    have hflat : ((sweep fLo fHi (first :: rest)).map Grp.members).flatten = first :: rest := by
      rw [hspec.flat]; rfl
    have hmem : ∀ g ∈ sweep fLo fHi (first :: rest), ∀ f ∈ g.members, f ∈ first :: rest := by
      intro g hg f hf
      rw [← hflat]
      exact List.mem_flatten.2 ⟨g.members, List.mem_map.2 ⟨g, hg, rfl⟩, hf⟩
    refine ⟨?_, ?_, ?_, ?_⟩
    · have : ((sweep fLo fHi (first :: rest)).map (fun g => g.members.map toArea)).flatten
          = (((sweep fLo fHi (first :: rest)).map Grp.members).flatten).map toArea := by
        rw [List.map_flatten, List.map_map]; rfl
      rw [this, hflat]
    · intro g hg
      obtain ⟨g0, hg0, rfl⟩ := List.mem_map.1 hg
      simpa using (hspec.inv g0 hg0).ne
    · intro g hg a ha b hb
      obtain ⟨g0, hg0, rfl⟩ := List.mem_map.1 hg
      obtain ⟨fa, hfa, rfl⟩ := List.mem_map.1 ha
      obtain ⟨fb, hfb, rfl⟩ := List.mem_map.1 hb
      have hinv := hspec.inv g0 hg0
      obtain ⟨m, r, hmr⟩ : ∃ m r, g0.members = m :: r := by
        cases hm : g0.members with
        | nil => exact absurd hm hinv.ne
        | cons m r => exact ⟨m, r, rfl⟩
      have hin : ∀ x ∈ m :: r, x ∈ first :: rest := fun x hx => hmem g0 hg0 x (hmr ▸ hx)
      have hlink := chained_linked (lo := fLo) (hi := fHi)
        (fun x y => Linked ((first :: rest).map toArea) (toArea x) (toArea y)) m r
        (fun x hx => Linked.refl _ (List.mem_map.2 ⟨x, hin x hx, rfl⟩))
        (fun x _ y hy z hz hxy hov => Linked.step hxy (List.mem_map.2 ⟨z, hin z hz, rfl⟩)
          ((shares_iff_ov y z (hall y (hin y hy)) (hall z (hin z hz))).2 hov))
        (fun x hx => hwf x (hin x hx)) (hmr ▸ hinv.chained)
      exact (hlink fa (hmr ▸ hfa)).symm.trans (hlink fb (hmr ▸ hfb))
    · rw [List.pairwise_map]
      refine List.Pairwise.imp_of_mem ?_ hspec.sep
      intro g g' hg hg' hsep a ha b hb
      obtain ⟨fa, hfa, rfl⟩ := List.mem_map.1 ha
      obtain ⟨fb, hfb, rfl⟩ := List.mem_map.1 hb
      rw [shares_iff_ov fa fb (hall fa (hmem g hg fa hfa)) (hall fb (hmem g' hg' fb hfb))]
      exact sep_no_overlap hspec hsep hg hg' hfa hfb

/-- what `create_regions` must produce for one group of areas: the hull of the group, the ids of its
    candidate clusters and of its subregions -/
def expectedRegion (g : List Feat) : Loc × List Nat × List Nat :=
  (.simple ⟨minList (g.map fLo), maxList (g.map fHi), commonStrand ((childrenOf g).map (·.loc))⟩,
   (candsOf g).map (·.id), (subsOf g).map (·.id))

theorem grpView_eq {g : Grp Feat} (hg : GInv fLo fHi g) : grpView g = expectedRegion g.members := by
  have := hull_of_group hg g.members (List.Perm.refl _)
  simp only [grpView, expectedRegion, this.1, this.2]

theorem createRegions_linear_components (s : State) (h : NoSpanOK s) :
    ∃ (s' : State) (groups : List (List Feat)), createRegions s = .ok s' ∧
      s'.cands = s.cands ∧ s'.subs = s.subs ∧ s'.protos = s.protos ∧
      IsComponents (areasOf s) (groups.map (·.map toArea)) ∧
      s'.regions.map view = groups.map expectedRegion ∧
      s'.regions.Pairwise (fun r r' => ¬ r.loc.SharesBase r'.loc) := by
  obtain ⟨s', h1, h2, h3, h4, h5, _, _⟩ := createRegions_line s h
  have hperm := sortedAreas_perm s
  have hall : ∀ f ∈ sortedAreas s, LineArea s.len f.loc := fun f hf => h.areas f (hperm.mem_iff.1 hf)
  have hsorted := sortedAreas_sorted s
  have hcomp := (sweep_components (sortedAreas s) hall hsorted).of_perm (hperm.map toArea)
  refine ⟨s', (sweep fLo fHi (sortedAreas s)).map Grp.members, h1, h3, h4, h5, ?_, ?_, ?_⟩
  · rw [List.map_map]; exact hcomp
  · rw [h2, List.map_map]
    apply List.map_congr_left
    intro g hg
    cases hsa : sortedAreas s with
    | nil => rw [hsa] at hg; simp [sweep] at hg
    | cons first rest =>
      rw [hsa] at hg hsorted hall
      have hspec := sweep_spec fLo fHi first rest hsorted (fun y hy => (hall y hy).bounds.2.1)
      exact grpView_eq (hspec.inv g hg)
  · have : (s'.regions.map view).Pairwise (fun v v' => ¬ v.1.SharesBase v'.1) := by
      rw [h2, List.pairwise_map]
      cases hsa : sortedAreas s with
      | nil => simp [sweep]
      | cons first rest =>
        rw [hsa] at hsorted hall
        have hspec := sweep_spec fLo fHi first rest hsorted (fun y hy => (hall y hy).bounds.2.1)
        refine List.Pairwise.imp_of_mem ?_ hspec.sep
        intro g g' hg hg' hsep
        have := group_nonempty (hspec.inv g hg)
        have := group_nonempty (hspec.inv g' hg')
        simp only [grpView, Loc.SharesBase, Loc.mem, Loc.parts, List.any_cons, List.any_nil, Bool.or_false, Part.mem_iff]
        rintro ⟨i, hi1, hi2⟩
        omega
    rw [List.pairwise_map] at this
    exact this

end ASV.Regions
