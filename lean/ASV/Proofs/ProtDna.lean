/-
  Helper lemmas for C09 (protein → nucleotide coordinates).
-/
import ASV.Model.ProtDna
import ASV.Spec.ProtDna
namespace ASV.ProtDna
open ASV

/-! ### ranges -/

theorem upRange_length (lo : Int) (n : Nat) : (upRange lo n).length = n := by
  induction n generalizing lo with
  | zero => rfl
  | succ n ih => simp [upRange, ih]

theorem downRange_length (hi : Int) (n : Nat) : (downRange hi n).length = n := by
  induction n generalizing hi with
  | zero => rfl
  | succ n ih => simp [downRange, ih]

theorem upRange_drop (lo : Int) (n a : Nat) : (upRange lo n).drop a = upRange (lo + a) (n - a) := by
  induction a generalizing lo n with
  | zero => simp
  | succ a ih =>
    cases n with
    | zero => simp [upRange]
    | succ n =>
      simp only [upRange, List.drop_succ_cons, ih]
      have : lo + 1 + (a : Int) = lo + ((a + 1 : Nat) : Int) := by omega
      rw [this]; congr 1; omega

theorem upRange_take (lo : Int) (n a : Nat) : (upRange lo n).take a = upRange lo (min a n) := by
  induction a generalizing lo n with
  | zero => simp [upRange]
  | succ a ih =>
    cases n with
    | zero => simp [upRange]
    | succ n =>
      have : min (a + 1) (n + 1) = min a n + 1 := by omega
      simp only [upRange, List.take_succ_cons, ih, this]

theorem downRange_drop (hi : Int) (n a : Nat) : (downRange hi n).drop a = downRange (hi - a) (n - a) := by
  induction a generalizing hi n with
  | zero => simp
  | succ a ih =>
    cases n with
    | zero => simp [downRange]
    | succ n =>
      simp only [downRange, List.drop_succ_cons, ih]
      have : hi - 1 - (a : Int) = hi - ((a + 1 : Nat) : Int) := by omega
      rw [this]; congr 1; omega

theorem downRange_take (hi : Int) (n a : Nat) : (downRange hi n).take a = downRange hi (min a n) := by
  induction a generalizing hi n with
  | zero => simp [downRange]
  | succ a ih =>
    cases n with
    | zero => simp [downRange]
    | succ n =>
      have : min (a + 1) (n + 1) = min a n + 1 := by omega
      simp only [downRange, List.take_succ_cons, ih, this]

theorem partBases_length (p : Part) : (partBases p).length = (p.hi - p.lo).toNat := by
  unfold partBases
  split <;> simp [upRange_length, downRange_length]

/-! ### one part -/

/-- the new part built for `[first,last)` of an exon lists exactly that slice of the exon's bases -/
theorem slicePart_bases (rev : Bool) (st : Strand) (p : Part) (first last : Int)
    (hrev : (p.strand == .rev) = rev) (hst : (st == .rev) = rev)
    (h0 : 0 ≤ first) (h1 : first ≤ last) (h2 : last ≤ p.hi - p.lo) :
    partBases (slicePart rev st p first last)
      = ((partBases p).drop first.toNat).take (last.toNat - first.toNat) := by
  cases rev with
  | false =>
    simp only [partBases, slicePart, hrev, hst, Bool.false_eq_true, if_false, upRange_drop, upRange_take]
    congr 1 <;> omega
  | true =>
    simp only [partBases, slicePart, hrev, hst, if_true, downRange_drop, downRange_take]
    congr 1 <;> omega

theorem take_eq_of_length_le {α} (l : List α) (j k : Nat) (hj : l.length ≤ j) (hk : l.length ≤ k) :
    l.take j = l.take k := by
  rw [List.take_of_length_le hj, List.take_of_length_le hk]

/-! ### the exon walk of `get_sub_location_from_offsets` -/

/-- the walk lists exactly the bases `[s-off, e-off)` of the remaining exons (for all offsets, even
    outside the gene) -/
theorem subParts_bases (rev : Bool) (st : Strand) (hst : (st == .rev) = rev) :
    ∀ (ps : List Part) (off s e : Int),
      (∀ p ∈ ps, p.lo ≤ p.hi ∧ (p.strand == .rev) = rev) →
      (subParts rev st ps off s e).flatMap partBases
        = ((ps.flatMap partBases).drop (s - off).toNat).take ((e - off).toNat - (s - off).toNat) := by
  intro ps
  induction ps with
  | nil => intro off s e _; simp [subParts]
  | cons p ps ih =>
    intro off s e hps
    have hp := hps p (List.mem_cons_self)
    have hps' : ∀ q ∈ ps, q.lo ≤ q.hi ∧ (q.strand == .rev) = rev := fun q hq => hps q (List.mem_cons_of_mem _ hq)
    have hlen : (partBases p).length = (p.hi - p.lo).toNat := partBases_length p
    -- the piece contributed by this part
    have hnew : (if max (s - off) 0 < min (e - off) p.len
                  then [slicePart rev st p (max (s - off) 0) (min (e - off) p.len)] else []).flatMap partBases
          = ((partBases p).drop (s - off).toNat).take ((e - off).toNat - (s - off).toNat) := by
      unfold Part.len
      split
      · rename_i hlt
        simp only [List.flatMap_cons, List.flatMap_nil, List.append_nil]
        rw [slicePart_bases rev st p _ _ hp.2 hst (by omega) (by omega) (by omega)]
        have h1 : (max (s - off) 0).toNat = (s - off).toNat := by omega
        rw [h1]
        by_cases hb : (e - off).toNat ≤ (p.hi - p.lo).toNat
        · congr 1; omega
        · apply take_eq_of_length_le <;> simp only [List.length_drop, hlen] <;> omega
      · rename_i hge
        simp only [List.flatMap_nil]
        by_cases ha : (p.hi - p.lo).toNat ≤ (s - off).toNat
        · rw [List.drop_eq_nil_of_le (by omega)]; simp
        · have : (e - off).toNat - (s - off).toNat = 0 := by omega
          rw [this]; simp
    simp only [subParts, List.flatMap_cons]
    rw [List.drop_append, List.take_append, List.length_drop, hlen]
    split
    · rename_i hbreak
      rw [hnew]
      have : (e - off).toNat - (s - off).toNat - ((p.hi - p.lo).toNat - (s - off).toNat) = 0 := by
        unfold Part.len at hbreak; omega
      rw [this]; simp
    · rename_i hcont
      rw [List.flatMap_append, hnew, ih (off + p.len) s e hps']
      unfold Part.len at hcont ⊢
      have hlo := hp.1
      have e1 : (s - (off + (p.hi - p.lo))).toNat = (s - off).toNat - (p.hi - p.lo).toNat := by omega
      have e2 : (e - (off + (p.hi - p.lo))).toNat - (s - (off + (p.hi - p.lo))).toNat
          = (e - off).toNat - (s - off).toNat - ((p.hi - p.lo).toNat - (s - off).toNat) := by omega
      rw [e2, e1]
/-- every new part is a non-empty sub-interval of the exon it was cut from, on the location's strand -/
theorem subParts_inside (rev : Bool) (st : Strand) :
    ∀ (ps : List Part) (off s e : Int), (∀ p ∈ ps, p.lo ≤ p.hi) →
      ∀ q ∈ subParts rev st ps off s e,
        ∃ p ∈ ps, p.lo ≤ q.lo ∧ q.lo < q.hi ∧ q.hi ≤ p.hi ∧ q.strand = st := by
  intro ps
  induction ps with
  | nil => intro off s e _ q hq; simp [subParts] at hq
  | cons p ps ih =>
    intro off s e hps q hq
    have hp := hps p List.mem_cons_self
    have hnew : ∀ q ∈ (if max (s - off) 0 < min (e - off) p.len
        then [slicePart rev st p (max (s - off) 0) (min (e - off) p.len)] else []),
        p.lo ≤ q.lo ∧ q.lo < q.hi ∧ q.hi ≤ p.hi ∧ q.strand = st := by
      intro q hq
      unfold Part.len at hq
      split at hq
      · simp only [List.mem_singleton] at hq
        subst hq
        cases rev <;> simp only [slicePart, Bool.false_eq_true, if_false, if_true] <;>
          refine ⟨by omega, by omega, by omega, trivial⟩
      · simp at hq
    simp only [subParts] at hq
    split at hq
    · exact ⟨p, List.mem_cons_self, hnew q hq⟩
    · rcases List.mem_append.mp hq with h | h
      · exact ⟨p, List.mem_cons_self, hnew q h⟩
      · obtain ⟨p', hp', h'⟩ := ih _ s e (fun x hx => hps x (List.mem_cons_of_mem _ hx)) q h
        exact ⟨p', List.mem_cons_of_mem _ hp', h'⟩

theorem locOfNewParts_ok (ps : List Part) (h : ps ≠ []) :
    ∃ r, locOfNewParts ps = .ok r ∧ r.parts = ps := by
  match ps, h with
  | [p], _ => exact ⟨.simple p, rfl, rfl⟩
  | p :: q :: rest, _ => exact ⟨.compound (p :: q :: rest), rfl, rfl⟩

theorem geneWF_iff (l : Loc) :
    geneWF l = true ↔ l.parts ≠ [] ∧ ∀ p ∈ l.parts, p.lo < p.hi ∧ p.strand = l.strand := by
  simp [geneWF, List.all_eq_true]

theorem sum_len_eq (ps : List Part) (h : ∀ p ∈ ps, p.lo ≤ p.hi) :
    (ps.map Part.len).sum = ((ps.flatMap partBases).length : Int) := by
  induction ps with
  | nil => simp
  | cons p ps ih =>
    have hp := h p List.mem_cons_self
    simp only [List.map_cons, List.sum_cons, List.flatMap_cons, List.length_append, partBases_length,
      ih (fun x hx => h x (List.mem_cons_of_mem _ hx)), Part.len]
    omega

theorem len_eq_bases_length (l : Loc) (h : ∀ p ∈ l.parts, p.lo ≤ p.hi) :
    l.len = ((bases l).length : Int) := sum_len_eq l.parts h

theorem bases_of_parts (r : Loc) (ps : List Part) (h : r.parts = ps) : bases r = ps.flatMap partBases := by
  simp [bases, h]

theorem sliceL_length {α} (l : List α) (a b : Nat) (h : b ≤ l.length) : (sliceL l a b).length = b - a := by
  simp [sliceL]; omega

/-- what `partsInside` says, as a statement -/
theorem partsInside_of (l r : Loc)
    (h : ∀ q ∈ r.parts, ∃ p ∈ l.parts, p.lo ≤ q.lo ∧ q.lo < q.hi ∧ q.hi ≤ p.hi ∧ q.strand = p.strand) :
    partsInside l r = true := by
  simp only [partsInside, List.all_eq_true, List.any_eq_true, Bool.and_eq_true, decide_eq_true_eq, beq_iff_eq]
  intro q hq
  obtain ⟨p, hp, h1, h2, h3, h4⟩ := h q hq
  exact ⟨p, hp, ⟨⟨⟨h1, h2⟩, h3⟩, h4⟩⟩

/-- `get_sub_location_from_offsets` on a well-formed gene, offsets inside the gene -/
theorem subLocationFromOffsets_slice (l : Loc) (hwf : geneWF l = true) (s e : Nat) (hse : s < e)
    (he : (e : Int) ≤ l.len) :
    ∃ r, subLocationFromOffsets l s e = .ok r ∧ bases r = sliceL (bases l) s e ∧
      (∀ q ∈ r.parts, ∃ p ∈ l.parts, p.lo ≤ q.lo ∧ q.lo < q.hi ∧ q.hi ≤ p.hi ∧ q.strand = p.strand) := by
  obtain ⟨_, hparts⟩ := (geneWF_iff l).mp hwf
  have hle : ∀ p ∈ l.parts, p.lo ≤ p.hi := fun p hp => Int.le_of_lt (hparts p hp).1
  have hlen := len_eq_bases_length l hle
  have hb := subParts_bases (isRev l) l.strand rfl l.parts 0 s e
    (fun p hp => ⟨hle p hp, by simp [isRev, (hparts p hp).2]⟩)
  have hslice : (subParts (isRev l) l.strand l.parts 0 s e).flatMap partBases = sliceL (bases l) s e := by
    rw [hb]; simp [sliceL, bases]
  have hne : subParts (isRev l) l.strand l.parts 0 s e ≠ [] := by
    intro h0
    have := congrArg List.length hslice
    rw [h0, sliceL_length _ _ _ (by omega)] at this
    simp at this; omega
  obtain ⟨r, hr, hrp⟩ := locOfNewParts_ok _ hne
  refine ⟨r, ?_, ?_, ?_⟩
  · have hg : (decide (0 ≤ (s : Int)) && decide ((s : Int) < e) && decide ((e : Int) ≤ l.len)) = true := by
      simp; omega
    simp only [subLocationFromOffsets, hg, Bool.not_true, Bool.false_eq_true, if_false, hr]
  · rw [bases_of_parts r _ hrp, hslice]
  · intro q hq
    rw [hrp] at hq
    obtain ⟨p, hp, h1, h2, h3, h4⟩ := subParts_inside _ _ l.parts 0 s e hle q hq
    exact ⟨p, hp, h1, h2, h3, by rw [h4, (hparts p hp).2]⟩

/-! ### `Feature.get_sub_location_from_protein_coordinates` -/

theorem convert_simple (p : Part) (s e : Int) (h0 : 0 ≤ s) (hse : s < e) (he : e ≤ (p.hi - p.lo) / 3) :
    convertProteinToDna s e (.simple p)
      = .ok (if p.strand == .rev then (p.hi - e * 3, p.hi - s * 3) else (p.lo + s * 3, p.lo + e * 3)) := by
  have h3 : 3 * e ≤ p.hi - p.lo := by omega
  cases hrev : (p.strand == Strand.rev) <;>
    simp [convertProteinToDna, Loc.len, Loc.parts, Part.len, isRev, Loc.strand, Loc.start, Loc.end, hrev]
  · rw [if_neg (by omega), if_neg (by omega)]
  · rw [if_neg (by omega), if_neg (by omega)]
    congr 2 <;> omega

/-- the simple-location branch of `get_sub_location_from_protein_coordinates` (through
    `convert_protein_position_to_dna` and the containment checks) -/
theorem subLocation_simple (p : Part) (s e : Nat) (hse : s < e)
    (he : (e : Int) ≤ (p.hi - p.lo) / 3) :
    subLocation (.simple p) s e
      = .ok (.simple (slicePart (p.strand == .rev) p.strand p (3 * s) (3 * e))) := by
  have h3 : 3 * (e : Int) ≤ p.hi - p.lo := by omega
  have hc := convert_simple p s e (by omega) (by omega) he
  cases hrev : (p.strand == Strand.rev) <;> rw [hrev] at hc <;>
    simp [subLocation, hc, Res.bind, Loc.len, Loc.parts, Part.len, Loc.strand, Loc.mem, Part.mem, Loc.end, slicePart]
  all_goals
    rw [if_neg (by omega), if_neg (by omega), if_neg (by omega), if_neg (by omega), if_neg (by omega),
      if_neg (by rintro ⟨⟨h1, _⟩, _, h4⟩; omega)]
    congr 3 <;> omega
/-- residues `[s,e)` inside the gene: the sub-location lists exactly nucleotides `[3s,3e)` of the gene
    in transcription order, and each of its parts lies inside an exon -/
theorem subLocation_slice (l : Loc) (hwf : geneWF l = true) (s e : Nat) (hse : s < e)
    (he : (e : Int) ≤ l.len / 3) :
    ∃ r, subLocation l s e = .ok r ∧ bases r = sliceL (bases l) (3 * s) (3 * e) ∧
      (∀ q ∈ r.parts, ∃ p ∈ l.parts, p.lo ≤ q.lo ∧ q.lo < q.hi ∧ q.hi ≤ p.hi ∧ q.strand = p.strand) := by
  cases l with
  | compound ps =>
    obtain ⟨r, hr, hb, hi⟩ := subLocationFromOffsets_slice (.compound ps) hwf (3 * s) (3 * e) (by omega)
      (by push_cast; omega)
    refine ⟨r, ?_, hb, hi⟩
    have c1 : (decide (0 ≤ (s : Int)) && decide ((s : Int) ≤ (Loc.compound ps).len / 3 - 1)) = true := by
      simp; omega
    have c2 : (decide (1 ≤ (e : Int)) && decide ((e : Int) ≤ (Loc.compound ps).len / 3)) = true := by
      simp; omega
    have c3 : ¬ ((s : Int) ≥ e) := by omega
    have e1 : (s : Int) * 3 = ((3 * s : Nat) : Int) := by push_cast; omega
    have e2 : (e : Int) * 3 = ((3 * e : Nat) : Int) := by push_cast; omega
    simp only [subLocation, c1, c2, c3, Bool.not_true, Bool.false_eq_true, if_false, e1, e2, hr]
  | simple p =>
    obtain ⟨_, hparts⟩ := (geneWF_iff _).mp hwf
    have hp := (hparts p (by simp [Loc.parts])).1
    have hlen : (Loc.simple p).len = p.hi - p.lo := by simp [Loc.len, Loc.parts, Part.len]
    rw [hlen] at he
    have h3 : 3 * (e : Int) ≤ p.hi - p.lo := by omega
    refine ⟨_, subLocation_simple p s e hse he, ?_, ?_⟩
    · have := slicePart_bases (p.strand == .rev) p.strand p (3 * s) (3 * e) rfl rfl (by omega) (by omega) h3
      simp only [bases, Loc.parts, List.flatMap_cons, List.flatMap_nil, List.append_nil, this, sliceL]
      have e1 : (3 * (s : Int)).toNat = 3 * s := by omega
      have e2 : (3 * (e : Int)).toNat = 3 * e := by omega
      rw [e1, e2]
    · intro q hq
      simp only [Loc.parts, List.mem_singleton] at hq
      subst hq
      refine ⟨p, by simp [Loc.parts], ?_⟩
      cases (p.strand == Strand.rev) <;> simp only [slicePart, Bool.false_eq_true, if_false, if_true] <;>
        refine ⟨by omega, by omega, by omega, trivial⟩

/-- everything else is refused -/
theorem subLocation_refuses (l : Loc) (s e : Int) (h : ¬ (0 ≤ s ∧ s < e ∧ e ≤ l.len / 3)) :
    subLocation l s e = .valueError := by
  unfold subLocation
  split
  · rfl
  · split
    · rfl
    · split
      · rfl
      · rename_i h1 h2 h3
        simp at h1 h2 h3
        omega

/-! ### extraction and translation -/

/-- on a one-strand location `extract` is `bases` mapped through the sequence (complemented on −) -/
theorem extract_uniform {β} (seq : Int → β) (compl : β → β) (l : Loc) (st : Strand)
    (h : ∀ p ∈ l.parts, p.strand = st) :
    extract seq compl l = (bases l).map (fun i => if st == .rev then compl (seq i) else seq i) := by
  unfold extract bases
  generalize l.parts = ps at h
  induction ps with
  | nil => simp
  | cons p ps ih =>
    have hp := h p List.mem_cons_self
    simp only [List.flatMap_cons, List.map_append, ih (fun q hq => h q (List.mem_cons_of_mem _ hq)), hp]
    cases hs : (st == Strand.rev) <;> simp

theorem codons_drop {β} (k : Nat) (l : List β) : codons (l.drop (3 * k)) = (codons l).drop k := by
  induction k generalizing l with
  | zero => simp
  | succ k ih =>
    match l with
    | [] => simp [codons]
    | [_] =>
      have : 3 * (k + 1) = 3 * k + 1 + 1 + 1 := by omega
      simp [codons, this]
    | [_, _] =>
      have : 3 * (k + 1) = 3 * k + 1 + 1 + 1 := by omega
      simp [codons, this]
    | a :: b :: c :: rest =>
      have : 3 * (k + 1) = 3 * k + 1 + 1 + 1 := by omega
      simp only [this, List.drop_succ_cons, codons, ih]

theorem codons_take {β} (k : Nat) (l : List β) : codons (l.take (3 * k)) = (codons l).take k := by
  induction k generalizing l with
  | zero => simp [codons]
  | succ k ih =>
    match l with
    | [] => simp [codons]
    | [_] =>
      have : 3 * (k + 1) = 3 * k + 1 + 1 + 1 := by omega
      simp [codons, this]
    | [_, _] =>
      have : 3 * (k + 1) = 3 * k + 1 + 1 + 1 := by omega
      simp [codons, this]
    | a :: b :: c :: rest =>
      have : 3 * (k + 1) = 3 * k + 1 + 1 + 1 := by omega
      simp only [this, List.take_succ_cons, codons, ih]

/-- translating nucleotides `[3s,3e)` gives residues `[s,e)` of the translation (any genetic code) -/
theorem translate_slice {β γ} (code : β × β × β → γ) (dna : List β) (s e : Nat) :
    translate code (sliceL dna (3 * s) (3 * e)) = sliceL (translate code dna) s e := by
  have : 3 * e - 3 * s = 3 * (e - s) := by omega
  simp only [translate, sliceL, this, codons_take, codons_drop, List.map_take, List.map_drop]

/-- consecutive slices concatenate -/
theorem sliceL_append {α} (l : List α) (a b c : Nat) (hab : a ≤ b) (hbc : b ≤ c) :
    sliceL l a b ++ sliceL l b c = sliceL l a c := by
  unfold sliceL
  have h1 : c - a = (b - a) + (c - b) := by omega
  have h2 : b = a + (b - a) := by omega
  rw [h1, List.take_add, List.drop_drop, ← h2]

theorem sliceL_zero {α} (l : List α) (b : Nat) : sliceL l 0 b = l.take b := by simp [sliceL]

/-! ### TTA markers -/

theorem tta_marker (l : Loc) (hwf : geneWF l = true) (off : Nat) (h : (off : Int) + 3 ≤ l.len) :
    ∃ r, subLocationFromOffsets l off (off + 3) = .ok r ∧ bases r = sliceL (bases l) off (off + 3) ∧
      (∀ q ∈ r.parts, ∃ p ∈ l.parts, p.lo ≤ q.lo ∧ q.lo < q.hi ∧ q.hi ≤ p.hi ∧ q.strand = p.strand) ∧
      ttaLocation l off = (if containsOverlappingExons r then .valueError else .ok r) ∧
      ttaDetectMarker l off = .ok (if containsOverlappingExons r then none else some r) := by
  obtain ⟨r, hr, hb, hi⟩ := subLocationFromOffsets_slice l hwf off (off + 3) (by omega) (by push_cast; omega)
  have hr' : subLocationFromOffsets l (off : Int) ((off : Int) + 3) = .ok r := by
    have : ((off + 3 : Nat) : Int) = (off : Int) + 3 := by push_cast; rfl
    rw [← this]; exact hr
  refine ⟨r, hr', hb, hi, ?_, ?_⟩
  · simp only [ttaLocation, hr', featureAt, Res.bind]
  · simp only [ttaDetectMarker, hr', Res.bind]

/-! ### prepeptide sections -/

def optBases : Option Loc → List Int
  | none => []
  | some r => bases r

theorem len_nonneg (l : Loc) (hwf : geneWF l = true) : 0 ≤ l.len := by
  obtain ⟨_, hparts⟩ := (geneWF_iff l).mp hwf
  rw [len_eq_bases_length l (fun p hp => Int.le_of_lt (hparts p hp).1)]
  omega

/-- a section (sub-location) of a gene: non-empty parts, all non-empty, all on the gene's strand -/
def SectionOK (st : Strand) (r : Loc) : Prop :=
  r.parts ≠ [] ∧ ∀ q ∈ r.parts, q.lo < q.hi ∧ q.strand = st

theorem subLocation_section (l : Loc) (hwf : geneWF l = true) (s e : Nat) (hse : s < e)
    (he : (e : Int) ≤ l.len / 3) :
    ∃ r, subLocation l s e = .ok r ∧ bases r = sliceL (bases l) (3 * s) (3 * e) ∧ SectionOK l.strand r := by
  obtain ⟨r, hr, hb, hi⟩ := subLocation_slice l hwf s e hse he
  obtain ⟨_, hparts⟩ := (geneWF_iff l).mp hwf
  have hlen := len_eq_bases_length l (fun p hp => Int.le_of_lt (hparts p hp).1)
  refine ⟨r, hr, hb, ?_, ?_⟩
  · intro h0
    have : (bases r).length = 3 * e - 3 * s := by rw [hb, sliceL_length _ _ _ (by omega)]
    simp [bases, h0] at this
    omega
  · intro q hq
    obtain ⟨p, hp, _, h2, _, h4⟩ := hi q hq
    exact ⟨h2, by rw [h4, (hparts p hp).2]⟩

theorem prepeptide_sections (l : Loc) (hwf : geneWF l = true) (ld tl : Nat)
    (h : (ld : Int) + tl < l.len / 3) :
    ∃ a c b, prepeptideSections l ld tl = .ok (a, c, b) ∧
      (a = none ↔ ld = 0) ∧ (b = none ↔ tl = 0) ∧
      optBases a = sliceL (bases l) 0 (3 * ld) ∧
      bases c = sliceL (bases l) (3 * ld) (3 * ((l.len / 3).toNat - tl)) ∧
      optBases b = sliceL (bases l) (3 * ((l.len / 3).toNat - tl)) (3 * (l.len / 3).toNat) ∧
      (∀ r, (a = some r ∨ c = r ∨ b = some r) → SectionOK l.strand r) := by
  have hpos := len_nonneg l hwf
  generalize hT : (l.len / 3).toNat = T
  have hTi : l.len / 3 = (T : Int) := by omega
  have e1 : (T : Int) - (tl : Int) = ((T - tl : Nat) : Int) := by omega
  obtain ⟨c, hc, hcb, hcok⟩ := subLocation_section l hwf ld (T - tl) (by omega) (by omega)
  -- leader
  have hlead : ∃ a, (if (ld : Int) ≠ 0 then (subLocation l 0 ld).bind fun r => Res.ok (some r) else Res.ok none)
      = .ok a ∧ (a = none ↔ ld = 0) ∧ optBases a = sliceL (bases l) 0 (3 * ld) ∧
        (∀ r, a = some r → SectionOK l.strand r) := by
    by_cases h0 : ld = 0
    · subst h0; exact ⟨none, by simp, by simp, by simp [optBases, sliceL], by simp⟩
    · obtain ⟨a, ha, hab, haok⟩ := subLocation_section l hwf 0 ld (by omega) (by omega)
      have ha' : subLocation l 0 (ld : Int) = .ok a := by simpa using ha
      refine ⟨some a, ?_, by simp [h0], by simpa [optBases] using hab, fun r hr => by cases hr; exact haok⟩
      have : (ld : Int) ≠ 0 := by omega
      simp only [this, ne_eq, not_false_eq_true, if_true, ha', Res.bind]
  obtain ⟨a, ha, ha0, hab, haok⟩ := hlead
  by_cases ht : tl = 0
  · refine ⟨a, c, none, ?_, ha0, by simp [ht], hab, hcb, ?_, ?_⟩
    rotate_left 2
    · rintro r (h | h | h)
      · exact haok r h
      · subst h; exact hcok
      · cases h
    · simp only [prepeptideSections]
      rw [ha, hTi, e1, hc]
      have : ¬ ((tl : Int) ≠ 0) := by omega
      rw [if_neg this]
      simp only [Res.bind]
    · subst ht; simp [optBases, sliceL]
  · obtain ⟨b, hb, hbb, hbok⟩ := subLocation_section l hwf (T - tl) T (by omega) (by omega)
    refine ⟨a, c, some b, ?_, ha0, by simp [ht], hab, hcb, by simpa [optBases] using hbb, ?_⟩
    rotate_left 1
    · rintro r (h | h | h)
      · exact haok r h
      · subst h; exact hcok
      · cases h; exact hbok
    simp only [prepeptideSections]
    rw [ha, hTi, e1, hc, hb]
    have : (tl : Int) ≠ 0 := by omega
    rw [if_pos this]
    simp only [Res.bind]

/-! ### codon_start frameshift -/

/-- shifting one exon by `k ≤ len` bases drops its first `k` transcribed bases -/
theorem adjustSingle_shift (p : Part) (k : Int) (h0 : 0 ≤ k) (hk : k ≤ p.hi - p.lo) :
    ∃ q, adjustSingle p (if p.strand == .rev then -k else k) = .ok q ∧
      partBases q = (partBases p).drop k.toNat ∧ q.strand = p.strand ∧
      q = slicePart (p.strand == .rev) p.strand p k (p.hi - p.lo) := by
  have hb := slicePart_bases (p.strand == .rev) p.strand p k (p.hi - p.lo) rfl rfl h0 hk (Int.le_refl _)
  have htake : ((partBases p).drop k.toNat).take ((p.hi - p.lo).toNat - k.toNat) = (partBases p).drop k.toNat := by
    apply List.take_of_length_le
    simp [partBases_length]
  rw [htake] at hb
  cases hrev : (p.strand == Strand.rev) <;> rw [hrev] at hb
  · refine ⟨⟨p.lo + k, p.hi, p.strand⟩, ?_, ?_, rfl, ?_⟩
    · simp only [adjustSingle, hrev, Bool.false_eq_true, if_false]
      rw [if_neg (by simp; omega)]
    · rw [← hb]; simp only [slicePart, Bool.false_eq_true, if_false]; congr 2; omega
    · simp only [slicePart, Bool.false_eq_true, if_false]; congr 1; omega
  · refine ⟨⟨p.lo, p.hi - k, p.strand⟩, ?_, ?_, rfl, ?_⟩
    · simp only [adjustSingle, hrev, if_true]
      rw [if_neg (by simp; omega)]
      simp [Int.sub_eq_add_neg]
    · rw [← hb]; simp only [slicePart, if_true]; congr 2; omega
    · simp only [slicePart, if_true]; congr 1; omega


theorem strand_cons_congr (p q : Part) (rest : List Part) (h : q.strand = p.strand) :
    (Loc.compound (q :: rest)).strand = (Loc.compound (p :: rest)).strand := by
  simp [Loc.strand, h]

theorem firstLen_le (l : Loc) (p : Part) (rest : List Part) (h : l.parts = p :: rest) : firstLen l = p.hi - p.lo := by
  simp [firstLen, h, Part.len]

/-- `frameshift_location_by_qualifier(location, c)` under its guard: the first `c-1` transcribed
    bases are dropped, nothing else changes -/
theorem frameshift_shift (l : Loc) (hwf : geneWF l = true) (c : Int) (hg : frameGuard l c false = true) :
    ∃ l', frameshift l c false = .ok l' ∧ bases l' = (bases l).drop (c - 1).toNat ∧ l'.strand = l.strand := by
  obtain ⟨hne, hparts⟩ := (geneWF_iff l).mp hwf
  simp only [frameGuard, Bool.and_eq_true, Bool.or_eq_true, decide_eq_true_eq, Bool.false_or,
    Bool.not_eq_true'] at hg
  obtain ⟨⟨hc1, hc3⟩, hg⟩ := hg
  have hrange : (decide (0 ≤ c - 1) && decide (c - 1 ≤ 2)) = true := by simp; omega
  by_cases hone : c = 1
  · subst hone
    refine ⟨l, ?_, by simp, rfl⟩
    simp [frameshift, adjustByOffset]
  · obtain ⟨hlen, hout⟩ := hg.resolve_left hone
    have hoff : (if isRev l then -(c - 1) else c - 1) ≠ 0 := by split <;> omega
    have hoffr : (decide (-2 ≤ (if isRev l then -(c - 1) else c - 1)) &&
        decide ((if isRev l then -(c - 1) else c - 1) ≤ 2)) = true := by split <;> simp <;> omega
    cases l with
    | simple p =>
      have hp := hparts p (by simp [Loc.parts])
      obtain ⟨q, hq, hqb, hqs, _⟩ := adjustSingle_shift p (c - 1) (by omega)
        (by rw [firstLen_le _ p [] rfl] at hlen; exact hlen)
      have hrev : isRev (Loc.simple p) = (p.strand == .rev) := rfl
      refine ⟨.simple q, ?_, ?_, ?_⟩
      · simp only [frameshift, hrange, Bool.not_true, Bool.false_eq_true, if_false, adjustByOffset,
          if_neg hoff, hoffr]
        rw [hrev, hq]; rfl
      · simp [bases, Loc.parts, hqb]
      · simp [Loc.strand, hqs]
    | compound ps =>
      match ps, hne with
      | p :: rest, _ =>
        have hp := hparts p (by simp [Loc.parts])
        obtain ⟨q, hq, hqb, hqs, _⟩ := adjustSingle_shift p (c - 1) (by omega)
          (by rw [firstLen_le _ p rest rfl] at hlen; exact hlen)
        have hrev : isRev (Loc.compound (p :: rest)) = (p.strand == .rev) := by
          simp [isRev, hp.2]
        refine ⟨.compound (q :: rest), ?_, ?_, strand_cons_congr p q rest hqs⟩
        · have hassert : (!bridgesOrigin (Loc.compound (p :: rest)) &&
              (if isRev (Loc.compound (p :: rest)) then decide (p.hi ≠ (Loc.compound (p :: rest)).end)
               else decide (p.lo ≠ (Loc.compound (p :: rest)).start))) = false := by
            simpa [firstExonNotOuter, isRev] using hout
          simp only [frameshift, hrange, Bool.not_true, Bool.false_eq_true, if_false, adjustByOffset,
            if_neg hoff, hoffr, hassert]
          rw [hrev, hq]; rfl
        · have hle : (c - 1).toNat ≤ (partBases p).length := by
            rw [partBases_length, firstLen_le _ p rest rfl] at *; omega
          simp only [bases, Loc.parts, List.flatMap_cons, hqb]
          rw [List.drop_append_of_le_length hle]

/-- undoing the shift of one exon restores it -/
theorem adjustSingle_unshift (p : Part) (k : Int) (hp : p.lo ≤ p.hi) :
    adjustSingle (slicePart (p.strand == .rev) p.strand p k (p.hi - p.lo))
      (if p.strand == .rev then k else -k) = .ok p := by
  cases hrev : (p.strand == Strand.rev)
  · simp only [slicePart, adjustSingle, hrev, Bool.false_eq_true, if_false]
    rw [if_neg (by simp; omega)]
    have : p.lo + k + -k = p.lo := by omega
    simp only [this]
    have : p.lo + (p.hi - p.lo) = p.hi := by omega
    simp only [this]
  · simp only [slicePart, adjustSingle, hrev, if_true]
    have e1 : p.hi - (p.hi - p.lo) = p.lo := by omega
    have e2 : p.hi - k + k = p.hi := by omega
    simp only [e1, e2]
    rw [if_neg (by omega)]

theorem frameshift_eq (l : Loc) (c : Int) (undo : Bool) (hc : 1 ≤ c ∧ c ≤ 3) :
    frameshift l c undo = adjustByOffset l (if isRev l != undo then -(c - 1) else c - 1) := by
  have hrange : (decide (0 ≤ c - 1) && decide (c - 1 ≤ 2)) = true := by simp; omega
  simp only [frameshift, hrange, Bool.not_true, Bool.false_eq_true, if_false]
  cases isRev l <;> cases undo <;> simp

theorem adjust_simple (p : Part) (off : Int) (h0 : off ≠ 0) (hr : -2 ≤ off ∧ off ≤ 2) :
    adjustByOffset (.simple p) off = (adjustSingle p off).bind fun q => .ok (.simple q) := by
  have : (decide (-2 ≤ off) && decide (off ≤ 2)) = true := by simp; omega
  simp only [adjustByOffset, if_neg h0, this, Bool.not_true, Bool.false_eq_true, if_false]

theorem adjust_compound (p : Part) (rest : List Part) (off : Int) (h0 : off ≠ 0) (hr : -2 ≤ off ∧ off ≤ 2)
    (ha : firstExonNotOuter (.compound (p :: rest)) = false) :
    adjustByOffset (.compound (p :: rest)) off
      = (adjustSingle p off).bind fun q => .ok (.compound (q :: rest)) := by
  have : (decide (-2 ≤ off) && decide (off ≤ 2)) = true := by simp; omega
  have hassert : (!bridgesOrigin (Loc.compound (p :: rest)) &&
      (if isRev (Loc.compound (p :: rest)) then decide (p.hi ≠ (Loc.compound (p :: rest)).end)
       else decide (p.lo ≠ (Loc.compound (p :: rest)).start))) = false := by
    simpa [firstExonNotOuter, isRev] using ha
  simp only [adjustByOffset, if_neg h0, this, Bool.not_true, Bool.false_eq_true, if_false, hassert]

/-- `to_biopython` after `from_biopython`: undoing the shift restores the location, provided the undo's
    own sanity assertion passes on the shifted location -/
theorem frameshift_roundtrip (l : Loc) (hwf : geneWF l = true) (c : Int) (hg : frameGuard l c false = true) :
    ∃ l', frameshift l c false = .ok l' ∧
      (firstExonNotOuter l' = false → frameshift l' c true = .ok l) := by
  obtain ⟨hne, hparts⟩ := (geneWF_iff l).mp hwf
  simp only [frameGuard, Bool.and_eq_true, Bool.or_eq_true, decide_eq_true_eq, Bool.false_or,
    Bool.not_eq_true'] at hg
  obtain ⟨⟨hc1, hc3⟩, hg⟩ := hg
  by_cases hone : c = 1
  · subst hone
    refine ⟨l, by simp [frameshift, adjustByOffset], fun _ => by simp [frameshift, adjustByOffset]⟩
  · obtain ⟨hlen, hout⟩ := hg.resolve_left hone
    rw [frameshift_eq l c false ⟨hc1, hc3⟩]
    cases l with
    | simple p =>
      have hp := hparts p (by simp [Loc.parts])
      obtain ⟨q, hq, _, hqs, hqe⟩ := adjustSingle_shift p (c - 1) (by omega)
        (by rw [firstLen_le _ p [] rfl] at hlen; exact hlen)
      have hun := adjustSingle_unshift p (c - 1) (Int.le_of_lt hp.1)
      rw [← hqe] at hun
      have hrev : isRev (Loc.simple p) = (p.strand == .rev) := rfl
      have hrev' : isRev (Loc.simple q) = (p.strand == .rev) := by simp [isRev, Loc.strand, hqs]
      refine ⟨.simple q, ?_, fun _ => ?_⟩
      · rw [adjust_simple p _ (by split <;> omega) (by split <;> omega), hrev]
        cases hr : (p.strand == Strand.rev) <;> rw [hr] at hq <;>
            simp only [Bool.false_eq_true, if_false, if_true] at hq <;> simp [hq, Res.bind]
      · rw [frameshift_eq _ c true ⟨hc1, hc3⟩, adjust_simple q _ (by split <;> omega) (by split <;> omega), hrev']
        cases hr : (p.strand == Strand.rev) <;> rw [hr] at hun <;>
            simp only [Bool.false_eq_true, if_false, if_true] at hun <;> simp [hun, Res.bind]
    | compound ps =>
      match ps, hne with
      | p :: rest, _ =>
        have hp := hparts p (by simp [Loc.parts])
        obtain ⟨q, hq, _, hqs, hqe⟩ := adjustSingle_shift p (c - 1) (by omega)
          (by rw [firstLen_le _ p rest rfl] at hlen; exact hlen)
        have hun := adjustSingle_unshift p (c - 1) (Int.le_of_lt hp.1)
        rw [← hqe] at hun
        have hrev : isRev (Loc.compound (p :: rest)) = (p.strand == .rev) := by simp [isRev, hp.2]
        have hrev' : isRev (Loc.compound (q :: rest)) = (p.strand == .rev) := by
          rw [← hrev]; simp only [isRev, strand_cons_congr p q rest hqs]
        refine ⟨.compound (q :: rest), ?_, fun hn => ?_⟩
        · rw [adjust_compound p rest _ (by split <;> omega) (by split <;> omega) hout, hrev]
          cases hr : (p.strand == Strand.rev) <;> rw [hr] at hq <;>
            simp only [Bool.false_eq_true, if_false, if_true] at hq <;> simp [hq, Res.bind]
        · rw [frameshift_eq _ c true ⟨hc1, hc3⟩,
            adjust_compound q rest _ (by split <;> omega) (by split <;> omega) hn, hrev']
          cases hr : (p.strand == Strand.rev) <;> rw [hr] at hun <;>
            simp only [Bool.false_eq_true, if_false, if_true] at hun <;> simp [hun, Res.bind]

theorem frameshift_refuses (l : Loc) (c : Int) (undo : Bool) (h : ¬ (1 ≤ c ∧ c ≤ 3)) :
    frameshift l c undo = .valueError := by
  have : (decide (0 ≤ c - 1) && decide (c - 1 ≤ 2)) = false := by
    simp only [Bool.and_eq_false_iff, decide_eq_false_iff_not]; omega
  simp only [frameshift, this, Bool.not_false, if_true]

theorem adjustSingle_too_far (p : Part) (k : Int) (hk : p.hi - p.lo < k) :
    adjustSingle p (if p.strand == .rev then -k else k) = .valueError := by
  cases hr : (p.strand == Strand.rev) <;> simp only [adjustSingle, hr, Bool.false_eq_true, if_false, if_true]
  · rw [if_pos (by omega)]
  · rw [if_pos (by omega)]

theorem adjust_compound_assert (p : Part) (rest : List Part) (off : Int) (h0 : off ≠ 0) (hr : -2 ≤ off ∧ off ≤ 2)
    (ha : firstExonNotOuter (.compound (p :: rest)) = true) :
    adjustByOffset (.compound (p :: rest)) off = .assertion := by
  have : (decide (-2 ≤ off) && decide (off ≤ 2)) = true := by simp; omega
  have hassert : (!bridgesOrigin (Loc.compound (p :: rest)) &&
      (if isRev (Loc.compound (p :: rest)) then decide (p.hi ≠ (Loc.compound (p :: rest)).end)
       else decide (p.lo ≠ (Loc.compound (p :: rest)).start))) = true := by
    simpa [firstExonNotOuter, isRev] using ha
  simp only [adjustByOffset, if_neg h0, this, Bool.not_true, Bool.false_eq_true, if_false, hassert, if_true]

/-- outside its guard the shift is refused (ValueError or the sanity AssertionError), never wrong -/
theorem frameshift_fails (l : Loc) (hwf : geneWF l = true) (c : Int) (hg : frameGuard l c false = false) :
    frameshift l c false = .valueError ∨ frameshift l c false = .assertion := by
  obtain ⟨hne, hparts⟩ := (geneWF_iff l).mp hwf
  by_cases hc : 1 ≤ c ∧ c ≤ 3
  · have hone : c ≠ 1 := by
      intro h1; subst h1; simp [frameGuard] at hg
    have hg' : ¬ (c - 1 ≤ firstLen l) ∨ firstExonNotOuter l = true := by
      simp only [frameGuard, Bool.and_eq_false_iff, Bool.or_eq_false_iff, decide_eq_false_iff_not,
        Bool.false_or, Bool.not_eq_false'] at hg
      rcases hg with (h | h) | ⟨_, h⟩
      · omega
      · omega
      · rcases h with h | h
        · exact Or.inl h
        · exact Or.inr (by simpa using h)
    rw [frameshift_eq l c false hc]
    cases l with
    | simple p =>
      have hfar : p.hi - p.lo < c - 1 := by
        rcases hg' with h | h
        · rw [firstLen_le _ p [] rfl] at h; omega
        · simp [firstExonNotOuter] at h
      have hrev : isRev (Loc.simple p) = (p.strand == .rev) := rfl
      left
      rw [adjust_simple p _ (by split <;> omega) (by split <;> omega), hrev]
      have := adjustSingle_too_far p (c - 1) hfar
      cases hr : (p.strand == Strand.rev) <;> rw [hr] at this <;>
        simp only [Bool.false_eq_true, if_false, if_true] at this <;> simp [this, Res.bind]
    | compound ps =>
      match ps, hne with
      | p :: rest, _ =>
        have hp := hparts p (by simp [Loc.parts])
        have hrev : isRev (Loc.compound (p :: rest)) = (p.strand == .rev) := by simp [isRev, hp.2]
        cases hout : firstExonNotOuter (Loc.compound (p :: rest))
        · have hfar : p.hi - p.lo < c - 1 := by
            rcases hg' with h | h
            · rw [firstLen_le _ p rest rfl] at h; omega
            · rw [hout] at h; cases h
          left
          rw [adjust_compound p rest _ (by split <;> omega) (by split <;> omega) hout, hrev]
          have := adjustSingle_too_far p (c - 1) hfar
          cases hr : (p.strand == Strand.rev) <;> rw [hr] at this <;>
            simp only [Bool.false_eq_true, if_false, if_true] at this <;> simp [this, Res.bind]
        · right
          exact adjust_compound_assert p rest _ (by split <;> omega) (by split <;> omega) hout
  · exact Or.inl (frameshift_refuses l c false hc)

/-- a sub-location (or any location cut from `l`'s exons on `l`'s strand) extracts to the slice -/
theorem extract_slice {β} (seq : Int → β) (compl : β → β) (l r : Loc) (hwf : geneWF l = true) (a b : Nat)
    (hb : bases r = sliceL (bases l) a b)
    (hi : ∀ q ∈ r.parts, ∃ p ∈ l.parts, p.lo ≤ q.lo ∧ q.lo < q.hi ∧ q.hi ≤ p.hi ∧ q.strand = p.strand) :
    extract seq compl r = sliceL (extract seq compl l) a b := by
  obtain ⟨_, hparts⟩ := (geneWF_iff l).mp hwf
  rw [extract_uniform seq compl l l.strand (fun p hp => (hparts p hp).2),
    extract_uniform seq compl r l.strand (fun q hq => by
      obtain ⟨p, hp, _, _, _, hs⟩ := hi q hq
      rw [hs, (hparts p hp).2]), hb]
  simp [sliceL, List.map_take, List.map_drop]

/-- the shifted gene is again a well-formed gene when the shift leaves the first exon non-empty -/
theorem frameshift_wf (l l' : Loc) (hwf : geneWF l = true) (c : Int) (hc : 1 ≤ c ∧ c ≤ 3)
    (h : frameshift l c false = .ok l') (hlen : c - 1 < firstLen l) : geneWF l' = true := by
  obtain ⟨hne, hparts⟩ := (geneWF_iff l).mp hwf
  by_cases hone : c = 1
  · subst hone
    have : frameshift l 1 false = .ok l := by simp [frameshift, adjustByOffset]
    rw [this] at h; cases h; exact hwf
  · rw [frameshift_eq l c false hc] at h
    cases l with
    | simple p =>
      have hp := hparts p (by simp [Loc.parts])
      rw [firstLen_le _ p [] rfl] at hlen
      have hrev : isRev (Loc.simple p) = (p.strand == .rev) := rfl
      rw [adjust_simple p _ (by split <;> omega) (by split <;> omega), hrev] at h
      obtain ⟨q, hq, _, hqs, hqe⟩ := adjustSingle_shift p (c - 1) (by omega) (by omega)
      have hl' : l' = .simple q := by
        cases hr : (p.strand == Strand.rev) <;> rw [hr] at hq h <;>
          simp only [Bool.false_eq_true, if_false, if_true, bne_self_eq_false, Bool.bne_false] at hq h <;>
          simp [hq, Res.bind] at h <;> exact h.symm
      subst hl'
      rw [geneWF_iff]
      refine ⟨by simp [Loc.parts], fun x hx => ?_⟩
      simp only [Loc.parts, List.mem_singleton] at hx
      subst hx
      refine ⟨?_, rfl⟩
      rw [hqe]
      cases (p.strand == Strand.rev) <;> simp only [slicePart, Bool.false_eq_true, if_false, if_true] <;> omega
    | compound ps =>
      match ps, hne with
      | p :: rest, _ =>
        have hp := hparts p (by simp [Loc.parts])
        rw [firstLen_le _ p rest rfl] at hlen
        have hrev : isRev (Loc.compound (p :: rest)) = (p.strand == .rev) := by simp [isRev, hp.2]
        obtain ⟨q, hq, _, hqs, hqe⟩ := adjustSingle_shift p (c - 1) (by omega) (by omega)
        cases hout : firstExonNotOuter (Loc.compound (p :: rest))
        · rw [adjust_compound p rest _ (by split <;> omega) (by split <;> omega) hout, hrev] at h
          have hl' : l' = .compound (q :: rest) := by
            cases hr : (p.strand == Strand.rev) <;> rw [hr] at hq h <;>
              simp only [Bool.false_eq_true, if_false, if_true, bne_self_eq_false, Bool.bne_false] at hq h <;>
              simp [hq, Res.bind] at h <;> exact h.symm
          subst hl'
          have hst := strand_cons_congr p q rest hqs
          rw [geneWF_iff]
          refine ⟨by simp [Loc.parts], fun x hx => ?_⟩
          simp only [Loc.parts, List.mem_cons] at hx
          rcases hx with hx | hx
          · subst hx
            refine ⟨?_, by rw [hst, hqs, hp.2]⟩
            rw [hqe]
            cases (p.strand == Strand.rev) <;> simp only [slicePart, Bool.false_eq_true, if_false, if_true] <;> omega
          · have := hparts x (by simp [Loc.parts, hx])
            exact ⟨this.1, by rw [hst, this.2]⟩
        · rw [adjust_compound_assert p rest _ (by split <;> omega) (by split <;> omega) hout] at h
          cases h

end ASV.ProtDna
