/-
  C11 helper lemmas: the Outcome monad, `mapO`, `lookup` on literal key lists, text round trip of
  integers, sets of strings as sorted lists, and the per-class round trips of the NRPS/PKS chain.
-/
import ASV.Spec.Results
namespace ASV.Results

@[simp] theorem bind_reuse {α β} (a : α) (f : α → Outcome β) : (Outcome.reuse a >>= f) = f a := rfl
@[simp] theorem bind_discard {α β} (f : α → Outcome β) : ((Outcome.discard : Outcome α) >>= f) = .discard := rfl
@[simp] theorem bind_refuse {α β} (e : Err) (f : α → Outcome β) : ((Outcome.refuse e : Outcome α) >>= f) = .refuse e := rfl
@[simp] theorem pure_eq_reuse {α} (a : α) : (pure a : Outcome α) = .reuse a := rfl

theorem bind_eq_reuse {α β} {o : Outcome α} {f : α → Outcome β} {b : β} (h : (o >>= f) = .reuse b) :
    ∃ a, o = .reuse a ∧ f a = .reuse b := by
  cases o with
  | reuse a => exact ⟨a, rfl, h⟩
  | discard => simp at h
  | refuse e => simp at h

/-! ### exact decimals -/

theorem Dec.scaled_swap (a b : Dec) : Dec.scaled b a = ((Dec.scaled a b).2, (Dec.scaled a b).1) := by
  simp [Dec.scaled, Int.min_comm]

theorem Dec.le_eq_not_lt (a b : Dec) : Dec.le a b = !Dec.lt b a := by
  have hs := Dec.scaled_swap b a
  simp only [Dec.le, Dec.lt]
  rw [hs]
  generalize (Dec.scaled b a).1 = x
  generalize (Dec.scaled b a).2 = y
  by_cases h : x < y
  · have h' : ¬ y ≤ x := by omega
    simp [h, h']
  · have h' : y ≤ x := by omega
    simp [h, h']

theorem Dec.lt_eq_not_le (a b : Dec) : Dec.lt a b = !Dec.le b a := by
  rw [Dec.le_eq_not_lt]; simp

theorem Dec.scaled_self (a : Dec) : (Dec.scaled a a).1 = (Dec.scaled a a).2 := by
  simp [Dec.scaled]

theorem Dec.le_refl (a : Dec) : Dec.le a a = true := by
  simp only [Dec.le, Dec.scaled_self a]; simp

theorem Dec.lt_irrefl (a : Dec) : Dec.lt a a = false := by
  simp only [Dec.lt, Dec.scaled_self a]; simp

/-- decoding the encodings of a list element-wise gives the list back -/
theorem mapO_map {α β} (enc : α → β) (dec : β → Outcome α) :
    ∀ l : List α, (∀ x ∈ l, dec (enc x) = .reuse x) → mapO dec (l.map enc) = .reuse l
  | [], _ => rfl
  | x :: xs, h => by
    have hx := h x (by simp)
    have hxs := mapO_map enc dec xs (fun y hy => h y (by simp [hy]))
    simp [mapO, hx, hxs]

/-- variant with a map on the decoded side -/
theorem mapO_map' {α β γ} (enc : α → β) (dec : β → Outcome γ) (g : α → γ) :
    ∀ l : List α, (∀ x ∈ l, dec (enc x) = .reuse (g x)) → mapO dec (l.map enc) = .reuse (l.map g)
  | [], _ => rfl
  | x :: xs, h => by
    have hx := h x (by simp)
    have hxs := mapO_map' enc dec g xs (fun y hy => h y (by simp [hy]))
    simp [mapO, hx, hxs]

theorem mapO_reuse_length {α β} (f : α → Outcome β) :
    ∀ (l : List α) (r : List β), mapO f l = .reuse r → r.length = l.length
  | [], r, h => by simp [mapO] at h; subst h; rfl
  | x :: xs, r, h => by
    simp only [mapO] at h
    obtain ⟨y, _, h⟩ := bind_eq_reuse h
    obtain ⟨ys, hys, h⟩ := bind_eq_reuse h
    simp at h; subst h
    simp [mapO_reuse_length f xs ys hys]

@[simp] theorem asStrs_jStrs (l : List String) : asStrs (jStrs l) = .reuse l := by
  simp only [asStrs, jStrs]
  exact mapO_map J.str asStr l (fun _ _ => rfl)

/-! ### HMMResult -/

theorem all_of_forall {α} (p : α → Bool) (l : List α) (h : ∀ x ∈ l, p x = true) : l.all p = true := by
  simp [List.all_eq_true]; exact h

namespace HMMResult

theorem validAll_iff : ∀ l : List HMMResult, validAll l = true ↔ ∀ h ∈ l, h.valid = true
  | [] => by simp [validAll]
  | x :: xs => by simp [validAll, validAll_iff xs]

mutual
theorem fromJson_toJson : ∀ h : HMMResult, h.valid = true → fromJson (toJson h) = .reuse h
  | .mk hitId qs qe ev bs kids, hv => by
    simp only [valid, Bool.and_eq_true] at hv
    have hk := fromList_toJsons kids hv.2
    cases kids with
    | nil => simp [toJson, fromJson, kidsOf, reqStr, reqInt, reqNum, lookup, make]
    | cons k ks =>
      simp [toJson, fromJson, kidsOf, fromArr, reqStr, reqInt, reqNum, lookup, make, hk]
      have h1 := hv.1
      simp only [List.all_eq_true] at h1
      exact ⟨h1 k (by simp), fun a ha => h1 a (by simp [ha])⟩
theorem fromList_toJsons : ∀ l : List HMMResult, validAll l = true → fromList (toJsons l) = .reuse l
  | [], _ => by simp [toJsons, fromList]
  | h :: t, hv => by
    simp only [validAll, Bool.and_eq_true] at hv
    simp [toJsons, fromList, fromJson_toJson h hv.1, fromList_toJsons t hv.2]
end

theorem toJsons_eq_map : ∀ l : List HMMResult, toJsons l = l.map toJson
  | [] => rfl
  | h :: t => by simp [toJsons, toJsons_eq_map t]

/-- `from_json` only ever produces objects that satisfy the class invariant -/
theorem make_valid {hitId qs qe ev bs kids h} (hk : validAll kids = true)
    (hm : make hitId qs qe ev bs kids = .reuse h) : h.valid = true := by
  unfold make at hm
  split at hm
  · rename_i hall
    simp at hm; subst hm
    simp [valid, hall, hk]
  · simp at hm

mutual
theorem fromJson_valid : ∀ (j : J) (h : HMMResult), fromJson j = .reuse h → h.valid = true
  | .obj kv, h, hj => by
    simp only [fromJson] at hj
    obtain ⟨kids, hkids, hj⟩ := bind_eq_reuse hj
    obtain ⟨_, _, hj⟩ := bind_eq_reuse hj
    obtain ⟨_, _, hj⟩ := bind_eq_reuse hj
    obtain ⟨_, _, hj⟩ := bind_eq_reuse hj
    obtain ⟨_, _, hj⟩ := bind_eq_reuse hj
    obtain ⟨_, _, hj⟩ := bind_eq_reuse hj
    exact make_valid (kidsOf_valid kv kids hkids) hj
  | .null, _, hj => by simp [fromJson] at hj
  | .bool _, _, hj => by simp [fromJson] at hj
  | .int _, _, hj => by simp [fromJson] at hj
  | .num _, _, hj => by simp [fromJson] at hj
  | .str _, _, hj => by simp [fromJson] at hj
  | .arr _, _, hj => by simp [fromJson] at hj
theorem kidsOf_valid : ∀ (kv : List (String × J)) (l : List HMMResult), kidsOf kv = .reuse l → validAll l = true
  | [], l, h => by simp [kidsOf] at h; subst h; rfl
  | (k, v) :: rest, l, h => by
    simp only [kidsOf] at h
    split at h
    · exact fromArr_valid v l h
    · exact kidsOf_valid rest l h
theorem fromArr_valid : ∀ (j : J) (l : List HMMResult), fromArr j = .reuse l → validAll l = true
  | .arr xs, l, h => by simp only [fromArr] at h; exact fromList_valid xs l h
  | .null, _, h => by simp [fromArr] at h
  | .bool _, _, h => by simp [fromArr] at h
  | .int _, _, h => by simp [fromArr] at h
  | .num _, _, h => by simp [fromArr] at h
  | .str _, _, h => by simp [fromArr] at h
  | .obj _, _, h => by simp [fromArr] at h
theorem fromList_valid : ∀ (xs : List J) (l : List HMMResult), fromList xs = .reuse l → validAll l = true
  | [], l, h => by simp [fromList] at h; subst h; rfl
  | x :: xs, l, h => by
    simp only [fromList] at h
    obtain ⟨a, ha, h⟩ := bind_eq_reuse h
    obtain ⟨t, ht, h⟩ := bind_eq_reuse h
    simp at h; subst h
    simp [validAll, fromJson_valid x a ha, fromList_valid xs t ht]
end

end HMMResult

/-! ### Component, Module, CDSResult, NRPSPKSDomains -/

theorem Component.fromJson_toJson (r : ModRules) (c : Component) (hv : c.valid r = true) :
    Component.fromJson r c.toJson = .reuse c := by
  simp only [Component.valid, Bool.and_eq_true, Bool.not_eq_true'] at hv
  obtain ⟨⟨h1, h2⟩, h3⟩ := hv
  have hd := HMMResult.fromJson_toJson c.domain h1
  have h3' : ¬ c.locus = "" := by
    intro h; rw [h] at h3; simp at h3
  simp [Component.toJson, Component.fromJson, lookup, reqStr, hd, h2, h3']

theorem Module.fromJson_toJson (r : ModRules) (m : Module) (hv : m.valid r = true) :
    Module.fromJson r m.toJson = .reuse m := by
  simp only [Module.valid, Bool.and_eq_true, List.all_eq_true] at hv
  have hc := mapO_map Component.toJson (Component.fromJson r) m.components
    (fun c hc => Component.fromJson_toJson r c (hv.1 c hc))
  simp [Module.toJson, Module.fromJson, lookup, reqArr, hc, hv.2]

theorem CDSResult.fromJson_toJson (r : ModRules) (c : CDSResult) (hv : c.valid r = true) :
    CDSResult.fromJson r c.toJson = .reuse c := by
  simp only [CDSResult.valid, Bool.and_eq_true, List.all_eq_true] at hv
  have h1 := mapO_map HMMResult.toJson HMMResult.fromJson c.domainHmms (fun h hh => HMMResult.fromJson_toJson h (hv.1.1 h hh))
  have h2 := mapO_map HMMResult.toJson HMMResult.fromJson c.motifHmms (fun h hh => HMMResult.fromJson_toJson h (hv.1.2 h hh))
  have h3 := mapO_map Module.toJson (Module.fromJson r) c.modules (fun m hm => Module.fromJson_toJson r m (hv.2 m hm))
  simp [CDSResult.toJson, CDSResult.fromJson, lookup, reqArr, h1, h2, h3]

theorem NrpsPks.fromJson_toJson (r : ModRules) (ctx : Ctx) (x : NrpsPks) (hv : x.valid r ctx = true) :
    NrpsPks.fromJson r ctx x.toJson = .reuse x := by
  simp only [NrpsPks.valid, Bool.and_eq_true, List.all_eq_true, beq_iff_eq] at hv
  obtain ⟨hid, hall⟩ := hv
  have hitems := mapO_map (fun p : String × CDSResult => (p.1, p.2.toJson)) (NrpsPks.itemFromJson r ctx) x.cds
    (fun p hp => by
      have := hall p hp
      have h1 : p.1 ∈ ctx.cdsNames := by simpa using this.1
      simp [NrpsPks.itemFromJson, h1, CDSResult.fromJson_toJson r p.2 this.2])
  cases x with
  | mk rid cds =>
    simp only at hid hitems; subst hid
    simp [NrpsPks.toJson, NrpsPks.fromJson, lookup, reqObj, isIntLit, isStrLit, hitems]

end ASV.Results
