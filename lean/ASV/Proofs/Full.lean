/-
  Helper lemmas for C20, part 5: `run_antismash` under every option it reads (early exits, profiling).
-/
import ASV.Proofs.Run
namespace ASV.WriteSafety
open ASV.PosixPath (Path Plain)

theorem takeWhile_prefix {α} (q : α → Bool) (a b : List α) (h : ∀ x ∈ a, q x = true) :
    (a ++ b).takeWhile q = a ++ b.takeWhile q := by
  induction a with
  | nil => rfl
  | cons x a ih =>
    have hx := h x (List.mem_cons_self ..)
    simp only [List.cons_append, List.takeWhile_cons, hx, if_true]
    rw [ih fun y hy => h y (List.mem_cons_of_mem _ hy)]

/-- the results file is never one of the profiling files -/
theorem jsonName_not_profiling (r : RunIn) : r.jsonName ≠ profBinName ∧ r.jsonName ≠ profTxtName := by
  obtain ⟨pre, h⟩ := jsonName_shape r
  constructor <;> intro e <;> rw [e] at h <;> have := congrArg List.reverse h <;> simp [profBinName, profTxtName] at this

theorem writeProfiling_dir (d : Dir) :
    (writeProfilingResults d).2 = (d.withFile profBinName [profBin]).withFile profTxtName [profTxt] := by
  simp [writeProfilingResults, openW_append]

/-- the five early exits, spelled out: logging's set-up and nothing else -/
theorem runFull_early (o : RunOpts) (r : RunIn) (h : stopsEarly o = true) :
    runFull o r =
      ⟨⟨(setupLogging (logPlace (effective r.call).1) (effective r.call).1.target).2, (earlyResult o).1,
        (setupLogging (logPlace (effective r.call).1) (effective r.call).1.target).1⟩, (earlyResult o).2⟩ := by
  unfold runFull earlyResult
  unfold stopsEarly at h
  cases h1 : o.listPlugins <;> cases h2 : o.checkPrereqsOnly <;> cases h3 : o.prereqsOk <;>
    cases h4 : o.optionsValid <;> cases h5 : o.anyModule <;> cases h6 : readData o.input <;> simp_all

/-- past the early exits the run is `_run_antismash`'s tail on the directory logging left -/
theorem runFull_late (o : RunOpts) (r : RunIn) (h : stopsEarly o = false) :
    runFull o r =
      let p := (effective r.call).1
      let s := setupLogging (logPlace p) p.target
      let out := runPipeline ⟨afterLogging p, r.results, r.jsonName⟩
      match out.err, out.target with
      | some e, t => ⟨⟨s.2 ++ out.trace ++ (if e == inputError then [.logErr] else []), some e, t⟩, none⟩
      | none, .dir es =>
        if o.profile then
          ⟨⟨s.2 ++ out.trace ++ (writeProfilingResults es).1, none, .dir (writeProfilingResults es).2⟩, some 0⟩
        else ⟨⟨s.2 ++ out.trace, none, .dir es⟩, some 0⟩
      | none, t => ⟨⟨s.2 ++ out.trace, none, t⟩, some 0⟩ := by
  unfold stopsEarly at h
  simp only [Bool.or_eq_false_iff, Bool.not_eq_false'] at h
  obtain ⟨⟨⟨⟨⟨h1, h2⟩, h3⟩, h4⟩, h5⟩, h6⟩ := h
  simp only [runFull, h1, h2, h3, h4, h5, h6, Bool.false_eq_true, if_false, Bool.not_true, runTail, RunIn.toPipe,
    RunIn.jsonName, effective_target, afterLogging]
  rfl


/-- **refused**, whatever the options: logging's set-up, the logged message, nothing else — no
    profiling files in particular -/
theorem runFull_refused (o : RunOpts) (r : RunIn) (wf : (effective r.call).1.WF = true)
    (he : stopsEarly o = false) (h : specAccepts (afterLogging (effective r.call).1) = false) :
    runFull o r =
      ⟨⟨(setupLogging (logPlace (effective r.call).1) (effective r.call).1.target).2 ++ [.logErr],
        some inputError, (afterLogging (effective r.call).1).target⟩, none⟩ := by
  rw [runFull_late o r he]
  have := pipeline_refused ⟨afterLogging (effective r.call).1, r.results, r.jsonName⟩
    (afterLogging_wf _ wf) h
  simp [this]

theorem runFull_fault (o : RunOpts) (r : RunIn) (wf : (effective r.call).1.WF = true)
    (he : stopsEarly o = false) (ha : specAccepts (afterLogging (effective r.call).1) = true)
    (hf : r.results.hasFault = true) :
    ∃ e, runFull o r =
      ⟨⟨(setupLogging (logPlace (effective r.call).1) (effective r.call).1.target).2 ++
          ((prepareOutputDir (afterLogging (effective r.call).1)).trace ++ .prepared ::
            (writeToFile r.results (.path r.jsonName) (preparedDir (afterLogging (effective r.call).1))).trace) ++
          (if e == inputError then [.logErr] else []),
        some e, .dir (preparedDir (afterLogging (effective r.call).1))⟩, none⟩ := by
  obtain ⟨e, hp⟩ := pipeline_fault ⟨afterLogging (effective r.call).1, r.results, r.jsonName⟩
    (afterLogging_wf _ wf) ha hf
  refine ⟨e, ?_⟩
  rw [runFull_late o r he]
  simp [hp]

theorem runFull_clean (o : RunOpts) (r : RunIn) (wf : (effective r.call).1.WF = true)
    (he : stopsEarly o = false) (ha : specAccepts (afterLogging (effective r.call).1) = true)
    (hf : r.results.hasFault = false) :
    runFull o r =
      let p := afterLogging (effective r.call).1
      let body := (prepareOutputDir p).trace ++ .prepared :: (convertRecords 0 r.results.records r.results.results).trace ++
          [.openW r.jsonName, .write r.jsonName, .annotated, .outputsWritten]
      let done := (preparedDir p).withFile r.jsonName (expectedFull r.results)
      let pre := (setupLogging (logPlace (effective r.call).1) (effective r.call).1.target).2
      if o.profile then
        ⟨⟨pre ++ body ++ [.openW profBinName, .write profBinName, .openW profTxtName, .write profTxtName], none,
          .dir ((done.withFile profBinName [profBin]).withFile profTxtName [profTxt])⟩, some 0⟩
      else ⟨⟨pre ++ body, none, .dir done⟩, some 0⟩ := by
  have hp := pipeline_clean ⟨afterLogging (effective r.call).1, r.results, r.jsonName⟩
    (afterLogging_wf _ wf) ha hf
  rw [runFull_late o r he]
  simp only [hp]
  cases o.profile
  · simp
  · simp only [if_true, writeProfiling_dir]
    rfl


/-- whenever the tail of the run ends in an exception, `run_antismash` with options is the plain
    `run_antismash` of `Proofs/Run.lean` (no option adds anything on that path) -/
theorem runFull_out_of_err (o : RunOpts) (r : RunIn) (he : stopsEarly o = false) (e : Exn)
    (h : (runPipeline ⟨afterLogging (effective r.call).1, r.results, r.jsonName⟩).err = some e) :
    (runFull o r).out = runAntismash r ∧ (runFull o r).code = none := by
  rw [runFull_late o r he, runAntismash_eq]
  simp only [h]
  constructor <;> simp

theorem not_profiling_of_not_file (ev : Ev) (h : (∀ n, ev ≠ .openW n) ∧ (∀ n, ev ≠ .write n)) :
    ev.isProfiling = false := by
  cases ev <;> simp_all [Ev.isProfiling]

theorem full_meets_spec (o : RunOpts) (r : RunIn) (wf : (effective r.call).1.WF = true) :
    specFull o r (runFull o r) = true := by
  cases he : stopsEarly o with
  | true =>
    rw [runFull_early o r he]
    simp [specFull, he]
  | false =>
    have wf' := afterLogging_wf _ wf
    cases ha : specAccepts (afterLogging (effective r.call).1) with
    | false =>
      have hx := runFull_refused o r wf he ha
      have hp := pipeline_refused ⟨afterLogging (effective r.call).1, r.results, r.jsonName⟩ wf' ha
      obtain ⟨h1, _⟩ := runFull_out_of_err o r he inputError (by rw [hp])
      have hs := run_meets_spec r wf
      rw [← h1] at hs
      simp only [specFull, he, ha, Bool.false_and, Bool.false_eq_true, if_false, hs, Bool.and_true]
      rw [hx]
      simp [Ev.isProfiling]
    | true =>
      cases hf : r.results.hasFault with
      | true =>
        obtain ⟨e, hx⟩ := runFull_fault o r wf he ha hf
        obtain ⟨e', hp⟩ := pipeline_fault ⟨afterLogging (effective r.call).1, r.results, r.jsonName⟩ wf' ha hf
        obtain ⟨h1, _⟩ := runFull_out_of_err o r he e' (by rw [hp])
        have hs := run_meets_spec r wf
        rw [← h1] at hs
        obtain ⟨_, _, hw⟩ := writeToFile_fault r.results (.path r.jsonName)
          (preparedDir (afterLogging (effective r.call).1)) hf
        have hall := pipeline_prefix_events ⟨afterLogging (effective r.call).1, r.results, r.jsonName⟩ wf' ha _ hw
        have hnp : ∃ M, runFull o r =
            ⟨⟨(setupLogging (logPlace (effective r.call).1) (effective r.call).1.target).2 ++ M, some e,
              .dir (preparedDir (afterLogging (effective r.call).1))⟩, none⟩ ∧ M.any Ev.isProfiling = false := by
          refine ⟨_, by rw [hx, List.append_assoc], ?_⟩
          rw [List.any_eq_false]
          intro x hxm
          rcases List.mem_append.1 hxm with hxm | hxm
          · have := hall x hxm
            simp [not_profiling_of_not_file x ⟨this.2.2.1, this.2.2.2⟩]
          · split at hxm
            · simp only [List.mem_singleton] at hxm
              subst hxm; simp [Ev.isProfiling]
            · simp at hxm
        obtain ⟨M, hxM, hM⟩ := hnp
        simp only [specFull, he, ha, hf, Bool.not_true, Bool.and_false, Bool.false_eq_true, if_false, hs,
          Bool.and_true]
        rw [hxM]
        simp [hM]
      | false =>
        have hx := runFull_clean o r wf he ha hf
        have hall := pipeline_prefix_events ⟨afterLogging (effective r.call).1, r.results, r.jsonName⟩ wf' ha _
          (fun ev hev => Or.inl (convertRecords_trace 0 r.results.records r.results.results ev hev))
        obtain ⟨hj1, hj2⟩ := jsonName_not_profiling r
        -- no event of the body is a profiling event
        have hbody : ∀ ev ∈ (prepareOutputDir (afterLogging (effective r.call).1)).trace ++ Ev.prepared ::
            (convertRecords 0 r.results.records r.results.results).trace ++
            [Ev.openW r.jsonName, Ev.write r.jsonName, Ev.annotated, Ev.outputsWritten],
            (fun e : Ev => !e.isProfiling) ev = true := by
          intro ev hev
          have hassoc : (prepareOutputDir (afterLogging (effective r.call).1)).trace ++ Ev.prepared ::
              (convertRecords 0 r.results.records r.results.results).trace ++
              [Ev.openW r.jsonName, Ev.write r.jsonName, Ev.annotated, Ev.outputsWritten] =
              ((prepareOutputDir (afterLogging (effective r.call).1)).trace ++ Ev.prepared ::
              (convertRecords 0 r.results.records r.results.results).trace) ++
              [Ev.openW r.jsonName, Ev.write r.jsonName, Ev.annotated, Ev.outputsWritten] := by simp
          rw [hassoc] at hev
          rcases List.mem_append.1 hev with hev | hev
          · have := hall ev hev
            simp [not_profiling_of_not_file ev ⟨this.2.2.1, this.2.2.2⟩]
          · simp only [List.mem_cons, List.not_mem_nil, or_false] at hev
            rcases hev with rfl | rfl | rfl | rfl <;> simp [Ev.isProfiling, hj1, hj2]
        have hq : ∀ ev ∈ (prepareOutputDir (afterLogging (effective r.call).1)).trace ++ Ev.prepared ::
            (convertRecords 0 r.results.records r.results.results).trace,
            (fun e : Ev => e != Ev.openW r.jsonName) ev = true := by
          intro ev hev
          simpa using (hall ev hev).2.2.1 r.jsonName
        have hd : ((prepareOutputDir (afterLogging (effective r.call).1)).trace ++ Ev.prepared ::
            (convertRecords 0 r.results.records r.results.results).trace ++
            [Ev.openW r.jsonName, Ev.write r.jsonName, Ev.annotated, Ev.outputsWritten]).dropWhile
              (fun e => e != Ev.openW r.jsonName) =
            [Ev.openW r.jsonName, Ev.write r.jsonName, Ev.annotated, Ev.outputsWritten] := by
          have hassoc : (prepareOutputDir (afterLogging (effective r.call).1)).trace ++ Ev.prepared ::
              (convertRecords 0 r.results.records r.results.results).trace ++
              [Ev.openW r.jsonName, Ev.write r.jsonName, Ev.annotated, Ev.outputsWritten] =
              ((prepareOutputDir (afterLogging (effective r.call).1)).trace ++ Ev.prepared ::
              (convertRecords 0 r.results.records r.results.results).trace) ++
              [Ev.openW r.jsonName, Ev.write r.jsonName, Ev.annotated, Ev.outputsWritten] := by simp
          rw [hassoc, dropWhile_prefix _ _ _ hq]
          simp
        simp only [specFull, he, ha, hf, Bool.not_false, Bool.and_self, if_true, Bool.false_eq_true, if_false]
        simp only [] at hx
        generalize hB : (prepareOutputDir (afterLogging (effective r.call).1)).trace ++ Ev.prepared ::
            (convertRecords 0 r.results.records r.results.results).trace ++
            [Ev.openW r.jsonName, Ev.write r.jsonName, Ev.annotated, Ev.outputsWritten] = B at hx hbody hd
        rw [hx]
        cases hprof : o.profile with
        | false =>
          have h1 := takeWhile_prefix (fun e : Ev => !e.isProfiling) B [] hbody
          have h2 := dropWhile_prefix (fun e : Ev => !e.isProfiling) B [] hbody
          simp only [List.append_nil, List.takeWhile_nil, List.dropWhile_nil] at h1 h2
          simp [h1, h2, hd]
        | true =>
          have h1 := takeWhile_prefix (fun e : Ev => !e.isProfiling) B
            [Ev.openW profBinName, Ev.write profBinName, Ev.openW profTxtName, Ev.write profTxtName] hbody
          have h2 := dropWhile_prefix (fun e : Ev => !e.isProfiling) B
            [Ev.openW profBinName, Ev.write profBinName, Ev.openW profTxtName, Ev.write profTxtName] hbody
          have h3 : List.takeWhile (fun e : Ev => !e.isProfiling)
              [Ev.openW profBinName, Ev.write profBinName, Ev.openW profTxtName, Ev.write profTxtName] = [] := by
            simp [Ev.isProfiling]
          have h4 : List.dropWhile (fun e : Ev => !e.isProfiling)
              [Ev.openW profBinName, Ev.write profBinName, Ev.openW profTxtName, Ev.write profTxtName] =
              [Ev.openW profBinName, Ev.write profBinName, Ev.openW profTxtName, Ev.write profTxtName] := by
            simp [Ev.isProfiling]
          rw [h3, List.append_nil] at h1
          rw [h4] at h2
          simp [List.append_assoc, h1, h2, hd]


/-! ### the invariants at the call: only what the operating system guarantees -/

/-- what the operating system guarantees at a call of `prepare_output_directory`: the working
    directory is absolute and a directory listing consists of plain names.  Nothing about the `name`
    argument: the function's own guard takes care of the empty one. -/
def CallIn.envOk (c : CallIn) : Bool :=
  PosixPath.isabs c.cwd.toList &&
    match c.target with
    | .dir es => es.all fun e => plainName e.name.toList
    | _ => true

theorem effective_fields (c : CallIn) :
    (effective c).1.target = c.target ∧ (effective c).1.cwd = c.cwd := by
  unfold effective; split <;> exact ⟨rfl, rfl⟩

/-- **the `name ≠ ""` hypothesis is discharged**: for every call, whatever the `name` argument, the
    invariants `PrepIn.WF` of the directory theorems follow from the operating system's guarantees -/
theorem effective_wf (c : CallIn) (h : c.envOk = true) : (effective c).1.WF = true := by
  simp only [CallIn.envOk, Bool.and_eq_true] at h
  obtain ⟨ht, hc⟩ := effective_fields c
  have hname : (effective c).1.name.toList ≠ [] := by
    by_cases he : c.nameArg = ""
    · exact (effective_empty_name c he h.1).1
    · rw [(effective_given_name c he).1]
      intro h0
      exact he (String.toList_inj.1 (by rw [h0]; rfl))
  simp only [PrepIn.WF, Bool.and_eq_true, Bool.not_eq_true', List.isEmpty_eq_false_iff, ht, hc]
  exact ⟨⟨h.1, hname⟩, h.2⟩

/-! ### text → bytes -/

theorem utf8_encodes_everything (text : Bytes) : encodable .utf8 text = true := by
  simp [encodable, Codec.canEncode]

theorem emitWith_utf8 (h : Handle) (d : Dir) (text : Bytes) :
    emitWith .utf8 h d text = ((emit h d text).1, (emit h d text).2, none) := by
  cases h <;> simp [emitWith, emit, utf8_encodes_everything]

theorem writeToFileIn_eq (env : Env) (r : Results) (h : Handle) (d : Dir) :
    writeToFileIn env r h d = writeToFile r h d := by
  unfold writeToFileIn writeToFile
  simp only [fileCodec, emitWith_utf8]

theorem dumpRecordsIn_eq (env : Env) (rs : List RecSpec) (ress : List ModDict) (h : Handle) (d : Dir) :
    dumpRecordsIn env rs ress h d = dumpRecords rs ress h d := by
  unfold dumpRecordsIn dumpRecords
  simp only [fileCodec, emitWith_utf8]

end ASV.WriteSafety
