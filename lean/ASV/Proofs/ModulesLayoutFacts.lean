/-
  C14 helper lemmas: the "at most one" reading of the layout spec — a component list that
  satisfies `Spec.layout` has at most one loader, at most one terminating domain, at most one
  explicit starter (and it is the first component), and at most one carrier protein unless a
  double-transporter pair follows the extra one.
-/
import ASV.Proofs.ModulesStep
namespace ASV.Modules
open T Spec

theorem filter_nil_of_any_false {α} (p : α → Bool) (l : List α) (h : l.any p = false) : l.filter p = [] := by
  rw [List.filter_eq_nil_iff]
  intro a ha hp
  have : l.any p = true := List.any_eq_true.mpr ⟨a, ha, hp⟩
  rw [h] at this; cases this

/-- generic counting step: if the layout lets a `P`-component in only when no `P`-component
    precedes it, there is at most one -/
theorem layoutFrom_atMostOne (P : Comp → Bool)
    (hP : ∀ pre c rest, positionOK pre c rest = true → P c = true → pre.any P = false) :
    ∀ (cs pre : List Comp), layoutFrom pre cs = true → (pre.filter P).length ≤ 1 →
      ((pre ++ cs).filter P).length ≤ 1
  | [], pre, _, h => by simpa using h
  | c :: rest, pre, hl, h => by
    simp only [layoutFrom, Bool.and_eq_true] at hl
    have ih := layoutFrom_atMostOne P hP rest (pre ++ [c]) hl.2
    have : pre ++ c :: rest = (pre ++ [c]) ++ rest := by simp
    rw [this]
    apply ih
    rw [List.filter_append]
    cases hc : P c with
    | false => simp [List.filter_cons, hc]; exact h
    | true =>
      have := filter_nil_of_any_false P pre (hP pre c rest hl.1 hc)
      simp [List.filter_cons, hc, this]

theorem positionOK_loader (pre : List Comp) (c : Comp) (rest : List Comp)
    (h : positionOK pre c rest = true) (hc : c.isLoader = true) : pre.any Comp.isLoader = false := by
  have hk : kindOf c = .loader := by
    rw [isLoader_eq] at hc
    cases hk : kindOf c <;> simp [hk, Kind.bits] at hc ⊢
  obtain ⟨b1, b2, b3, b4, b5, b6, b7⟩ := cls c _ hk
  simp only [Kind.bits] at b1 b2 b3 b4 b5 b6 b7
  simp only [positionOK, b1, b2, b4] at h
  simp at h
  have := h.1.1.2.1.1
  rw [Bool.eq_false_iff]; intro ha
  rw [List.any_eq_true] at ha
  obtain ⟨x, hx, hxl⟩ := ha
  have := this x hx
  rw [hxl] at this; cases this

theorem positionOK_end (pre : List Comp) (c : Comp) (rest : List Comp)
    (h : positionOK pre c rest = true) (hc : c.isEnd = true) : pre.any Comp.isEnd = false := by
  have hk : kindOf c = .end_ := by
    rw [isEnd_eq] at hc
    cases hk : kindOf c <;> simp [hk, Kind.bits] at hc ⊢
  obtain ⟨b1, b2, b3, b4, b5, b6, b7⟩ := cls c _ hk
  simp only [Kind.bits] at b1 b2 b3 b4 b5 b6 b7
  simp only [positionOK, b1, b2] at h
  simp at h
  have := h.1.1.1.1
  rw [Bool.eq_false_iff]; intro ha
  rw [List.any_eq_true] at ha
  obtain ⟨x, hx, hxl⟩ := ha
  have := this x hx
  rw [hxl] at this; cases this

/-- an explicit starter can only stand first -/
theorem layoutFrom_starter_first : ∀ (cs pre : List Comp), layoutFrom pre cs = true → pre ≠ [] →
    ∀ c ∈ cs, pureStarter c = false
  | [], _, _, _ => by intro c hc; cases hc
  | x :: rest, pre, hl, hne => by
    simp only [layoutFrom, Bool.and_eq_true] at hl
    intro c hc
    rcases List.mem_cons.mp hc with h | h
    · subst h
      have hp := hl.1
      cases hps : pureStarter c with
      | false => rfl
      | true =>
        have hk : kindOf c = .pureStarter := by
          unfold pureStarter at hps
          rw [isStarter_eq, isLoader_eq] at hps
          cases hk : kindOf c <;> simp [hk, Kind.bits] at hps ⊢
        obtain ⟨b1, b2, b3, b4, b5, b6, b7⟩ := cls c _ hk
        simp only [Kind.bits] at b1 b2 b3 b4 b5 b6 b7
        simp only [positionOK, b1, b2, hps] at hp
        simp at hp
        exact absurd hp.1.1.1.2 hne
    · exact layoutFrom_starter_first rest (pre ++ [x]) hl.2 (by simp) c h

/-- a second carrier protein is only ever followed by a double-transporter pair -/
theorem layoutFrom_carrier : ∀ (cs pre : List Comp), layoutFrom pre cs = true →
    ∀ (a : List Comp) (c : Comp) (b : List Comp), cs = a ++ c :: b → c.isCarrierProtein = true →
      hasCarrier (pre ++ a) = true → dtPair b = true
  | [], _, _, a, c, b, he, _, _ => by simp at he
  | x :: rest, pre, hl, a, c, b, he, hc, hh => by
    simp only [layoutFrom, Bool.and_eq_true] at hl
    cases a with
    | nil =>
      simp at he
      obtain ⟨e1, e2⟩ := he; subst e1; subst e2
      have hk := kind_of_isCarrier x hc
      obtain ⟨b1, b2, b3, b4, b5, b6, b7⟩ := cls x _ hk
      simp only [Kind.bits] at b1 b2 b3 b4 b5 b6 b7
      have hp := hl.1
      simp only [List.append_nil] at hh
      simp only [positionOK, b1, b2, b6, hh] at hp
      simp at hp
      exact hp.2
    | cons y a' =>
      simp at he
      obtain ⟨e1, e2⟩ := he; subst e1
      exact layoutFrom_carrier rest (pre ++ [x]) hl.2 a' c b e2 hc (by simpa using hh)

end ASV.Modules
