/-
  C06 helper lemmas, part 18: on a ring, forming the sections of `create_regions` never raises (sort, sweep with its
  `connect_locations` calls, first/last merge loop), under `ArcUnions`.
-/
import ASV.Proofs.RegionsRingInit
namespace ASV.Regions
open ASV ASV.Components

/-- the sweep never raises on a ring (under `ArcUnions`), and every section it closes is `SecOK` -/
theorem sweepAreas_total {L : Int} (hL : 0 < L) {all : List Feat} (hring : ∀ f ∈ all, RingArea L f.loc)
    (harc : ArcUnions L all) (loc : Loc) (inc rest : List Feat) (hcur : SecOK L all (loc, inc))
    (hrest : ∀ a ∈ rest, a ∈ all) :
    ∃ secs, sweepAreas (some L) loc inc rest = .ok secs ∧ ∀ sec ∈ secs, SecOK L all sec := by
  induction rest generalizing loc inc with
  | nil => exact ⟨[(loc, inc)], rfl, by intro sec hsec; simp at hsec; subst hsec; exact hcur⟩
  | cons a rest ih =>
    have ha := hrest a (by simp)
    simp only [sweepAreas]
    cases hov : locationsOverlap a.loc loc with
    | false =>
      obtain ⟨tail, ht, hok⟩ := ih a.loc [a] (single_secOK hring a ha) (fun x hx => hrest x (by simp [hx]))
      refine ⟨(loc, inc) :: tail, by simp [ht, bind, Except.bind, pure, Except.pure], ?_⟩
      intro sec hsec
      simp only [List.mem_cons] at hsec
      rcases hsec with rfl | hsec
      · exact hcur
      · exact hok sec hsec
    | true =>
      have hov' : locationsOverlap loc a.loc = true := by rw [locationsOverlap_comm]; exact hov
      obtain ⟨r, hr, hsec⟩ := merge_secOK hL hring harc hcur (single_secOK hring a ha) hov' (ms := inc ++ [a])
        (by intro f; simp) false
      simp only [Bool.false_eq_true, if_false] at hr
      obtain ⟨secs, hs, hok⟩ := ih r (inc ++ [a]) hsec (fun x hx => hrest x (by simp [hx]))
      exact ⟨secs, by simp [hr, hs, bind, Except.bind], hok⟩

/-- the first/last merge loop never raises on a ring (under `ArcUnions`) and keeps every section `SecOK` -/
theorem mergeFirstLast_total {L : Int} (hL : 0 < L) {all : List Feat} (hring : ∀ f ∈ all, RingArea L f.loc)
    (harc : ArcUnions L all) (n : Nat) {secs : List Sec}
    (hnd : (ids (secs.map (·.2)).flatten).Nodup) (hok : ∀ sec ∈ secs, SecOK L all sec) :
    ∃ secs', mergeFirstLast (some L) n secs = .ok secs' ∧ ∀ sec ∈ secs', SecOK L all sec := by
  induction n generalizing secs with
  | zero => exact ⟨secs, rfl, hok⟩
  | succ n ih =>
    match secs, hnd, hok with
    | [], _, hok => exact ⟨[], rfl, hok⟩
    | [x], _, hok => exact ⟨[x], rfl, hok⟩
    | first :: second :: more, hnd, hok =>
      have hne : second :: more ≠ [] := by simp
      have hlast : (second :: more).getLast? = some ((second :: more).getLast hne) := List.getLast?_eq_some_getLast hne
      generalize hlv : (second :: more).getLast hne = last at hlast
      simp only [mergeFirstLast, hlast]
      cases hov : locationsOverlap first.1 last.1 with
      | false => exact ⟨first :: second :: more, by simp [pure, Except.pure], hok⟩
      | true =>
        have hsplit : second :: more = (second :: more).dropLast ++ [last] := by
          rw [← hlv]; exact (List.dropLast_concat_getLast hne).symm
        have hlastmem : last ∈ first :: second :: more := by rw [hsplit]; simp
        have hflat : ((first :: second :: more).map (·.2)).flatten =
            first.2 ++ (((second :: more).dropLast).map (·.2)).flatten ++ last.2 := by
          rw [List.map_cons, List.flatten_cons, hsplit]
          simp [List.append_assoc]
        have hnd' := hnd
        rw [hflat, ids_append, ids_append] at hnd'
        have hdis : ∀ a ∈ last.2, a.id ∉ ids first.2 := by
          intro a ha hm
          have := (List.nodup_append.1 hnd').2.2
          exact this a.id (List.mem_append.2 (Or.inl hm)) a.id (mem_ids.2 ⟨a, ha, rfl⟩) rfl
        have hnl : (ids last.2).Nodup := (List.nodup_append.1 hnd').2.1
        have happ := appendNew_disjoint first.2 last.2 hdis hnl
        obtain ⟨r, hr, hsec⟩ := merge_secOK hL hring harc (loc1 := first.1) (m1 := first.2) (loc2 := last.1) (m2 := last.2)
          (hok first (by simp)) (hok last hlastmem) hov (ms := first.2 ++ last.2) (by intro f; simp) true
        simp only [if_true] at hr
        have hperm1 : (((r, first.2 ++ last.2) :: (second :: more).dropLast).map (·.2)).flatten.Perm
            (((first :: second :: more).map (·.2)).flatten) := by
          rw [hflat, List.map_cons, List.flatten_cons]
          simp only [List.append_assoc]
          exact List.Perm.append_left _ List.perm_append_comm
        obtain ⟨secs', hs, hok'⟩ := ih (secs := (r, first.2 ++ last.2) :: (second :: more).dropLast)
          ((hperm1.map (fun f : Feat => f.id)).nodup_iff.2 hnd) (by
            intro sec hsec'
            simp only [List.mem_cons] at hsec'
            rcases hsec' with rfl | hsec'
            · exact hsec
            · exact hok sec (List.mem_cons_of_mem _ (List.dropLast_subset _ hsec')))
        refine ⟨secs', ?_, hok'⟩
        simp only [Bool.not_true, Bool.false_eq_true, if_false, hr, bind, Except.bind, happ]
        exact hs


/-- **forming the sections never raises on a ring** (under `ArcUnions`, no single part covering the whole record):
    `areas.sort()`, the sweep with its `connect_locations` calls and the first/last merge loop all return, and every
    section is a joined family of linked areas located exactly at their union -/
theorem sectionsOf_total {L : Int} (hL : 0 < L) {cands subs : List Feat} (hring : ∀ f ∈ cands ++ subs, RingArea L f.loc)
    (hfull : ∀ f ∈ cands ++ subs, ∀ p, f.loc = .simple p → ¬ (p.lo = 0 ∧ p.hi = L))
    (harc : ArcUnions L (cands ++ subs)) (hnd : (ids (cands ++ subs)).Nodup) :
    ∃ secs, sectionsOf (some L) cands subs = .ok secs ∧ (∀ sec ∈ secs, SecOK L (cands ++ subs) sec) ∧
      ((secs.map (·.2)).flatten).Perm (cands ++ subs) := by
  have hsort : sortAreas (cands ++ subs) = .ok (sortP (fun y x => keyLt (orderKey L y.loc) (orderKey L x.loc)) (cands ++ subs)) :=
    sortAreas_eq _ _ (fun x hx y hy => collectionLt_ring (hring y hy) (hring x hx) (hfull y hy))
  have hp := sortP_perm (fun y x => keyLt (orderKey L y.loc) (orderKey L x.loc)) (cands ++ subs)
  cases hsa : sortP (fun y x => keyLt (orderKey L y.loc) (orderKey L x.loc)) (cands ++ subs) with
  | nil =>
    refine ⟨[], by simp [sectionsOf, hsort, hsa, bind, Except.bind, pure, Except.pure], by simp, ?_⟩
    rw [hsa] at hp
    simpa using hp
  | cons first rest =>
    rw [hsa] at hp
    have hfirst : first ∈ cands ++ subs := hp.mem_iff.1 (by simp)
    have hrest : ∀ a ∈ rest, a ∈ cands ++ subs := fun a ha => hp.mem_iff.1 (by simp [ha])
    obtain ⟨secs0, hsw, h0⟩ := sweepAreas_total hL hring harc first.loc [first] rest (single_secOK hring first hfirst) hrest
    have hflat := sweepAreas_flat hsw
    have hnd0 : (ids (secs0.map (·.2)).flatten).Nodup := by
      rw [hflat]
      exact ((hp.map (fun f : Feat => f.id)).nodup_iff).2 hnd
    obtain ⟨secs, hm, hok⟩ := mergeFirstLast_total hL hring harc secs0.length hnd0 h0
    refine ⟨secs, by simp [sectionsOf, hsort, hsa, hsw, hm, bind, Except.bind], hok, ?_⟩
    have := mergeFirstLast_perm _ hnd0 hm
    rw [hflat] at this
    exact this.trans hp

end ASV.Regions
