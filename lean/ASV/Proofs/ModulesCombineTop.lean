/-
  C14 helper lemmas, part 9: `combine_modules` as a whole.
-/
import ASV.Proofs.ModulesCombine
namespace ASV.Modules
open T Spec

/-- a module as the spec sees it -/
def view (m : Module) : List Comp × Bool := (m.components, m.firstInCds)

theorem getLast?_split {α} (l : List α) (a : α) (h : l.getLast? = some a) : l = l.dropLast ++ [a] := by
  cases l with
  | nil => cases h
  | cons x xs =>
    have hne : x :: xs ≠ [] := List.cons_ne_nil _ _
    rw [List.getLast?_eq_some_getLast hne] at h
    injection h with h
    rw [← h]; exact (List.dropLast_concat_getLast hne).symm

theorem flatMap_view (ms : List Module) : (ms.map view).flatMap (·.1) = ms.flatMap (·.components) := by
  rw [List.flatMap_map]; rfl

theorem combineOK_unchanged (s : Bool) (prev cur : List (List Comp × Bool)) :
    combineOK s prev cur prev cur none = true := by
  unfold combineOK; simp

/-- the spec verdict for a merge, from its ingredients -/
theorem combineOK_merged (init rest cur' : List Module) (head tail m : Module)
    (h1 : head.isComplete = false) (hIh : StateInv head) (hIt : StateInv tail) (hIm : StateInv m)
    (h2 : tail.isComplete = true → ∃ c0 r, tail.components = c0 :: r ∧ c0.isFusedStarter = true)
    (h3 : ((head.isPks && tail.isNrps) || (head.isNrps && tail.isPks)) = false)
    (h4 : m.isComplete = true) (h5 : layout m.components = true) (h6 : m.firstInCds = false)
    (h7 : (m.components = head.components ++ tail.components ∧ cur' = rest)
          ∨ ∃ next rest2 kr, rest = next :: rest2 ∧ next.components = [kr] ∧ kr.label = trailingKrLabel
              ∧ transAt (head.components ++ tail.components) = true
              ∧ m.components = head.components ++ tail.components ++ [kr] ∧ cur' = rest2) :
    combineOK true ((init ++ [head]).map view) ((tail :: rest).map view)
      ((init ++ [m]).map view) (cur'.map view) (some (view m)) = true := by
  unfold combineOK
  simp only [List.map_append, List.map_cons, List.map_nil, List.getLast?_concat, List.dropLast_concat,
             Bool.and_eq_true, Bool.true_and]
  have e1 : complete (view head).1 (view head).2 = false := by rw [← h1, hIh.isComplete_eq]; rfl
  have e4 : complete (view m).1 (view m).2 = true := by rw [← h4, hIm.isComplete_eq]; rfl
  have e3 : ((Spec.isPks (view head).1 && Spec.isNrps (view tail).1)
             || (Spec.isNrps (view head).1 && Spec.isPks (view tail).1)) = false := by
    rw [← h3, hIh.isNrps_eq, hIt.isNrps_eq]; rfl
  have e2 : (!complete (view tail).1 (view tail).2
             || (match (view tail).1 with | c0 :: _ => c0.isFusedStarter | [] => false)) = true := by
    cases hc : complete (view tail).1 (view tail).2 with
    | false => rfl
    | true =>
      have : tail.isComplete = true := by rw [hIt.isComplete_eq]; exact hc
      obtain ⟨c0, r, hr, hf⟩ := h2 this
      show (!true || match tail.components with | c0 :: _ => c0.isFusedStarter | [] => false) = true
      rw [hr]; simpa using hf
  refine ⟨?_, ⟨⟨⟨⟨⟨⟨⟨?_, e2⟩, ?_⟩, e4⟩, h5⟩, ?_⟩, ?_⟩, ?_⟩⟩
  · -- nothing lost, nothing duplicated, order kept
    rw [beq_iff_eq]
    have hv : ∀ ms : List Module, (ms.map view).flatMap (·.1) = ms.flatMap (·.components) := flatMap_view
    simp only [List.flatMap_append, List.flatMap_cons, List.flatMap_nil, List.append_nil, hv]
    show _ ++ m.components ++ _ = _ ++ head.components ++ (tail.components ++ _)
    rcases h7 with ⟨hm, hc⟩ | ⟨next, rest2, kr, hr, hn, _, _, hm, hc⟩
    · rw [hm, hc]; simp
    · rw [hm, hc, hr]; simp [hn]
  · rw [e1]; rfl
  · rw [e3]; rfl
  · show (!m.firstInCds) = true
    rw [h6]; rfl
  · exact beq_self_eq_true _
  · rcases h7 with ⟨hm, hc⟩ | ⟨next, rest2, kr, hr, hn, hl, ht, hm, hc⟩
    · rw [Bool.or_eq_true]; left
      simp [view, hm, hc]
    · rw [Bool.or_eq_true]; right
      rw [hr, hc]
      simp only [List.map_cons, view, hn]
      simp [hl, ht, hm]

/-- `combine_modules` on two genes whose modules are sound: it never fails, the resulting lists
    are sound again, and the outcome satisfies the spec -/
theorem combine_spec (cs ps : Int) (cur prev : List Module)
    (hp : ∀ m ∈ prev, Sound m) (hc : ∀ m ∈ cur, Sound m) :
    ∃ r, combine cs ps cur prev = .ok r ∧ (∀ m ∈ r.prev, Sound m) ∧ (∀ m ∈ r.cur, Sound m) ∧
      (∀ m, r.merged = some m → r.prev.getLast? = some m) ∧
      combineOK (cs == ps) (prev.map view) (cur.map view) (r.prev.map view) (r.cur.map view)
        (r.merged.map view) = true := by
  have unchanged : (∀ m ∈ (⟨none, prev, cur⟩ : Combined).prev, Sound m)
      ∧ (∀ m ∈ (⟨none, prev, cur⟩ : Combined).cur, Sound m)
      ∧ (∀ m, (⟨none, prev, cur⟩ : Combined).merged = some m → (⟨none, prev, cur⟩ : Combined).prev.getLast? = some m)
      ∧ combineOK (cs == ps) (prev.map view) (cur.map view) (prev.map view) (cur.map view) none = true :=
    ⟨hp, hc, fun m h => by simp at h, combineOK_unchanged _ _ _⟩
  unfold combine
  cases hs : (cs != ps) with
  | true => exact ⟨_, by simp, unchanged⟩
  | false =>
    have hse : (cs == ps) = true := by simpa [bne] using hs
    simp only [Bool.false_eq_true, if_false]
    cases hl : prev.getLast? with
    | none => exact ⟨_, rfl, unchanged⟩
    | some head =>
      cases cur with
      | nil => exact ⟨_, rfl, unchanged⟩
      | cons tail rest =>
        simp only
        have hprev := getLast?_split prev head hl
        have hhS : Sound head := hp head (by rw [hprev]; simp)
        have htS : Sound tail := hc tail (List.mem_cons_self)
        obtain ⟨hIh, _, _⟩ := hhS.facts
        obtain ⟨hIt, _, _⟩ := htS.facts
        -- invalid_tail
        have hinv : ∃ b, invalidTail tail = .ok b
            ∧ (b = false → tail.isComplete = true → ∃ c0 r, tail.components = c0 :: r ∧ c0.isFusedStarter = true) := by
          unfold invalidTail
          cases htc : tail.isComplete with
          | false => exact ⟨false, by simp, fun _ h => by cases h⟩
          | true =>
            cases hcomp : tail.components with
            | nil =>
              rw [hIt.isComplete_eq, hcomp] at htc
              simp [complete, hasCarrier] at htc
            | cons c0 r =>
              refine ⟨!c0.isFusedStarter, by simp, ?_⟩
              intro hb _
              exact ⟨c0, r, rfl, by simpa using hb⟩
        obtain ⟨invalid, hie, hiv⟩ := hinv
        rw [hie]
        simp only
        cases hg1 : (head.isComplete || invalid) with
        | true => exact ⟨_, by simp, unchanged⟩
        | false =>
          simp only [Bool.false_eq_true, if_false]
          simp only [Bool.or_eq_false_iff] at hg1
          cases hg2 : ((head.isPks && tail.isNrps) || (head.isNrps && tail.isPks)) with
          | true => exact ⟨_, by simp, unchanged⟩
          | false =>
            simp only [Bool.false_eq_true, if_false]
            obtain ⟨mr, hmr, hmspec⟩ := mergeModules_spec hhS htS
            rw [hmr]
            cases mr with
            | none => exact ⟨_, rfl, unchanged⟩
            | some m2 =>
              simp only
              obtain ⟨hS2, hcomps2, hfirst2, hcomplete2⟩ := hmspec m2 rfl
              have hrest : ∀ m ∈ rest, Sound m := fun m hm => hc m (List.mem_cons_of_mem _ hm)
              have hinit : ∀ m ∈ prev.dropLast, Sound m := fun m hm => hp m (by rw [hprev]; exact List.mem_append_left _ hm)
              rcases absorbTrailingKr_spec hS2 hcomplete2 hrest with hk | ⟨next, rest2, kr, m3, hr, hn, hlab, hT, hk, hS3, hcomps3, hfirst3, hcomplete3⟩
              · rw [hk]
                refine ⟨_, rfl, ?_, hrest, ?_, ?_⟩
                · intro m hm
                  rcases List.mem_append.mp hm with h | h
                  · exact hinit m h
                  · simp at h; subst h; exact hS2
                · intro m h; injection h with h; subst h; simp
                · rw [hse]
                  have := combineOK_merged prev.dropLast rest rest head tail m2 hg1.1 hIh hIt hS2.facts.1
                    (hiv hg1.2) hg2 hcomplete2 hS2.facts.2.2 hfirst2 (Or.inl ⟨hcomps2, rfl⟩)
                  rw [← hprev] at this
                  exact this
              · rw [hk]
                refine ⟨_, rfl, ?_, ?_, ?_, ?_⟩
                · intro m hm
                  rcases List.mem_append.mp hm with h | h
                  · exact hinit m h
                  · simp at h; subst h; exact hS3
                · intro m hm; exact hrest m (by rw [hr]; exact List.mem_cons_of_mem _ hm)
                · intro m h; injection h with h; subst h; simp
                · rw [hse]
                  have htr : transAt (head.components ++ tail.components) = true := by
                    rw [← hcomps2, ← hS2.facts.1.isTransAt_eq]; exact hT
                  have := combineOK_merged prev.dropLast rest rest2 head tail m3 hg1.1 hIh hIt hS3.facts.1
                    (hiv hg1.2) hg2 hcomplete3 hS3.facts.2.2 (by rw [hfirst3, hfirst2])
                    (Or.inr ⟨next, rest2, kr, hr, hn, hlab, htr, by rw [hcomps3, hcomps2], rfl⟩)
                  rw [← hprev] at this
                  exact this

end ASV.Modules
