/-
  C03: on any circular record, the protoclusters `detect_protoclusters_and_signatures` reports have
  area cores, and two of the same rule are further apart than the rule's cutoff.
-/
import ASV.Proofs.ProtoRingSep
namespace ASV.Proto
open ASV ASV.Rules ASV.Chains

theorem bind_ok {α β : Type} {x : E α} {f : α → E β} {b : β} (h : (x >>= f) = .ok b) :
    ∃ a, x = .ok a ∧ f a = .ok b := by
  cases x with
  | error e => simp [bind, Except.bind] at h
  | ok a => exact ⟨a, rfl, h⟩

theorem clustersOfRule_ring_area (r : Rec) (hcirc : r.circular = true) (hL : 0 < r.len) (rule : RuleM)
    (anchors : List Gene) (hgenes : ∀ g ∈ r.genes, RingIn r.len g.loc) (found : List PC)
    (hfound : clustersOfRule r rule anchors = .ok found) : ∀ pc ∈ found, RingArea r.len pc.core := by
  replace hfound : (findCores r rule.cutoff ((r.genes.filter fun g => anchors.contains g.id).map (·.loc)) >>= fun cores =>
      cores.mapM (fun core => do
        let surrounds ← extendArea r core rule.nbhd true
        mkPC rule.name core surrounds)) = .ok found := hfound
  cases hc : findCores r rule.cutoff ((r.genes.filter fun g => anchors.contains g.id).map (·.loc)) with
  | error e => rw [hc] at hfound; cases hfound
  | ok cores =>
    rw [hc] at hfound
    replace hfound : cores.mapM (fun core => do
        let surrounds ← extendArea r core rule.nbhd true
        mkPC rule.name core surrounds) = .ok found := hfound
    obtain ⟨c1, _⟩ := findCores_ring_cover r hcirc hL rule.cutoff _ cores
      (by intro a ha
          obtain ⟨g, hg, rfl⟩ := List.mem_map.1 ha
          exact hgenes g (List.mem_filter.1 hg).1) hc
    intro pc hpc
    obtain ⟨core, hcore, hf⟩ := mapM_ok_mem _ cores found hfound pc hpc
    cases he : extendArea r core rule.nbhd true with
    | error e => simp [he, bind, Except.bind] at hf
    | ok s =>
      simp only [he, bind, Except.bind] at hf
      have := mkPC_ok hf
      subst this
      exact c1 core hcore

theorem applyExtenders_ring_area (within : Lookup) (r : Rec) (hcirc : r.circular = true) (hL : 0 < r.len)
    (rules : List RuleM) (hgenes : ∀ g ∈ r.genes, RingIn r.len g.loc) (clusters ext : List PC) (d : Doms)
    (harea : ∀ pc ∈ clusters, RingArea r.len pc.core) (h : applyExtenders within r rules clusters = .ok (ext, d)) :
    ∀ pc ∈ ext, RingArea r.len pc.core := by
  simp only [applyExtenders, bind, Except.bind] at h
  cases hm : clusters.mapM (extendCluster within r rules) with
  | error e => simp [hm] at h
  | ok out =>
    simp only [hm, pure, Except.pure, Except.ok.injEq, Prod.mk.injEq] at h
    obtain ⟨rfl, _⟩ := h
    intro pc hpc
    obtain ⟨x, hx, rfl⟩ := List.mem_map.1 hpc
    obtain ⟨pc0, hpc0, hf⟩ := mapM_ok_mem _ clusters out hm x hx
    exact (extendCluster_ring_area within r hcirc hL rules hgenes pc0 x.1 x.2 (harea pc0 hpc0) hf).1

/-- the stages of a successful run on a record with genes -/
theorem detectStages_ok (within : Lookup) (r : Rec) (rules : List RuleM) (s : Stages)
    (hne : r.genes.isEmpty = false) (h : detectStages within r rules = .ok s) :
    ∃ (res : RuleResults) (found0 : List (List PC)) (found ext0 : List PC) (d : Doms) (ext kept : List PC),
      ((rules.map fun rule => (rule.name, dedupIds (hitsFor res rule.name))).filter fun x => !x.2.isEmpty).mapM
        (fun x => do
          let rule ← findRule rules x.1
          clustersOfRule r rule x.2) = .ok found0 ∧
      mergeOverOrigin r rules found0.flatten = .ok found ∧
      applyExtenders within r rules found = .ok (ext0, d) ∧
      mergeOverOrigin r rules ext0 = .ok ext ∧
      removeRedundant within rules ext = .ok kept ∧
      s.final.map (·.pc) = kept := by
  unfold detectStages at h
  simp only [hne, Bool.false_eq_true, if_false] at h
  split at h
  all_goals
    obtain ⟨res, _, h⟩ := bind_ok h
    obtain ⟨found0, hf0, h⟩ := bind_ok h
    obtain ⟨found, hf, h⟩ := bind_ok h
    obtain ⟨⟨ext0, d⟩, hext, h⟩ := bind_ok h
    obtain ⟨ext, hm, h⟩ := bind_ok h
    obtain ⟨kept, hk, h⟩ := bind_ok h
    simp only [pure, Except.pure, Except.ok.injEq] at h
    subst h
    exact ⟨res, found0, found, ext0, d, ext, kept, hf0, hf, hext, hm, hk, by simp [List.map_map, Function.comp_def]⟩

/-- **the reported protoclusters on any circular record** -/
theorem detectStages_ring (within : Lookup) (r : Rec) (hcirc : r.circular = true) (hL : 0 < r.len) (rules : List RuleM)
    (hrules : ∀ name rule, findRule rules name = .ok rule → 0 ≤ rule.cutoff ∧ rule.cutoff ≤ r.len)
    (hgenes : ∀ g ∈ r.genes, RingIn r.len g.loc) (s : Stages) (h : detectStages within r rules = .ok s) :
    (∀ o ∈ s.final, RingArea r.len o.pc.core) ∧
    (s.final.map (·.pc)).Pairwise (fun p q => p.rule = q.rule → ∀ rule, findRule rules p.rule = .ok rule →
      FarApart r.len rule.cutoff p.core q.core) := by
  cases hne : r.genes.isEmpty with
  | true =>
    unfold detectStages at h
    simp only [hne, if_true, pure, Except.pure, Except.ok.injEq] at h
    subst h
    exact ⟨(by intro o ho; cases ho), List.Pairwise.nil⟩
  | false =>
    obtain ⟨res, found0, found, ext0, d, ext, kept, hf0, hf, hext, hm, hk, hfin⟩ :=
      detectStages_ok within r rules s hne h
    have a0 : ∀ pc ∈ found0.flatten, RingArea r.len pc.core := by
      intro pc hpc
      obtain ⟨l, hl, hpcl⟩ := List.mem_flatten.1 hpc
      obtain ⟨x, _, hfx⟩ := mapM_ok_mem _ _ found0 hf0 l hl
      simp only [bind, Except.bind] at hfx
      cases hr : findRule rules x.1 with
      | error e => simp [hr] at hfx
      | ok rule =>
        simp only [hr] at hfx
        exact clustersOfRule_ring_area r hcirc hL rule x.2 hgenes l hfx pc hpcl
    have a1 := (mergeOverOrigin_ring r hcirc hL rules hrules _ found a0 hf).1
    have a2 := applyExtenders_ring_area within r hcirc hL rules hgenes found ext0 d (fun pc hpc => (a1 pc hpc).1) hext
    obtain ⟨m1, m2, _⟩ := mergeOverOrigin_ring r hcirc hL rules hrules ext0 ext a2 hm
    have hsub := filterE_sublist _ ext kept hk
    rw [hfin]
    refine ⟨?_, List.Pairwise.sublist hsub m2⟩
    intro o ho
    have : o.pc ∈ kept := by rw [← hfin]; exact List.mem_map.2 ⟨o, ho, rfl⟩
    exact (m1 _ (hsub.subset this)).1

end ASV.Proto
