/-
  C14 helper lemmas, part 7: the executable `Spec.partition` holds of what `build` returns.
-/
import ASV.Proofs.ModulesBuildTop
namespace ASV.Modules
open T Spec

theorem domain_toComp (name : String) (d : Domain) : (toComp name d).domain = d := by cases d; rfl

theorem map_domain_filter (name : String) (l : List Domain) :
    ((l.map (toComp name)).filter notIgnored).map Comp.domain = l.filter (fun d => !ignoredDomain d) := by
  induction l with
  | nil => rfl
  | cons d l ih =>
    have e : notIgnored (toComp name d) = !ignoredDomain d := rfl
    simp only [List.map_cons, List.filter_cons, e]
    cases h : (!ignoredDomain d)
    · simpa using ih
    · simp [ih, domain_toComp]

theorem sortedByStart_of_pairwise : ∀ (l : List Domain),
    l.Pairwise (fun a b => decide (a.start ≤ b.start) = true) → sortedByStart l = true
  | [], _ => rfl
  | [_], _ => rfl
  | a :: b :: rest, h => by
    rw [List.pairwise_cons] at h
    simp only [sortedByStart, Bool.and_eq_true]
    exact ⟨h.1 b (List.mem_cons_self), sortedByStart_of_pairwise (b :: rest) h.2⟩

theorem sortDomains_sorted (ds : List Domain) :
    (sortDomains ds).Pairwise (fun a b => decide (a.start ≤ b.start) = true) := by
  unfold sortDomains
  apply List.pairwise_mergeSort
  · intro a b c h1 h2; simp at h1 h2 ⊢; omega
  · intro a b; simp; omega

theorem partition_holds (ds : List Domain) (name : String) (ms : List Module)
    (hflat : ms.flatMap (·.components) = ((sortDomains ds).map (toComp name)).filter notIgnored)
    (hne : ∀ m ∈ ms, m.components ≠ [])
    (hfirst : FirstFlags ms) :
    Spec.partition ds name (ms.map fun m => (m.components, m.firstInCds)) = true := by
  have hfm : (ms.map fun m => (m.components, m.firstInCds)).flatMap (·.1) = ms.flatMap (·.components) := by
    rw [List.flatMap_map]
  have hdom := map_domain_filter name (sortDomains ds)
  unfold Spec.partition
  simp only [hfm, hflat, hdom, Bool.and_eq_true]
  refine ⟨⟨⟨⟨⟨?_, ?_⟩, ?_⟩, ?_⟩, ?_⟩, ?_⟩
  · exact beq_self_eq_true _
  · rw [List.all_eq_true]
    intro c hc
    have := (List.mem_filter.mp hc).1
    obtain ⟨d, _, hd⟩ := List.mem_map.mp this
    subst hd; simp [toComp]
  · rw [List.all_eq_true]
    intro p hp
    obtain ⟨m, hm, rfl⟩ := List.mem_map.mp hp
    have := hne m hm
    cases hc : m.components with
    | nil => exact absurd hc this
    | cons _ _ => rfl
  · cases ms with
    | nil => rfl
    | cons m rest =>
      simp only [List.map_cons, Bool.and_eq_true, List.all_eq_true]
      refine ⟨hfirst.1, ?_⟩
      intro p hp
      obtain ⟨x, hx, rfl⟩ := List.mem_map.mp hp
      simp [hfirst.2 x hx]
  · rw [List.isPerm_iff]
    exact (List.mergeSort_perm ds _).filter _
  · exact sortedByStart_of_pairwise _ ((sortDomains_sorted ds).filter _)

end ASV.Modules
