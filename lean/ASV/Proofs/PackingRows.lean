/-
  C19 helper lemmas, part 2: `pack` — nothing lost or duplicated, never refuses a well-formed
  area, and no two areas of one row share a base (for every input order).
-/
import ASV.Proofs.PackingBase
namespace ASV.Packing
open ASV ASV.Packing.Spec

/-- all areas held by a list of rows, row by row -/
def allContents (rows : List Row) : List Feat := rows.flatMap (·.contents)

@[simp] theorem allContents_nil : allContents [] = [] := rfl
@[simp] theorem allContents_cons (r : Row) (rs : List Row) :
    allContents (r :: rs) = r.contents ++ allContents rs := by
  simp [allContents]

theorem push_contents (r : Row) (a : Feat) : (r.push a).contents = r.contents ++ [a] := by
  unfold Row.push; split <;> rfl

theorem add_eq_some {r : Row} {a : Feat} {r' : Row} (h : r.add a = some r') :
    r.canFit a = true ∧ r' = r.push a := by
  unfold Row.add at h
  split at h
  · rename_i hc; exact ⟨hc, by simpa using h.symm⟩
  · simp at h

/-! ### partition -/

theorem placeIn_perm : ∀ (rows : List Row) (a : Feat) (rows' : List Row),
    placeIn rows a = some rows' → (allContents rows').Perm (a :: allContents rows)
  | [], a, rows', h => by
    simp only [placeIn, Option.map_eq_some_iff] at h
    obtain ⟨r', hr, rfl⟩ := h
    obtain ⟨_, rfl⟩ := add_eq_some hr
    simp [push_contents]
  | r :: rs, a, rows', h => by
    simp only [placeIn] at h
    split at h
    · simp only [Option.map_eq_some_iff] at h
      obtain ⟨r', hr, rfl⟩ := h
      obtain ⟨_, rfl⟩ := add_eq_some hr
      simp only [allContents_cons, push_contents, List.append_assoc, List.singleton_append]
      exact List.perm_middle
    · simp only [Option.map_eq_some_iff] at h
      obtain ⟨rs', hrs, rfl⟩ := h
      have ih := placeIn_perm rs a rs' hrs
      simp only [allContents_cons]
      exact (List.Perm.append_left r.contents ih).trans List.perm_middle

theorem foldlM_placeIn_perm : ∀ (areas : List Feat) (rows0 rows : List Row),
    areas.foldlM placeIn rows0 = some rows → (allContents rows).Perm (areas ++ allContents rows0)
  | [], rows0, rows, h => by
    simp only [List.foldlM_nil, pure, Option.some.injEq] at h
    subst h; simp
  | a :: as, rows0, rows, h => by
    simp only [List.foldlM_cons, bind, Option.bind_eq_some_iff] at h
    obtain ⟨rows1, h1, h2⟩ := h
    have p1 := placeIn_perm rows0 a rows1 h1
    have p2 := foldlM_placeIn_perm as rows1 rows h2
    refine p2.trans ?_
    refine (List.Perm.append_left as p1).trans ?_
    simp only [List.cons_append]
    exact List.perm_middle

/-- `pack` neither loses nor duplicates an area -/
theorem pack_perm (areas : List Feat) (length : Int) (rows : List Row)
    (h : pack areas length = some rows) : (allContents rows).Perm areas := by
  unfold pack at h
  split at h
  · rename_i he
    simp only [Option.some.injEq] at h
    subst h
    simp only [List.isEmpty_iff] at he
    subst he; simp
  · simpa using foldlM_placeIn_perm areas _ rows h

/-! ### `pack` never raises on areas with a non-negative start -/

theorem placeIn_isSome : ∀ (rows : List Row) (a : Feat), 0 ≤ a.start →
    ∃ rows', placeIn rows a = some rows'
  | [], a, h => by
    have : (Row.canFit {} a) = true := by simp [Row.canFit, h]
    simp [placeIn, Row.add, this]
  | r :: rs, a, h => by
    simp only [placeIn]
    split
    · rename_i hc; simp [Row.add, hc]
    · obtain ⟨rs', hrs⟩ := placeIn_isSome rs a h
      simp [hrs]

theorem foldlM_placeIn_isSome : ∀ (areas : List Feat) (rows0 : List Row),
    (∀ a ∈ areas, 0 ≤ a.start) → ∃ rows, areas.foldlM placeIn rows0 = some rows
  | [], rows0, _ => ⟨rows0, rfl⟩
  | a :: as, rows0, h => by
    obtain ⟨rows1, h1⟩ := placeIn_isSome rows0 a (h a (by simp))
    obtain ⟨rows, h2⟩ := foldlM_placeIn_isSome as rows1 (fun x hx => h x (by simp [hx]))
    exact ⟨rows, by simp [List.foldlM_cons, h1, h2]⟩

theorem pack_isSome (areas : List Feat) (length : Int) (h : ∀ a ∈ areas, 0 ≤ a.start) :
    ∃ rows, pack areas length = some rows := by
  unfold pack
  split
  · exact ⟨[], rfl⟩
  · exact foldlM_placeIn_isSome areas _ h

theorem collOK_start_nonneg {L : Int} {f : Feat} (h : collOK L f.loc = true) : 0 ≤ f.start := by
  unfold Feat.start
  rcases collOK_cases h with ⟨p, hp, h1, _, _⟩ | ⟨s, e, hp, h1, h2, h3⟩
  · rw [hp]; simpa using h1
  · rw [hp]; simp; omega

/-! ### rows hold pairwise disjoint areas -/

/-- what a row guarantees: its areas are well-formed and pairwise apart, and either the row is
    closed (an origin-spanning area was added: nothing fits any more) or every area in it is
    simple and ends before the row's `start` -/
structure RowInv (L : Int) (r : Row) : Prop where
  ok : ∀ c ∈ r.contents, collOK L c.loc = true
  apart : r.contents.Pairwise fun a b => Apart a.loc b.loc
  state : (r.end ≠ -1 ∧ L ≤ r.start) ∨ (∀ c ∈ r.contents, c.crosses = false ∧ c.end < r.start)

theorem rowInv_empty (L s e : Int) : RowInv L { start := s, «end» := e, contents := [] } :=
  ⟨by simp, by simp, Or.inr (by simp)⟩

theorem simple_of_not_crosses {L : Int} {c : Feat} (hc : collOK L c.loc = true)
    (hx : c.crosses = false) : ∃ p, c.loc = .simple p ∧ 0 ≤ p.lo ∧ p.lo < p.hi ∧ p.hi ≤ L := by
  rcases collOK_cases hc with h | ⟨s, e, hp, _⟩
  · exact h
  · simp [Feat.crosses, hp, Loc.parts] at hx

theorem push_inv {L : Int} {r : Row} {a : Feat} (hr : RowInv L r) (ha : collOK L a.loc = true)
    (hf : r.canFit a = true) : RowInv L (r.push a) := by
  obtain ⟨hok, hap, hst⟩ := hr
  have hok' : ∀ c ∈ (r.push a).contents, collOK L c.loc = true := by
    intro c hc
    simp only [push_contents, List.mem_append, List.mem_singleton] at hc
    rcases hc with hc | rfl
    · exact hok c hc
    · exact ha
  -- it suffices to show the new area is apart from everything already there, and the state
  suffices h : (∀ c ∈ r.contents, Apart c.loc a.loc) ∧
      (((r.push a).end ≠ -1 ∧ L ≤ (r.push a).start) ∨
        (∀ c ∈ (r.push a).contents, c.crosses = false ∧ c.end < (r.push a).start)) by
    refine ⟨hok', ?_, h.2⟩
    rw [push_contents, List.pairwise_append]
    exact ⟨hap, by simp, fun c hc b hb => by
      simp only [List.mem_singleton] at hb; subst hb; exact h.1 c hc⟩
  rcases collOK_cases ha with ⟨p, hp, hp1, hp2, hp3⟩ | ⟨s, e, hp, he1, he2, he3⟩
  · -- a simple area
    have hcr : a.crosses = false := by simp [Feat.crosses, hp, Loc.parts]
    have hs : a.start = p.lo := by simp [Feat.start, hp]
    have he : a.end = p.hi := by simp [Feat.end, hp]
    simp only [Row.canFit, hcr] at hf
    by_cases hemp : r.contents = []
    · refine ⟨by simp [hemp], Or.inr ?_⟩
      intro c hc
      simp only [push_contents, hemp, List.nil_append, List.mem_singleton] at hc
      subst hc
      refine ⟨hcr, ?_⟩
      simp only [Row.push, hcr, Bool.false_eq_true, ↓reduceIte, he]
      omega
    · have hne : r.contents.isEmpty = false := by simpa [List.isEmpty_iff] using hemp
      simp only [hne, Bool.false_eq_true, ↓reduceIte, Bool.and_eq_true, decide_eq_true_eq, hs] at hf
      rcases hst with ⟨_, hcl⟩ | hopen
      · omega
      · refine ⟨?_, Or.inr ?_⟩
        · intro c hc
          obtain ⟨hcx, hce⟩ := hopen c hc
          obtain ⟨q, hq, _, _, _⟩ := simple_of_not_crosses (hok c hc) hcx
          have : c.end = q.hi := by simp [Feat.end, hq]
          intro x hx y hy
          simp only [hq, Loc.parts, List.mem_singleton] at hx
          simp only [hp, Loc.parts, List.mem_singleton] at hy
          subst hx hy
          omega
        · intro c hc
          simp only [push_contents, List.mem_append, List.mem_singleton] at hc
          simp only [Row.push, hcr, Bool.false_eq_true, ↓reduceIte]
          rcases hc with hc | rfl
          · obtain ⟨hcx, hce⟩ := hopen c hc
            exact ⟨hcx, by omega⟩
          · exact ⟨hcr, by omega⟩
  · -- an origin-spanning area: closes the row
    have hcr : a.crosses = true := by simp [Feat.crosses, hp, Loc.parts]
    have hs : a.start = s := by simp [Feat.start, hp]
    have hend : a.loc.end = L := by
      simp only [hp, Loc.end, maxList, List.map_cons, List.map_nil, List.foldl_cons, List.foldl_nil]
      omega
    have hclosed : (r.push a).end ≠ -1 ∧ L ≤ (r.push a).start := by
      simp only [Row.push, hcr, ↓reduceIte, hs, hend]
      omega
    refine ⟨?_, Or.inl hclosed⟩
    by_cases hemp : r.contents = []
    · simp [hemp]
    · have hne : r.contents.isEmpty = false := by simpa [List.isEmpty_iff] using hemp
      simp only [Row.canFit, hne, Bool.false_eq_true, ↓reduceIte, hcr] at hf
      split at hf
      · simp at hf
      · simp only [Bool.not_eq_eq_eq_not, Bool.not_true, List.any_eq_false] at hf
        intro c hc
        have := hf c hc
        exact (apart_of_noOverlap (by simpa using this)).symm

theorem placeIn_inv {L : Int} : ∀ (rows : List Row) (a : Feat) (rows' : List Row),
    (∀ r ∈ rows, RowInv L r) → collOK L a.loc = true → placeIn rows a = some rows' →
    ∀ r ∈ rows', RowInv L r
  | [], a, rows', _, ha, h => by
    simp only [placeIn, Option.map_eq_some_iff] at h
    obtain ⟨r', hr, rfl⟩ := h
    obtain ⟨hf, rfl⟩ := add_eq_some hr
    intro r hr
    simp only [List.mem_singleton] at hr
    subst hr
    exact push_inv (rowInv_empty L 0 (-1)) ha hf
  | r :: rs, a, rows', hrows, ha, h => by
    simp only [placeIn] at h
    split at h
    · simp only [Option.map_eq_some_iff] at h
      obtain ⟨r', hr, rfl⟩ := h
      obtain ⟨hf, rfl⟩ := add_eq_some hr
      intro x hx
      simp only [List.mem_cons] at hx
      rcases hx with rfl | hx
      · exact push_inv (hrows r (by simp)) ha hf
      · exact hrows x (by simp [hx])
    · simp only [Option.map_eq_some_iff] at h
      obtain ⟨rs', hrs, rfl⟩ := h
      have ih := placeIn_inv rs a rs' (fun x hx => hrows x (by simp [hx])) ha hrs
      intro x hx
      simp only [List.mem_cons] at hx
      rcases hx with rfl | hx
      · exact hrows x (by simp)
      · exact ih x hx

theorem foldlM_placeIn_inv {L : Int} : ∀ (areas : List Feat) (rows0 rows : List Row),
    (∀ r ∈ rows0, RowInv L r) → (∀ a ∈ areas, collOK L a.loc = true) →
    areas.foldlM placeIn rows0 = some rows → ∀ r ∈ rows, RowInv L r
  | [], rows0, rows, h0, _, h => by
    simp only [List.foldlM_nil, pure, Option.some.injEq] at h
    subst h; exact h0
  | a :: as, rows0, rows, h0, ha, h => by
    simp only [List.foldlM_cons, bind, Option.bind_eq_some_iff] at h
    obtain ⟨rows1, h1, h2⟩ := h
    exact foldlM_placeIn_inv as rows1 rows (placeIn_inv rows0 a rows1 h0 (ha a (by simp)) h1)
      (fun x hx => ha x (by simp [hx])) h2

theorem pack_inv {L : Int} (areas : List Feat) (length : Int) (rows : List Row)
    (ha : ∀ a ∈ areas, collOK L a.loc = true) (h : pack areas length = some rows) :
    ∀ r ∈ rows, RowInv L r := by
  unfold pack at h
  split at h
  · simp only [Option.some.injEq] at h
    subst h; simp
  · refine foldlM_placeIn_inv areas _ rows ?_ ha h
    intro r hr
    simp only [List.mem_singleton] at hr
    subst hr
    exact rowInv_empty L 0 length

end ASV.Packing
