/-
  C03 helper lemmas: `apply_extenders` on a linear record meets the EXTENDERS spec (`Chains.ExtWalk`).
-/
import ASV.Proofs.ProtoRules
namespace ASV.Proto
open ASV ASV.Rules ASV.Chains

/-! ### the computed walk satisfies the rules, and the rules determine the result -/

theorem specWalk_sound (c : Int) (dist : GeneInfo → GeneInfo → Int) (ext inCore : GeneInfo → Bool) :
    ∀ (w : List GeneInfo) (ref : GeneInfo), ExtWalk c dist ext inCore ref w (specWalk c dist ext inCore ref w) := by
  intro w
  induction w with
  | nil => intro ref; exact ExtWalk.done ref
  | cons x rest ih =>
    intro ref
    simp only [specWalk]
    by_cases h1 : inCore x = true
    · simp only [h1, if_true]; exact ExtWalk.inside h1 (ih ref)
    · have h1' : inCore x = false := by simpa using h1
      simp only [h1', Bool.false_eq_true, if_false]
      by_cases h2 : dist x ref > c
      · simp only [h2, if_true]; exact ExtWalk.stop h1' h2
      · simp only [h2, if_false]
        by_cases h3 : ext x = true
        · simp only [h3, if_true]; exact ExtWalk.accept h1' (by omega) h3 (ih x)
        · have h3' : ext x = false := by simpa using h3
          simp only [h3', Bool.false_eq_true, if_false]; exact ExtWalk.stepOver h1' (by omega) h3' (ih ref)

theorem ExtWalk.unique {c : Int} {dist : GeneInfo → GeneInfo → Int} {ext inCore : GeneInfo → Bool}
    {ref : GeneInfo} {w a : List GeneInfo} (h : ExtWalk c dist ext inCore ref w a) :
    a = specWalk c dist ext inCore ref w := by
  induction h with
  | done ref => rfl
  | inside h1 _ ih => simp only [specWalk, h1, if_true]; exact ih
  | stop h1 h2 => simp only [specWalk, h1, Bool.false_eq_true, if_false, h2, if_true]
  | @accept ref x rest adm h1 h2 h3 _ ih =>
    have : ¬ (dist x ref > c) := by omega
    simp only [specWalk, h1, Bool.false_eq_true, if_false, this, h3, if_true]; rw [ih]
  | @stepOver ref x rest adm h1 h2 h3 _ ih =>
    have : ¬ (dist x ref > c) := by omega
    simp only [specWalk, h1, Bool.false_eq_true, if_false, this, h3]; exact ih

/-! ### `mark_extendable` is that walk -/

theorem markExt_eq (r : Rec) (rule : RuleM) (core : Loc) : ∀ (w : List GeneInfo) (prev : GeneInfo),
    markExt r rule core prev w =
      specWalk rule.cutoff (fun a b => getDistance a.loc b.loc r.wrapI) (fun g => (extendsTo rule g).isSome)
        (fun g => locationContainsOther core g.loc) prev w := by
  intro w
  induction w with
  | nil => intro prev; rfl
  | cons x rest ih =>
    intro prev
    simp only [markExt, specWalk]
    by_cases h1 : locationContainsOther core x.loc = true
    · simp only [h1, if_true]; exact ih prev
    · simp only [h1, Bool.false_eq_true, if_false]
      by_cases h2 : getDistance x.loc prev.loc r.wrapI > rule.cutoff
      · simp only [h2, if_true]
      · simp only [h2, if_false]
        rw [ih x, ih prev]
        split <;> simp_all

theorem selfEnv_wf (g : GeneInfo) (c : Int) : (selfEnv g c).WF := by
  constructor
  · intro h hh; simpa [selfEnv, Env.ofLocs] using hh
  · intro h hh _; simpa [selfEnv, Env.ofLocs] using hh

/-- the clause is "satisfied" exactly when its documented meaning holds at the gene on its own -/
theorem extendsTo_isSome (rule : RuleM) (g : GeneInfo) (hwf : ∀ c, rule.extenders = some c → c.WF = true) :
    (extendsTo rule g).isSome = extOK rule g := by
  simp only [extendsTo, canExtend, extOK]
  cases he : rule.extenders with
  | none => rfl
  | some c =>
    simp only [Option.map_some]
    have := evalC_sem (selfEnv g rule.cutoff) (selfEnv_wf g rule.cutoff) g.id c (hwf c he)
    rw [← this]
    simp only [selfEnv]
    cases (evalC _ g.id false c).met <;> rfl

theorem specWalk_congr (c : Int) (d1 d2 : GeneInfo → GeneInfo → Int) (e1 e2 i1 i2 : GeneInfo → Bool)
    (univ : List GeneInfo) (hd : ∀ a ∈ univ, ∀ b ∈ univ, d1 a b = d2 a b) (he : ∀ a ∈ univ, e1 a = e2 a)
    (hi : ∀ a ∈ univ, i1 a = i2 a) :
    ∀ (w : List GeneInfo) (ref : GeneInfo), (∀ x ∈ w, x ∈ univ) → ref ∈ univ →
      specWalk c d1 e1 i1 ref w = specWalk c d2 e2 i2 ref w := by
  intro w
  induction w with
  | nil => intros; rfl
  | cons x rest ih =>
    intro ref hw hr
    have hx := hw x (by simp)
    have hrest : ∀ y ∈ rest, y ∈ univ := fun y hy => hw y (by simp [hy])
    simp only [specWalk, hi x hx, hd x hx ref hr, he x hx, ih ref hrest hr, ih x hrest hx]

/-! ### joining the admitted genes to the core on a linear record -/

theorem connect_gene_part_line (cds : Loc) (p : Part) (len : Int) (h : GeneOK len cds) :
    ∃ s, connect [cds, Loc.simple p] none = .ok (.simple ⟨min p.lo cds.start, max p.hi cds.end, s⟩) := by
  rw [connect_line [cds, Loc.simple p] (by simp)
    (by intro l hl; simp at hl; rcases hl with rfl | rfl
        · exact ⟨h.ne, h.nb⟩
        · simp [Loc.parts, bridgesOrigin])]
  refine ⟨commonStrand [cds, Loc.simple p], ?_⟩
  simp only [minList, maxList, List.map_cons, List.map_nil, List.foldl_cons, List.foldl_nil, Loc.start, Loc.end]
  rw [Int.min_comm, Int.max_comm]

theorem fold_connect_line (r : Rec) (hlin : r.circular = false) : ∀ (l : List GeneInfo) (p : Part),
    (∀ g ∈ l, GeneOK r.len g.loc) →
    ∃ q, l.foldlM (fun core cds => connect [cds.loc, core] r.wrap) (Loc.simple p) = .ok (.simple q) ∧
      (q.lo, q.hi) = hullIv (Loc.simple p :: l.map (·.loc)) := by
  intro l
  induction l with
  | nil => intro p _; exact ⟨p, rfl, by simp [hullIv, minList, maxList, Loc.start, Loc.end]⟩
  | cons g rest ih =>
    intro p hok
    obtain ⟨s, hc⟩ := connect_gene_part_line g.loc p r.len (hok g (by simp))
    obtain ⟨q, hq, hh⟩ := ih ⟨min p.lo g.loc.start, max p.hi g.loc.end, s⟩ (fun x hx => hok x (by simp [hx]))
    refine ⟨q, ?_, ?_⟩
    · simp only [List.foldlM_cons, Rec.wrap, hlin, Bool.false_eq_true, if_false, hc, bind, Except.bind]
      simpa [Rec.wrap, hlin] using hq
    · rw [hh]
      simp [hullIv, minList, maxList, Loc.start, Loc.end]

theorem mapM_ok_map_of_forall {α β : Type} (f : α → E β) (g : α → β) : ∀ (l : List α), (∀ a ∈ l, f a = .ok (g a)) →
    l.mapM f = .ok (l.map g) := by
  intro l
  induction l with
  | nil => intro _; rfl
  | cons a l ih =>
    intro h
    simp only [List.mapM_cons, h a (by simp), ih (fun x hx => h x (by simp [hx])), bind, Except.bind, pure,
      Except.pure, List.map_cons]

/-- `bisect_left(cdses, core)` = the number of leading genes sorting before the core -/
theorem bisectLeft_line (items : List GeneInfo) (core : Loc) (hcore : bridgesOrigin core = false)
    (hnb : ∀ g ∈ items, bridgesOrigin g.loc = false) :
    bisectLeft items core = .ok (items.takeWhile fun g => ltLoc' g.loc core).length := by
  have hlt : ∀ g ∈ items, featureLt g.loc core = .ok (ltLoc' g.loc core) := by
    intro g hg
    simp [ltLoc', featureLt_nb g.loc core (hnb g hg) hcore, Except.toOption]
  simp only [bisectLeft, mapM_ok_map_of_forall _ _ items hlt, bind, Except.bind, pure, Except.pure, List.takeWhile_map,
    List.length_map]
  rfl

theorem specWalk_sub (c : Int) (dist : GeneInfo → GeneInfo → Int) (ext inCore : GeneInfo → Bool) :
    ∀ (w : List GeneInfo) (ref : GeneInfo), ∀ x ∈ specWalk c dist ext inCore ref w, x ∈ w := by
  intro w
  induction w with
  | nil => intro ref x hx; simp [specWalk] at hx
  | cons y rest ih =>
    intro ref x hx
    simp only [specWalk] at hx
    split at hx
    · exact List.mem_cons_of_mem _ (ih ref x hx)
    · split at hx
      · cases hx
      · split at hx
        · simp only [List.mem_cons] at hx
          rcases hx with rfl | hx
          · simp
          · exact List.mem_cons_of_mem _ (ih y x hx)
        · exact List.mem_cons_of_mem _ (ih ref x hx)

theorem GeneOK.locOK {len : Int} {l : Loc} (h : GeneOK len l) : l.OK 0 :=
  ⟨h.ne, fun p hp => ⟨(h.parts p hp).1, (h.parts p hp).2.1, fun h0 => absurd rfl h0⟩⟩

/-- the hull of a span and some genes of the record: bounds -/
theorem hull_bounds (len : Int) (p q : Part) (ls : List Loc) (hls : ∀ l ∈ ls, GeneOK len l)
    (h0 : 0 ≤ p.lo) (h1 : p.lo < p.hi) (h2 : p.hi ≤ len) (hq : (q.lo, q.hi) = hullIv (Loc.simple p :: ls)) :
    0 ≤ q.lo ∧ q.lo ≤ p.lo ∧ p.hi ≤ q.hi ∧ q.hi ≤ len := by
  simp only [hullIv, Prod.mk.injEq] at hq
  obtain ⟨e1, e2⟩ := hq
  have hne1 : (Loc.simple p :: ls).map (·.start) ≠ [] := by simp
  have hne2 : (Loc.simple p :: ls).map (·.end) ≠ [] := by simp
  have m1 := minList_mem hne1
  have m2 := maxList_mem hne2
  have l1 : minList ((Loc.simple p :: ls).map (·.start)) ≤ p.lo := minList_le_of_mem (by simp [Loc.start])
  have l2 : p.hi ≤ maxList ((Loc.simple p :: ls).map (·.end)) := le_maxList_of_mem (by simp [Loc.end])
  rw [← e1] at m1 l1
  rw [← e2] at m2 l2
  refine ⟨?_, l1, l2, ?_⟩
  · simp only [List.map_cons, List.mem_cons, List.mem_map] at m1
    rcases m1 with h | ⟨l, hl, h⟩
    · simp only [Loc.start] at h; omega
    · have := (hls l hl).start_nonneg; omega
  · simp only [List.map_cons, List.mem_cons, List.mem_map] at m2
    rcases m2 with h | ⟨l, hl, h⟩
    · simp only [Loc.end] at h; omega
    · have := (hls l hl).end_le; omega

/-- **`apply_extenders` on one protocluster of a linear record**: the genes joined to the core are
    exactly those the EXTENDERS walk (`ExtWalk`) admits on either side, the new core is the span of the old
    core and those genes, and the protocluster is rebuilt with the rule's neighbourhood -/
theorem extendCluster_line (within : Lookup) (r : Rec) (hlin : r.circular = false) (rules : List RuleM)
    (pc : PC) (rule : RuleM) (hrule : findRule rules pc.rule = .ok rule) (hn : 0 ≤ rule.nbhd)
    (hext : ∀ c, rule.extenders = some c → c.WF = true)
    (p : Part) (hcore : pc.core = .simple p) (h0 : 0 ≤ p.lo) (h1 : p.lo < p.hi) (h2 : p.hi ≤ r.len)
    (hgenes : ∀ g ∈ r.genes, GeneOK r.len g.loc)
    (first last : GeneInfo) (hfirst : (within pc.core false).head? = some first)
    (hlast : (within pc.core false).getLast? = some last) (hsub : ∀ g ∈ within pc.core false, g ∈ r.genes) :
    ∃ back forw q1 q2 doms,
      ExtWalk rule.cutoff (fun a b => specDistFull 0 a.loc b.loc) (extOK rule)
        (fun g => locationContainsOther pc.core g.loc) first (walkBack r pc.core) back ∧
      (q1.lo, q1.hi) = hullIv (pc.core :: back.map (·.loc)) ∧
      ExtWalk rule.cutoff (fun a b => specDistFull 0 a.loc b.loc) (extOK rule)
        (fun g => locationContainsOther (.simple q1) g.loc) last (walkForward r pc.core) forw ∧
      (q2.lo, q2.hi) = hullIv (Loc.simple q1 :: forw.map (·.loc)) ∧
      extendCluster within r rules pc =
        .ok (⟨rule.name, .simple q2, .simple ⟨max 0 (q2.lo - rule.nbhd), min (q2.hi + rule.nbhd) r.len, .fwd⟩⟩, doms) := by
  rw [hcore] at hfirst hlast hsub ⊢
  have hwrap : r.wrapI = 0 := by simp [Rec.wrapI, hlin]
  have hfirstmem : first ∈ r.genes := hsub first (List.mem_of_head? hfirst)
  have hlastmem : last ∈ r.genes := hsub last (List.mem_of_getLast? hlast)
  have hidx := bisectLeft_line r.genes (Loc.simple p) (by simp [bridgesOrigin]) (fun g hg => (hgenes g hg).nb)
  have hwb : ∀ x ∈ walkBack r (Loc.simple p), x ∈ r.genes := by
    intro x hx
    simp only [walkBack, List.mem_reverse] at hx
    exact List.mem_of_mem_take hx
  have hwf : ∀ x ∈ walkForward r (Loc.simple p), x ∈ r.genes := by
    intro x hx
    exact List.mem_of_mem_drop hx
  -- the two walks of the model are the walks of the spec
  have hdist : ∀ a ∈ r.genes, ∀ b ∈ r.genes,
      getDistance a.loc b.loc r.wrapI = specDistFull 0 a.loc b.loc := by
    intro a ha b hb
    rw [hwrap]
    exact getDistance_eq_specFull a.loc b.loc 0 (hgenes a ha).locOK (hgenes b hb).locOK
  have hwalk : ∀ (core : Loc) (ref : GeneInfo) (w : List GeneInfo), (∀ x ∈ w, x ∈ r.genes) → ref ∈ r.genes →
      markExt r rule core ref w = specWalk rule.cutoff (fun a b => specDistFull 0 a.loc b.loc) (extOK rule)
        (fun g => locationContainsOther core g.loc) ref w := by
    intro core ref w hw hr
    rw [markExt_eq]
    exact specWalk_congr _ _ _ _ _ _ _ r.genes hdist (fun a _ => extendsTo_isSome rule a hext) (fun _ _ => rfl) w ref hw hr
  let back := specWalk rule.cutoff (fun a b => specDistFull 0 a.loc b.loc) (extOK rule)
        (fun g => locationContainsOther (Loc.simple p) g.loc) first (walkBack r (Loc.simple p))
  have hbackok : ∀ g ∈ back, GeneOK r.len g.loc := fun g hg => hgenes g (hwb g (specWalk_sub _ _ _ _ _ _ g hg))
  obtain ⟨q1, hq1, hh1⟩ := fold_connect_line r hlin back p hbackok
  let forw := specWalk rule.cutoff (fun a b => specDistFull 0 a.loc b.loc) (extOK rule)
        (fun g => locationContainsOther (.simple q1) g.loc) last (walkForward r (Loc.simple p))
  have hforwok : ∀ g ∈ forw, GeneOK r.len g.loc := fun g hg => hgenes g (hwf g (specWalk_sub _ _ _ _ _ _ g hg))
  obtain ⟨q2, hq2, hh2⟩ := fold_connect_line r hlin forw q1 hforwok
  have b1 := hull_bounds r.len p q1 (back.map (·.loc)) (by intro l hl; obtain ⟨g, hg, rfl⟩ := List.mem_map.1 hl; exact hbackok g hg)
    h0 h1 h2 hh1
  have b2 := hull_bounds r.len q1 q2 (forw.map (·.loc)) (by intro l hl; obtain ⟨g, hg, rfl⟩ := List.mem_map.1 hl; exact hforwok g hg)
    b1.1 (by omega) b1.2.2.2 hh2
  have hcontains : locationContainsOther (Loc.simple q2) (Loc.simple p) = true := by
    simp only [locationContainsOther, Loc.parts, List.all_cons, List.all_nil, List.any_cons, List.any_nil,
      Bool.or_false, Bool.and_true, partContains, Bool.and_eq_true, decide_eq_true_eq]
    omega
  refine ⟨back, forw, q1, q2, ?d, specWalk_sound _ _ _ _ _ _, hh1, specWalk_sound _ _ _ _ _ _, hh2, ?e⟩
  case e =>
    have hcb : cycle r r.genes (r.genes.takeWhile fun g => ltLoc' g.loc (Loc.simple p)).length false = walkBack r (Loc.simple p) := by
      simp [cycle, hlin, walkBack]
    have hcf : cycle r r.genes (r.genes.takeWhile fun g => ltLoc' g.loc (Loc.simple p)).length true = walkForward r (Loc.simple p) := by
      simp [cycle, hlin, walkForward]
    simp only [extendCluster, hcore, hrule, hidx, bind, Except.bind, hfirst, hlast, hcb, hcf]
    rw [hwalk (Loc.simple p) first _ hwb hfirstmem]
    rw [hq1]
    simp only []
    rw [hwalk (.simple q1) last _ hwf hlastmem, hq2]
    simp only [hcontains, Bool.not_true, Bool.false_eq_true, if_false, extendArea_line r hlin q2 rule.nbhd true]
    rw [mkPC_simple _ _ _ (by simp only; omega) (by simp only; omega)]
    rfl

end ASV.Proto
