/-
  C12: `_build_annotations` works on a deep copy — whatever it writes, it writes into objects allocated after the
  full record's annotation dicts, so the full record's annotations say afterwards what they said before.
-/
import ASV.Model.RegionAnnotations
set_option linter.unusedSimpArgs false
namespace ASV.RegionExtract
open ASV

/-- `h'` agrees with `h` on all addresses below `n` -/
def SameBelow (n : Nat) (h h' : AHeap) : Prop := ∀ i, i < n → h'[i]? = h[i]?

theorem SameBelow.refl (n : Nat) (h : AHeap) : SameBelow n h h := fun _ _ => rfl

theorem SameBelow.trans {n : Nat} {a b c : AHeap} (h1 : SameBelow n a b) (h2 : SameBelow n b c) : SameBelow n a c :=
  fun i hi => (h2 i hi).trans (h1 i hi)

theorem sameBelow_alloc (n : Nat) (h : AHeap) (o : AObj) (hn : n ≤ h.length) : SameBelow n h (alloc h o).1 := by
  intro i hi
  simp only [alloc]
  rw [List.getElem?_append_left (by omega)]

theorem sameBelow_set (n : Nat) (h : AHeap) (j : Nat) (o : AObj) (hj : n ≤ j) : SameBelow n h (h.set j o) := by
  intro i hi
  rw [List.getElem?_set_ne (by omega)]

theorem alloc_length (h : AHeap) (o : AObj) : (alloc h o).1.length = h.length + 1 := by simp [alloc]

theorem allocEntries_spec (n : Nat) : ∀ (m : List (String × List (String × String))) (h : AHeap), n ≤ h.length →
    SameBelow n h (allocEntries h m).1 ∧ h.length ≤ (allocEntries h m).1.length ∧
    ∀ kv ∈ (allocEntries h m).2, n ≤ kv.2
  | [], h, _ => ⟨SameBelow.refl _ _, Nat.le_refl _, by simp [allocEntries]⟩
  | (k, d) :: rest, h, hn => by
    have ih := allocEntries_spec n rest (alloc h (.data d)).1 (by rw [alloc_length]; omega)
    simp only [allocEntries]
    refine ⟨(sameBelow_alloc n h _ hn).trans ih.1, by have := ih.2.1; rw [alloc_length] at this; omega, ?_⟩
    intro kv hkv
    rcases List.mem_cons.1 hkv with rfl | hkv
    · simp [alloc]; exact hn
    · exact ih.2.2 kv hkv

/-- reading below `n` is not affected by changes at or above `n` -/
theorem readData_below (n : Nat) (h h' : AHeap) (hs : SameBelow n h h') (a : Nat) (ha : a < n) :
    readData h' a = readData h a := by
  unfold readData; rw [hs a ha]

theorem readData_some_lt (h : AHeap) (a : Nat) (m : List (String × String)) (hr : readData h a = some m) : a < h.length := by
  unfold readData at hr
  cases hg : h[a]? with
  | none => rw [hg] at hr; cases hr
  | some o => exact (List.getElem?_eq_some_iff.1 hg).1

theorem readCommentEntries_below (n : Nat) (h h' : AHeap) (hs : SameBelow n h h') (hn : n = h.length) :
    ∀ (m : List (String × Nat)) (r : List (String × List (String × String))),
      readCommentEntries h m = some r → readCommentEntries h' m = some r
  | [], r, hr => hr
  | (k, a) :: rest, r, hr => by
    simp only [readCommentEntries] at hr ⊢
    cases hd : readData h a with
    | none => rw [hd] at hr; cases hr
    | some d =>
      cases hrest : readCommentEntries h rest with
      | none => rw [hd, hrest] at hr; cases hr
      | some r' =>
        rw [hd, hrest] at hr
        rw [readData_below n h h' hs a (by rw [hn]; exact readData_some_lt h a d hd), hd,
          readCommentEntries_below n h h' hs hn rest r' hrest]
        exact hr

theorem readTop_below (h h' : AHeap) (hs : SameBelow h.length h h') (a : Nat) (t : AnnTree)
    (hr : readTop h a = some t) : readTop h' a = some t := by
  unfold readTop at hr ⊢
  cases hg : h[a]? with
  | none => rw [hg] at hr; cases hr
  | some o =>
    have ha : a < h.length := (List.getElem?_eq_some_iff.1 hg).1
    rw [hs a ha, hg]
    rw [hg] at hr
    cases o with
    | top other sc =>
      cases sc with
      | none => exact hr
      | some c =>
        simp only at hr ⊢
        unfold readComments at hr ⊢
        cases hgc : h[c]? with
        | none => rw [hgc] at hr; cases hr
        | some oc =>
          have hc : c < h.length := (List.getElem?_eq_some_iff.1 hgc).1
          rw [hs c hc, hgc]
          rw [hgc] at hr
          cases oc with
          | comments m =>
            simp only at hr ⊢
            cases hm : readCommentEntries h m with
            | none => rw [hm] at hr; cases hr
            | some r => rw [readCommentEntries_below h.length h h' hs rfl m r hm]; rw [hm] at hr; exact hr
          | top _ _ => cases hr
          | data _ => cases hr
    | comments _ => cases hr
    | data _ => cases hr

/-- what the deep copy looks like: everything it made lies above the old heap -/
structure FreshCopy (n : Nat) (h1 : AHeap) (a : Nat) : Prop where
  above : n ≤ a
  inb : a < h1.length
  scAbove : ∀ other c, h1[a]? = some (.top other (some c)) → n ≤ c ∧ ∀ m, h1[c]? = some (.comments m) → ∀ kv ∈ m, n ≤ kv.2

theorem deepcopyTop_spec (h : AHeap) (parent : Nat) (h1 : AHeap) (a : Nat) (hd : deepcopyTop h parent = some (h1, a)) :
    SameBelow h.length h h1 ∧ FreshCopy h.length h1 a ∧ h.length ≤ h1.length := by
  unfold deepcopyTop at hd
  split at hd
  · cases hd
  · injection hd with hd; injection hd with e1 e2
    subst e1 e2
    refine ⟨sameBelow_alloc _ h _ (Nat.le_refl _), ⟨Nat.le_refl _, by simp [alloc], ?_⟩, by simp [alloc]⟩
    intro other c hg
    simp [alloc] at hg
  · rename_i other m _
    simp only at hd
    injection hd with hd; injection hd with e1 e2
    have hsp := allocEntries_spec h.length m h (Nat.le_refl _)
    generalize hae : allocEntries h m = ae at e1 e2 hsp
    obtain ⟨hh, entries⟩ := ae
    simp only at e1 e2 hsp
    subst e1 e2
    refine ⟨?_, ⟨?_, by simp [alloc], ?_⟩, by simp [alloc]; omega⟩
    · exact (hsp.1.trans (sameBelow_alloc _ hh _ hsp.2.1)).trans (sameBelow_alloc _ _ _ (by simp [alloc]; omega))
    · simp [alloc]; omega
    · intro other' c hg
      simp only [alloc, List.length_append, List.length_cons, List.length_nil] at hg
      rw [List.getElem?_append_right (by simp)] at hg
      simp at hg
      obtain ⟨_, hc⟩ := hg
      subst hc
      refine ⟨hsp.2.1, ?_⟩
      intro m' hm'
      simp only [alloc] at hm'
      rw [List.getElem?_append_left (by simp), List.getElem?_append_right (by simp)] at hm'
      simp at hm'
      subst hm'
      exact hsp.2.2

theorem setdefaults_spec (n : Nat) (h1 : AHeap) (a : Nat) (hf : FreshCopy n h1 a) (h2 : AHeap) (d : Nat)
    (hs : setdefaults h1 a = some (h2, d)) : SameBelow n h1 h2 ∧ n ≤ d := by
  have hlen : n ≤ h1.length := by have := hf.above; have := hf.inb; omega
  unfold setdefaults at hs
  split at hs
  · rename_i other sc hga
    cases sc with
    | some c =>
      simp only at hs
      obtain ⟨hc, hcm⟩ := hf.scAbove other c hga
      split at hs
      · rename_i m hgc
        split at hs
        · rename_i kv hfind
          injection hs with hs; injection hs with e1 e2
          subst e1 e2
          exact ⟨SameBelow.refl _ _, hcm m hgc kv (List.mem_of_find?_eq_some hfind)⟩
        · injection hs with hs; injection hs with e1 e2
          subst e1 e2
          exact ⟨(sameBelow_alloc n h1 _ hlen).trans (sameBelow_set n _ c _ hc), by simp [alloc]; exact hlen⟩
      · cases hs
    | none =>
      simp only at hs
      -- the fresh structured-comment dict is empty
      have hget : ((alloc h1 (.comments [])).1.set a (.top other (some h1.length)))[h1.length]? = some (.comments []) := by
        rw [List.getElem?_set_ne (by have := hf.inb; omega)]
        simp [alloc]
      simp only [alloc] at hs hget
      rw [hget] at hs
      simp only [List.find?_nil] at hs
      injection hs with hs; injection hs with e1 e2
      subst e1 e2
      refine ⟨?_, by simp; omega⟩
      exact ((sameBelow_alloc n h1 _ hlen).trans (sameBelow_set n _ a _ hf.above)).trans
        ((sameBelow_alloc n _ _ (by simp [alloc]; omega)).trans (sameBelow_set n _ _ _ hlen))
  · cases hs

theorem writeNotes_spec (n : Nat) (h2 : AHeap) (d : Nat) (rd : RegionData) (h3 : AHeap) (hd : n ≤ d)
    (hw : writeNotes h2 d rd = some h3) : SameBelow n h2 h3 := by
  unfold writeNotes at hw
  split at hw
  · cases hw
  · injection hw with hw
    subst hw
    exact sameBelow_set n h2 d _ hd

/-- `_build_annotations` leaves every dict of the full record's annotations as it was -/
theorem buildAnnotations_keeps_parent (h : AHeap) (parent : Nat) (rd : RegionData) (h' : AHeap) (a : Nat)
    (hb : buildAnnotationsHeap h parent rd = some (h', a)) :
    SameBelow h.length h h' ∧ ∃ t, readTop h parent = some t ∧ readTop h' parent = some t := by
  unfold buildAnnotationsHeap at hb
  split at hb
  · cases hb
  · rename_i h1 a1 hd
    split at hb
    · cases hb
    · rename_i h2 d hs
      split at hb
      · cases hb
      · rename_i h3 hw
        injection hb with hb; injection hb with e1 e2
        subst e1 e2
        obtain ⟨s1, hf, _⟩ := deepcopyTop_spec h parent h1 a1 hd
        obtain ⟨s2, hdn⟩ := setdefaults_spec h.length h1 a1 hf h2 d hs
        have s3 := writeNotes_spec h.length h2 d rd h3 hdn hw
        have hall := (s1.trans s2).trans s3
        refine ⟨hall, ?_⟩
        unfold deepcopyTop at hd
        cases ht : readTop h parent with
        | none => rw [ht] at hd; cases hd
        | some t => exact ⟨t, rfl, readTop_below h h3 hall parent t ht⟩

end ASV.RegionExtract
