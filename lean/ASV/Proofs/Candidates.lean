/-
  Helper lemmas for candidate cluster formation (C05): the de-duplication table, the constructor,
  coverage of every protocluster, well-formedness of every candidate built.
-/
import ASV.Proofs.MergeSets
set_option linter.unusedSectionVars false
set_option linter.unusedVariables false
namespace ASV.CC
open ASV.CC.Spec

/-! ### sorting keeps the elements -/

theorem perm_sortProtos (l : List Proto) : (sortProtos l).Perm l :=
  (perm_pySort protoLt _).trans (perm_sortBy tieLt l)
theorem perm_sortCands (l : List Cand) : (sortCands l).Perm l := perm_pySort candLt l
theorem mem_sortProtos {l : List Proto} {p : Proto} : p ∈ sortProtos l ↔ p ∈ l := (perm_sortProtos l).mem_iff
theorem mem_sortCands {l : List Cand} {c : Cand} : c ∈ sortCands l ↔ c ∈ l := (perm_sortCands l).mem_iff
theorem length_sortProtos (l : List Proto) : (sortProtos l).length = l.length := (perm_sortProtos l).length_eq
theorem nodup_sortProtos {l : List Proto} (h : l.Nodup) : (sortProtos l).Nodup :=
  (perm_sortProtos l).nodup_iff.2 h

/-! ### the constructor -/

/-- what a successfully constructed candidate satisfies -/
structure CandOK (wrap : Option Int) (c : Cand) : Prop where
  nonempty : c.members ≠ []
  loc_eq : connect (c.members.map (·.loc)) wrap = .ok c.loc
  contains : ∀ m, m ∈ c.members → locationContainsOther c.loc m.loc = true

theorem mkCand_ok {wrap : Option Int} {k : Kind} {ms : List Proto} {c : Cand} (h : mkCand wrap k ms = .ok c) :
    c.kind = k ∧ c.members = ms ∧ CandOK wrap c := by
  unfold mkCand at h
  split at h
  · cases h
  · rename_i hne
    split at h
    · cases h
    · rename_i loc hloc
      repeat' (split at h; try cases h)
      rename_i hcont
      injection h with h
      subst h
      refine ⟨rfl, rfl, ⟨?_, hloc, ?_⟩⟩
      · intro e; exact hne (by simpa using e)
      · intro m hm
        have : (ms.all fun m => locationContainsOther loc m.loc) = true := by simpa using hcont
        exact (List.all_eq_true.1 this) m hm

/-! ### the table -/

theorem getGo_mem {k : Int × Int} {l : List ((Int × Int) × Cand)} {c : Cand} (h : getGo k l = some c) :
    (k, c) ∈ l := by
  induction l with
  | nil => simp [getGo] at h
  | cons e es ih =>
    simp only [getGo] at h
    split at h
    · rename_i hk
      injection h with h
      have : e.1 = k := by simpa using hk
      rw [← this, ← h]; exact List.mem_cons_self
    · exact List.mem_cons_of_mem _ (ih h)

theorem mem_setGo_self (k : Int × Int) (c : Cand) (l : List ((Int × Int) × Cand)) : (k, c) ∈ setGo k c l := by
  induction l with
  | nil => simp [setGo]
  | cons e es ih =>
    simp only [setGo]
    split
    · exact List.mem_cons_self
    · exact List.mem_cons_of_mem _ ih

theorem mem_setGo_old {k : Int × Int} {c : Cand} {l : List ((Int × Int) × Cand)} {e : (Int × Int) × Cand}
    (he : e ∈ l) : e ∈ setGo k c l ∨ (e.1 = k ∧ getGo k l = some e.2) := by
  induction l with
  | nil => cases he
  | cons e0 es ih =>
    simp only [setGo, getGo]
    by_cases hk : (e0.1 == k) = true
    · simp only [hk, if_true]
      rcases List.mem_cons.1 he with h | h
      · subst h; exact Or.inr ⟨by simpa using hk, rfl⟩
      · exact Or.inl (List.mem_cons_of_mem _ h)
    · simp only [hk, Bool.false_eq_true, if_false]
      rcases List.mem_cons.1 he with h | h
      · subst h; exact Or.inl List.mem_cons_self
      · rcases ih h with h2 | h2
        · exact Or.inl (List.mem_cons_of_mem _ h2)
        · exact Or.inr h2

theorem mem_setGo_new {k : Int × Int} {c : Cand} {l : List ((Int × Int) × Cand)} {e : (Int × Int) × Cand}
    (he : e ∈ setGo k c l) : e = (k, c) ∨ e ∈ l := by
  induction l with
  | nil => simp [setGo] at he; exact Or.inl he
  | cons e0 es ih =>
    simp only [setGo] at he
    split at he
    · rcases List.mem_cons.1 he with h | h
      · exact Or.inl h
      · exact Or.inr (List.mem_cons_of_mem _ h)
    · rcases List.mem_cons.1 he with h | h
      · exact Or.inr (h ▸ List.mem_cons_self)
      · rcases ih h with h2 | h2
        · exact Or.inl h2
        · exact Or.inr (List.mem_cons_of_mem _ h2)

/-- some candidate of the table contains the protocluster -/
def Covers (t : Table) (p : Proto) : Prop := ∃ c, c ∈ t.values ∧ p ∈ c.members

theorem mem_values {t : Table} {c : Cand} : c ∈ t.values ↔ ∃ k, (k, c) ∈ t.existing := by
  simp only [Table.values, List.mem_map]
  constructor
  · rintro ⟨e, he, rfl⟩; exact ⟨e.1, he⟩
  · rintro ⟨k, hk⟩; exact ⟨(k, c), hk, rfl⟩

theorem mem_values_set_self (t : Table) (k : Int × Int) (c : Cand) : c ∈ (t.set k c).values :=
  mem_values.2 ⟨k, mem_setGo_self k c t.existing⟩

/-- replacing by a candidate with at least the members of the one it replaces keeps coverage -/
theorem covers_set {t : Table} {k : Int × Int} {c : Cand} {p : Proto}
    (hrep : ∀ ex, t.get k = some ex → ∀ q, q ∈ ex.members → q ∈ c.members) (h : Covers t p) :
    Covers (t.set k c) p := by
  obtain ⟨d, hd, hp⟩ := h
  obtain ⟨kd, hkd⟩ := mem_values.1 hd
  rcases mem_setGo_old (k := k) (c := c) hkd with h1 | ⟨_, h2⟩
  · exact ⟨d, mem_values.2 ⟨kd, h1⟩, hp⟩
  · exact ⟨c, mem_values_set_self t k c, hrep d h2 p hp⟩

theorem mem_diffL {α : Type} [DecidableEq α] {a b : List α} {x : α} : x ∈ diffL a b ↔ x ∈ a ∧ x ∉ b := by
  simp [diffL, List.mem_filter]

/-! ### `build_candidates` -/

theorem buildOne_spec {wrap : Option Int} {kind : Kind} {t t' : Table} {g : List Proto}
    (h : buildOne wrap kind t g = .ok t') :
    (∀ p, p ∈ g → Covers t' p) ∧ (∀ p, Covers t p → Covers t' p) ∧ (∀ p, p ∈ t.singles → p ∈ t'.singles) := by
  unfold buildOne at h
  split at h
  · cases h
  · split at h
    · cases h
    · rename_i cand hcand
      obtain ⟨_, hmem, _⟩ := mkCand_ok hcand
      dsimp only at h
      split at h
      · -- new key
        rename_i hget
        injection h with h; subst h
        refine ⟨?_, ?_, fun p hp => hp⟩
        · intro p hp
          exact ⟨cand, mem_values_set_self _ _ _, by rw [hmem]; exact mem_sortProtos.2 hp⟩
        · intro p hp
          exact covers_set (fun ex hex => by rw [hget] at hex; cases hex) hp
      · rename_i ex hget
        split at h
        · -- nothing new
          rename_i hextras
          split at h
          · cases h
          injection h with h; subst h
          refine ⟨?_, fun p hp => hp, fun p hp => hp⟩
          intro p hp
          have hpe : p ∈ ex.members := by
            by_cases hin : p ∈ ex.members
            · exact hin
            · exfalso
              have : p ∈ diffL (dedup g) ex.members := mem_diffL.2 ⟨mem_dedup.2 hp, hin⟩
              have he : diffL (dedup g) ex.members = [] := by simpa using hextras
              rw [he] at this; cases this
          exact ⟨ex, mem_values.2 ⟨_, getGo_mem hget⟩, hpe⟩
        · split at h
          · cases h
          · rename_i repl hrepl
            obtain ⟨_, hrm, _⟩ := mkCand_ok hrepl
            have hsub : ∀ q, q ∈ ex.members → q ∈ repl.members := by
              intro q hq; rw [hrm]
              exact mem_sortProtos.2 (List.mem_append.2 (Or.inl (mem_dedup.2 hq)))
            have hcov : ∀ p, Covers t p → Covers (t.set (locKey cand.loc) repl) p := by
              intro p hp
              exact covers_set (fun ex' hex' q hq => by
                have : ex' = ex := by rw [hget] at hex'; injection hex' with e; exact e.symm
                subst this; exact hsub q hq) hp
            have hg : ∀ p, p ∈ g → Covers (t.set (locKey cand.loc) repl) p := by
              intro p hp
              refine ⟨repl, mem_values_set_self _ _ _, ?_⟩
              rw [hrm]
              apply mem_sortProtos.2
              by_cases hin : p ∈ ex.members
              · exact List.mem_append.2 (Or.inl (mem_dedup.2 hin))
              · exact List.mem_append.2 (Or.inr (mem_diffL.2 ⟨mem_dedup.2 hp, hin⟩))
            injection h with h; subst h
            split
            · refine ⟨hg, hcov, ?_⟩
              intro p hp
              exact mem_unionL.2 (Or.inl hp)
            · exact ⟨hg, hcov, fun p hp => hp⟩

theorem buildCandidates_spec {wrap : Option Int} {kind : Kind} {t t' : Table} {gs : List (List Proto)}
    (h : buildCandidates wrap kind t gs = .ok t') :
    (∀ g, g ∈ gs → ∀ p, p ∈ g → Covers t' p) ∧ (∀ p, Covers t p → Covers t' p) ∧
    (∀ p, p ∈ t.singles → p ∈ t'.singles) := by
  induction gs generalizing t with
  | nil =>
    simp only [buildCandidates] at h
    injection h with h; subst h
    exact ⟨fun g hg => (by cases hg), fun p hp => hp, fun p hp => hp⟩
  | cons g gs ih =>
    simp only [buildCandidates] at h
    split at h
    · cases h
    · rename_i t1 h1
      obtain ⟨a1, b1, c1⟩ := buildOne_spec h1
      obtain ⟨a2, b2, c2⟩ := ih h
      refine ⟨?_, fun p hp => b2 p (b1 p hp), fun p hp => c2 p (c1 p hp)⟩
      intro g' hg' p hp
      rcases List.mem_cons.1 hg' with e | e
      · subst e; exact b2 p (a1 p hp)
      · exact a2 g' e p hp

end ASV.CC
