/-
  Line protocol driver: one JSON object per input line → one JSON object per output line.
  `{"p": "<property>", "id": n, …}` is dispatched to `ASV.Drv.<property>.handle`; the reply
  carries the same id, plus either the handler's fields or `"err"`.
  Imports models/specs only (no Mathlib, no proofs) so it links as a native executable.
-/
import ASV.Drv.C01
import ASV.Drv.C02
import ASV.Drv.C03
import ASV.Drv.C04
import ASV.Drv.C05
import ASV.Drv.C06
import ASV.Drv.C07
import ASV.Drv.C08
import ASV.Drv.C09
import ASV.Drv.C10
import ASV.Drv.C11
import ASV.Drv.C12
import ASV.Drv.C13
import ASV.Drv.C14
import ASV.Drv.C15
import ASV.Drv.C16
import ASV.Drv.C17
import ASV.Drv.C18
import ASV.Drv.C19
import ASV.Drv.C20
open Lean ASV.Drv

def dispatch (p : String) (j : Json) : R Json :=
  match p with
  | "C01" => ASV.Drv.C01.handle j
  | "C02" => ASV.Drv.C02.handle j
  | "C03" => ASV.Drv.C03.handle j
  | "C04" => ASV.Drv.C04.handle j
  | "C05" => ASV.Drv.C05.handle j
  | "C06" => ASV.Drv.C06.handle j
  | "C07" => ASV.Drv.C07.handle j
  | "C08" => ASV.Drv.C08.handle j
  | "C09" => ASV.Drv.C09.handle j
  | "C10" => ASV.Drv.C10.handle j
  | "C11" => ASV.Drv.C11.handle j
  | "C12" => ASV.Drv.C12.handle j
  | "C13" => ASV.Drv.C13.handle j
  | "C14" => ASV.Drv.C14.handle j
  | "C15" => ASV.Drv.C15.handle j
  | "C16" => ASV.Drv.C16.handle j
  | "C17" => ASV.Drv.C17.handle j
  | "C18" => ASV.Drv.C18.handle j
  | "C19" => ASV.Drv.C19.handle j
  | "C20" => ASV.Drv.C20.handle j
  | _ => throw s!"unknown property {p}"

def handleLine (line : String) : String :=
  match Json.parse line with
  | .error e => (jObj [("err", Json.str s!"parse: {e}")]).compress
  | .ok j =>
    let id := fldD j "id" Json.null
    match (do dispatch (← strF j "p") j) with
    | .ok r => (r.setObjVal! "id" id).compress
    | .error e => (jObj [("id", id), ("err", Json.str e)]).compress

partial def loop (hin hout : IO.FS.Stream) : IO Unit := do
  let line ← hin.getLine
  if line.isEmpty then return ()
  let t := line.trimAscii.toString
  if !t.isEmpty then
    hout.putStrLn (handleLine t)
    if t.startsWith "{\"flush\"" then hout.flush
  loop hin hout

def main : IO Unit := do
  let hin ← IO.getStdin
  let hout ← IO.getStdout
  loop hin hout
  hout.flush
