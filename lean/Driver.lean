/-
  Line protocol driver: one JSON object per input line → one JSON object per output line.
  `{"p": "<property>", "id": n, …}` is dispatched to `ASV.Drv.<property>.handle`; the reply
  carries the same id, plus either the handler's fields or `"err"`.
  Imports models/specs only (no Mathlib, no proofs) so it links as a native executable.
-/
import ASV.Drv.C01
open Lean ASV.Drv

def dispatch (p : String) (j : Json) : R Json :=
  match p with
  | "C01" => ASV.Drv.C01.handle j
  | _ => throw s!"unknown property {p}"

def handleLine (line : String) : String :=
  match Json.parse line with
  | .error e => (jObj [("err", Json.str s!"parse: {e}")]).compress
  | .ok j =>
    let id := fldD j "id" Json.null
    match (do dispatch (← strF j "p") j) with
    | .ok r => (r.setObjVal! "id" id).compress
    | .error e => (jObj [("id", id), ("err", Json.str e)]).compress

partial def loop (hin hout : IO.FS.Stream) : IO Unit := do
  let line ← hin.getLine
  if line.isEmpty then return ()
  let t := line.trimAscii.toString
  if !t.isEmpty then
    hout.putStrLn (handleLine t)
    if t.startsWith "{\"flush\"" then hout.flush
  loop hin hout

def main : IO Unit := do
  let hin ← IO.getStdin
  let hout ← IO.getStdout
  loop hin hout
  hout.flush
