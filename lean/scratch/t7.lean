import ASV.Proofs.RegionsComponents
namespace ASV.Regions
open ASV ASV.SweepG ASV.Components

def toArea (f : Feat) : Area := (f.id, f.loc)
def areasOf (s : State) : List Area := (s.cands ++ s.subs).map toArea

theorem shares_iff_ov {len : Int} (a b : Feat) (ha : LineArea len a.loc) (hb : LineArea len b.loc) :
    (toArea a).2.SharesBase (toArea b).2 ↔ Ov fLo fHi a b := by
  obtain ⟨p, hp, _, hp1, _⟩ := ha
  obtain ⟨q, hq, _, hq1, _⟩ := hb
  simp only [toArea, Ov, fLo, fHi, hp, hq, Loc.start, Loc.end, Loc.SharesBase, Loc.mem, Loc.parts, List.any_cons, List.any_nil,
    Bool.or_false, Part.mem_iff]
  constructor
  · rintro ⟨i, h1, h2⟩; omega
  · intro h; exact ⟨max p.lo q.lo, by omega, by omega⟩

/-- the groups of the sweep over a sorted list of line areas are the connected components -/
theorem sweep_components {len : Int} (l : List Feat) (hall : ∀ f ∈ l, LineArea len f.loc)
    (hsorted : l.Pairwise (fun a b => fLo a ≤ fLo b)) :
    IsComponents (l.map toArea) ((sweep fLo fHi l).map (fun g => g.members.map toArea)) := by
  cases l with
  | nil => exact ⟨by simp [sweep], by simp [sweep], by simp [sweep], by simp [sweep]⟩
  | cons first rest =>
    have hwf : ∀ y ∈ first :: rest, fLo y < fHi y := fun y hy => (hall y hy).bounds.2.1
    have hspec := sweep_spec fLo fHi first rest hsorted hwf
    have hflat : ((sweep fLo fHi (first :: rest)).map Grp.members).flatten = first :: rest := by
      rw [hspec.flat]; rfl
    have hmem : ∀ g ∈ sweep fLo fHi (first :: rest), ∀ f ∈ g.members, f ∈ first :: rest := by
      intro g hg f hf
      rw [← hflat]
      exact List.mem_flatten.2 ⟨g.members, List.mem_map.2 ⟨g, hg, rfl⟩, hf⟩
    refine ⟨?_, ?_, ?_, ?_⟩
    · have : ((sweep fLo fHi (first :: rest)).map (fun g => g.members.map toArea)).flatten
          = (((sweep fLo fHi (first :: rest)).map Grp.members).flatten).map toArea := by
        rw [List.map_flatten, List.map_map]; rfl
      rw [this, hflat]
    · intro g hg
      obtain ⟨g0, hg0, rfl⟩ := List.mem_map.1 hg
      simpa using (hspec.inv g0 hg0).ne
    · intro g hg a ha b hb
      obtain ⟨g0, hg0, rfl⟩ := List.mem_map.1 hg
      obtain ⟨fa, hfa, rfl⟩ := List.mem_map.1 ha
      obtain ⟨fb, hfb, rfl⟩ := List.mem_map.1 hb
      have hinv := hspec.inv g0 hg0
      obtain ⟨m, r, hmr⟩ : ∃ m r, g0.members = m :: r := by
        cases hm : g0.members with
        | nil => exact absurd hm hinv.ne
        | cons m r => exact ⟨m, r, rfl⟩
      have hin : ∀ x ∈ m :: r, x ∈ first :: rest := fun x hx => hmem g0 hg0 x (hmr ▸ hx)
      have hlink := chained_linked (lo := fLo) (hi := fHi)
        (fun x y => Linked ((first :: rest).map toArea) (toArea x) (toArea y)) m r
        (fun x hx => Linked.refl _ (List.mem_map.2 ⟨x, hin x hx, rfl⟩))
        (fun x _ y hy z hz hxy hov => Linked.step hxy (List.mem_map.2 ⟨z, hin z hz, rfl⟩)
          ((shares_iff_ov y z (hall y (hin y hy)) (hall z (hin z hz))).2 hov))
        (fun x hx => hwf x (hin x hx)) (hmr ▸ hinv.chained)
      exact (hlink fa (hmr ▸ hfa)).symm.trans (hlink fb (hmr ▸ hfb))
    · rw [List.pairwise_map]
      refine List.Pairwise.imp_of_mem ?_ hspec.sep
      intro g g' hg hg' hsep a ha b hb
      obtain ⟨fa, hfa, rfl⟩ := List.mem_map.1 ha
      obtain ⟨fb, hfb, rfl⟩ := List.mem_map.1 hb
      rw [shares_iff_ov fa fb (hall fa (hmem g hg fa hfa)) (hall fb (hmem g' hg' fb hfb))]
      exact sep_no_overlap hspec hsep hg hg' hfa hfb

theorem Linked.of_perm {as bs : List Area} (hp : as.Perm bs) {a b : Area} (h : Linked as a b) : Linked bs a b := by
  induction h with
  | refl ha => exact Linked.refl _ (hp.mem_iff.1 ha)
  | step _ hc hs ih => exact Linked.step ih (hp.mem_iff.1 hc) hs

theorem IsComponents.of_perm {as bs : List Area} {gs : List (List Area)} (hp : as.Perm bs) (h : IsComponents as gs) :
    IsComponents bs gs :=
  ⟨h.perm.trans hp, h.nonempty, fun g hg a ha b hb => Linked.of_perm hp (h.linked g hg a ha b hb), h.separated⟩
end ASV.Regions
