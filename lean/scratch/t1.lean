import ASV.Proofs.LocOrder
import ASV.Model.Regions
import ASV.Proofs.SweepRegions
namespace ASV.Regions
open ASV

def LineArea (len : Int) (l : Loc) : Prop := ∃ p, l = .simple p ∧ 0 ≤ p.lo ∧ p.lo < p.hi ∧ p.hi ≤ len

def lineKey (l : Loc) : Int × Int := (l.start, -l.len)

theorem collectionLt_line {len : Int} {a b : Loc} (ha : LineArea len a) (hb : LineArea len b) :
    collectionLt a b = .ok (keyLt (lineKey a) (lineKey b)) := by
  obtain ⟨p, rfl, hp0, hp1, hp2⟩ := ha
  obtain ⟨q, rfl, hq0, hq1, hq2⟩ := hb
  simp only [collectionLt, locationContainsOther, Loc.parts, List.all_cons, List.all_nil, List.any_cons, List.any_nil,
    partContains, comparatorStart, bridgesOrigin, Loc.start, Loc.len, Part.len, lineKey, keyLt, List.map, List.sum_cons, List.sum_nil,
    Bool.or_false, Bool.and_true, Bool.false_eq_true, if_false, bind, Except.bind, pure, Except.pure]
  split
  · next h =>
    simp only [Bool.and_eq_true, decide_eq_true_eq, Bool.not_eq_true', Bool.and_eq_false_iff, decide_eq_false_iff_not] at h
    congr 1
    symm
    simp
    rcases Int.lt_or_le p.lo q.lo with h1 | h1
    · exact Or.inl (decide_eq_true h1)
    · right; omega
  · rfl
end ASV.Regions
