import ASV.Model.Candidates
open ASV ASV.CC
variable {α : Type} [DecidableEq α]
example (a b : List α) (x : α) : x ∈ unionL a b ↔ x ∈ a ∨ x ∈ b := by
  simp [unionL, List.mem_append, List.mem_filter]
  constructor
  · rintro (h | ⟨h, _⟩) <;> simp [h]
  · intro h
    by_cases hx : x ∈ a
    · exact Or.inl hx
    · rcases h with h | h
      · exact absurd h hx
      · exact Or.inr ⟨h, hx⟩
example (a b : List α) : disjointB a b = true ↔ ∀ x ∈ a, x ∉ b := by
  simp [disjointB]
