import ASV.Proofs.LocOrder
import ASV.Spec.Lookup
open ASV

theorem splitBridging_compound_ok {ps lower upper : List Part} (h : splitBridging (.compound ps) = .ok (lower, upper)) :
    (if (Loc.compound ps).strand != Strand.rev then splitFwd [] ps else splitRev [] ps) = (lower, upper)
    ∧ upper ≠ [] := by
  unfold splitBridging at h
  simp only [bind, Except.bind, pure, Except.pure, throw, throwThe, MonadExceptOf.throw] at h
  split at h
  · simp at h
  · split at h
    · rename_i hs
      simp only [hs, if_true]
      split at h
      · simp at h
      · rename_i he
        split at h
        · simp at h
        · injection h with h
          refine ⟨h, ?_⟩
          intro e
          have : (splitFwd [] ps).2 = upper := (Prod.mk.inj h).2
          simp [this, e] at he
    · rename_i hs
      simp only [hs]
      split at h
      · simp at h
      · rename_i he
        split at h
        · simp at h
        · injection h with h
          refine ⟨h, ?_⟩
          intro e
          have : (splitRev [] ps).2 = upper := (Prod.mk.inj h).2
          simp [this, e] at he
