import ASV.Proofs.LookupKey
theorem mem_takeWhile_imp' {α} (p : α → Bool) : ∀ (l : List α) (x : α), x ∈ l.takeWhile p → p x = true
  | [], x, h => by simp at h
  | a :: l, x, h => by
    simp only [List.takeWhile_cons] at h
    split at h
    · rcases List.mem_cons.1 h with rfl | h
      · assumption
      · exact mem_takeWhile_imp' p l x h
    · simp at h
