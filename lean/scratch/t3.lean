import ASV.Proofs.RegionsLine
namespace ASV.Regions
open ASV ASV.SweepG

theorem collectionInitCheck_simple (p : Part) (h0 : 0 ≤ p.lo) (h1 : p.lo ≤ p.hi) :
    collectionInitCheck (.simple p) = .ok () := by
  simp [collectionInitCheck, Loc.parts, strandsUsed, Loc.start, Loc.end, h0, h1, pure, Except.pure, bind, Except.bind]

theorem setParents_ok (d : Dict (Option Nat)) (parent : Feat) (cs : List Feat)
    (h : ∀ c ∈ cs, locationContainsOther parent.loc c.loc = true) :
    setParents d parent cs = .ok (cs.foldl (fun d c => d.set c.id (some parent.id)) d) := by
  induction cs generalizing d with
  | nil => rfl
  | cons c cs ih =>
    simp only [setParents, h c (by simp), Bool.not_true, Bool.false_eq_true, if_false, List.foldl_cons]
    exact ih _ (fun x hx => h x (by simp [hx]))

/-- hull of a non-empty list of line areas -/
def hullLoc (fs : List Feat) : Loc :=
  .simple ⟨minList (fs.map fLo), maxList (fs.map fHi), commonStrand (fs.map (·.loc))⟩

theorem hull_bounds {len : Int} (fs : List Feat) (hne : fs ≠ []) (h : ∀ f ∈ fs, LineArea len f.loc) :
    0 ≤ minList (fs.map fLo) ∧ minList (fs.map fLo) < maxList (fs.map fHi) ∧ maxList (fs.map fHi) ≤ len := by
  have hne1 : fs.map fLo ≠ [] := by simpa using hne
  have hne2 : fs.map fHi ≠ [] := by simpa using hne
  obtain ⟨f, hf, e1⟩ := List.mem_map.1 (minList_mem hne1)
  obtain ⟨g, hg, e2⟩ := List.mem_map.1 (maxList_mem hne2)
  have b1 := (h f hf).bounds
  have b2 := (h g hg).bounds
  have : fHi f ≤ maxList (fs.map fHi) := le_maxList_of_mem (List.mem_map.2 ⟨f, hf, rfl⟩)
  simp only [fLo, fHi] at *
  omega

theorem hull_contains {len : Int} (fs : List Feat) (h : ∀ f ∈ fs, LineArea len f.loc) (f : Feat) (hf : f ∈ fs) :
    locationContainsOther (hullLoc fs) f.loc = true := by
  obtain ⟨p, hp, h0, h1, h2⟩ := h f hf
  have a1 : minList (fs.map fLo) ≤ fLo f := minList_le_of_mem (List.mem_map.2 ⟨f, hf, rfl⟩)
  have a2 : fHi f ≤ maxList (fs.map fHi) := le_maxList_of_mem (List.mem_map.2 ⟨f, hf, rfl⟩)
  simp only [fLo, fHi, hp, Loc.start, Loc.end] at a1 a2
  simp only [locationContainsOther, hullLoc, hp, Loc.parts, List.all_cons, List.all_nil, List.any_cons, List.any_nil,
    partContains, Bool.or_false, Bool.and_true, Bool.and_eq_true, decide_eq_true_eq]
  omega

theorem mkRegion_line {len : Int} (s : State) (cands subs : List Feat)
    (hne : subs ++ cands ≠ []) (h : ∀ f ∈ subs ++ cands, LineArea len f.loc) :
    mkRegion s cands subs = .ok
      ({ s with nextRid := s.nextRid + 1,
                parent := (subs ++ cands).foldl (fun d c => d.set c.id (some s.nextRid)) s.parent },
       { id := s.nextRid, kind := .region, loc := hullLoc (subs ++ cands),
         kids := cands.map (·.id), subs := subs.map (·.id) }) := by
  have hemp : (cands.isEmpty && subs.isEmpty) = false := by
    cases cands <;> cases subs <;> simp_all
  have hany : ((subs ++ cands).map (·.loc)).any bridgesOrigin = false := by
    rw [List.any_eq_false]
    intro l hl
    obtain ⟨f, hf, rfl⟩ := List.mem_map.1 hl
    simp [(h f hf).parts.2]
  have hconn : connect ((subs ++ cands).map (·.loc)) none = .ok (hullLoc (subs ++ cands)) := by
    rw [connect_line _ (by simpa using hne)]
    · simp only [hullLoc, List.map_map]; rfl
    · intro l hl
      obtain ⟨f, hf, rfl⟩ := List.mem_map.1 hl
      exact (h f hf).parts
  have hb := hull_bounds (subs ++ cands) hne h
  have hchk : collectionInitCheck (hullLoc (subs ++ cands)) = .ok () :=
    collectionInitCheck_simple _ hb.1 (by simp only; omega)
  simp only [mkRegion, hemp, hany, Bool.false_eq_true, if_false, hconn, hchk, bind, Except.bind, pure, Except.pure]
  rw [setParents_ok]
  · intro c hc
    exact hull_contains _ h c hc
end ASV.Regions
