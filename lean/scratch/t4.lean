import ASV.Proofs.RegionsLine
namespace ASV.Regions
open ASV ASV.SweepG

theorem regionIndex_append (region : Feat) (i : Nat) (rs : List Feat)
    (hno : ∀ r ∈ rs, locationsOverlap region.loc r.loc = false ∧ collectionLt region.loc r.loc = .ok false) :
    regionIndex region i rs = .ok (i + rs.length) := by
  induction rs generalizing i with
  | nil => rfl
  | cons r rs ih =>
    simp only [regionIndex, (hno r (by simp)).1, (hno r (by simp)).2, Bool.false_eq_true, if_false, bind, Except.bind,
      pure, Except.pure]
    rw [ih _ (fun x hx => hno x (by simp [hx]))]
    simp only [List.length_cons]
    congr 1; omega

theorem insertAt_length {α} (l : List α) (x : α) : insertAt l l.length x = l ++ [x] := by
  simp [insertAt]

theorem checkInside_ok (s : State) (loc : Loc) (h0 : 0 ≤ loc.start) (h1 : loc.end ≤ s.len) : checkInside s loc = .ok () := by
  simp [checkInside, h0, h1, pure, Except.pure, bind, Except.bind]

theorem addRegion_line {len : Int} (s : State) (region : Feat) (hlen : s.len = len) (hr : LineArea len region.loc)
    (hregs : ∀ r ∈ s.regions, LineArea len r.loc ∧ r.loc.end ≤ region.loc.start) :
    addRegion s region = .ok { s with
      regions := s.regions ++ [{ region with cdses := cdsWithin s.cds region.loc }],
      numR := renumber s.numR (s.regions ++ [{ region with cdses := cdsWithin s.cds region.loc }]) s.regions.length,
      cdsRegion := (cdsWithin s.cds region.loc).foldl (fun (acc : Dict (Option Nat)) i => acc.set i (some region.id)) s.cdsRegion } := by
  have hb := hr.bounds
  have hidx : regionIndex region 0 s.regions = .ok s.regions.length := by
    rw [regionIndex_append region 0 s.regions]
    · simp
    · intro r hr'
      obtain ⟨hrl, hre⟩ := hregs r hr'
      refine ⟨?_, ?_⟩
      · obtain ⟨p, hp, _, hp1, _⟩ := hr
        obtain ⟨q, hq, _, hq1, _⟩ := hrl
        rw [hp, hq, overlap_simple p q hp1 hq1]
        simp only [hp, hq, Loc.start, Loc.end] at hre
        simp only [Bool.and_eq_false_iff, decide_eq_false_iff_not]
        omega
      · rw [collectionLt_line hr hrl]
        congr 1
        rw [keyLt_false_iff]
        have := hrl.bounds
        simp only [lineKey]
        omega
  simp only [addRegion, checkInside_ok s region.loc hb.1 (by omega), hidx, bind, Except.bind, pure, Except.pure,
    insertAt_length]
end ASV.Regions
