import ASV.Proofs.RegionsLine
namespace ASV.Regions
open ASV ASV.SweepG

theorem no_overlap_sep (g g' : Grp Feat) (h1 : g.lo < g.hi) (h2 : g'.lo < g'.hi) (hsep : g.hi ≤ g'.lo) :
    locationsOverlap (secOf g).1 (secOf g').1 = false := by
  simp only [secOf]
  rw [overlap_simple _ _ h1 h2]
  simp only [Bool.and_eq_false_iff, decide_eq_false_iff_not]
  omega

theorem mergeFirstLast_line (gs : List (Grp Feat)) (hsep : gs.Pairwise (fun g g' => g.hi ≤ g'.lo))
    (hwf : ∀ g ∈ gs, g.lo < g.hi) (n : Nat) :
    mergeFirstLast none n (gs.map secOf) = .ok (gs.map secOf) := by
  cases n with
  | zero => rfl
  | succ n =>
    match gs, hsep, hwf with
    | [], _, _ => rfl
    | [g], _, _ => rfl
    | g :: g2 :: more, hsep, hwf =>
      simp only [List.map_cons, mergeFirstLast]
      have hne : (g2 :: more) ≠ [] := by simp
      have hlast : (secOf g2 :: List.map secOf more).getLast? = some (secOf ((g2 :: more).getLast hne)) := by
        rw [← List.map_cons, List.getLast?_map, List.getLast?_eq_some_getLast hne]; rfl
      rw [hlast]
      have hmem : (g2 :: more).getLast hne ∈ g2 :: more := List.getLast_mem hne
      have h1 := (List.pairwise_cons.1 hsep).1 _ hmem
      simp only [no_overlap_sep g _ (hwf g (by simp)) (hwf _ (by simp [hmem])) h1]
      rfl
end ASV.Regions
