import ASV.Proofs.LookupKey
open ASV ASV.Lookup
theorem pairLt_iff (a b : Int × Int) : pairLt a b = true ↔ a.1 < b.1 ∨ (a.1 = b.1 ∧ a.2 < b.2) := by
  simp only [pairLt, Bool.or_eq_true, Bool.and_eq_true, decide_eq_true_eq, beq_iff_eq]
theorem locLt_true_iff (a b : Loc) : locLt a b = true ↔
    cmpStart a < cmpStart b ∨ (cmpStart a = cmpStart b ∧ a.len < b.len) := by
  unfold locLt; rw [pairLt_iff]; exact Iff.rfl
theorem locLt_false_iff (a b : Loc) : locLt a b = false ↔
    cmpStart b < cmpStart a ∨ (cmpStart a = cmpStart b ∧ b.len ≤ a.len) := by
  rw [← Bool.not_eq_true, locLt_true_iff]; omega
