import ASV.Proofs.RegionsComponents
namespace ASV.Regions
open ASV ASV.SweepG ASV.Components

/-- what `create_regions` must produce for one group of areas: the hull of the group, the ids of its
    candidate clusters and of its subregions -/
def expectedRegion (g : List Feat) : Loc × List Nat × List Nat :=
  (.simple ⟨minList (g.map fLo), maxList (g.map fHi), commonStrand ((childrenOf g).map (·.loc))⟩,
   (candsOf g).map (·.id), (subsOf g).map (·.id))

theorem grpView_eq {g : Grp Feat} (hg : GInv fLo fHi g) : grpView g = expectedRegion g.members := by
  have := hull_of_group hg g.members (List.Perm.refl _)
  simp only [grpView, expectedRegion, this.1, this.2]

theorem createRegions_linear_components (s : State) (h : LinearOK s) :
    ∃ (s' : State) (groups : List (List Feat)), createRegions s = .ok s' ∧
      s'.cands = s.cands ∧ s'.subs = s.subs ∧ s'.protos = s.protos ∧
      IsComponents (areasOf s) (groups.map (·.map toArea)) ∧
      s'.regions.map view = groups.map expectedRegion ∧
      s'.regions.Pairwise (fun r r' => ¬ r.loc.SharesBase r'.loc) := by
  obtain ⟨s', h1, h2, h3, h4, h5, _, _⟩ := createRegions_line s h
  have hperm := sortedAreas_perm s
  have hall : ∀ f ∈ sortedAreas s, LineArea s.len f.loc := fun f hf => h.areas f (hperm.mem_iff.1 hf)
  have hsorted := sortedAreas_sorted s
  have hcomp := (sweep_components (sortedAreas s) hall hsorted).of_perm (hperm.map toArea)
  refine ⟨s', (sweep fLo fHi (sortedAreas s)).map Grp.members, h1, h3, h4, h5, ?_, ?_, ?_⟩
  · rw [List.map_map]; exact hcomp
  · rw [h2, List.map_map]
    apply List.map_congr_left
    intro g hg
    cases hsa : sortedAreas s with
    | nil => rw [hsa] at hg; simp [sweep] at hg
    | cons first rest =>
      rw [hsa] at hg hsorted hall
      have hspec := sweep_spec fLo fHi first rest hsorted (fun y hy => (hall y hy).bounds.2.1)
      exact grpView_eq (hspec.inv g hg)
  · have : (s'.regions.map view).Pairwise (fun v v' => ¬ v.1.SharesBase v'.1) := by
      rw [h2, List.pairwise_map]
      cases hsa : sortedAreas s with
      | nil => simp [sweep]
      | cons first rest =>
        rw [hsa] at hsorted hall
        have hspec := sweep_spec fLo fHi first rest hsorted (fun y hy => (hall y hy).bounds.2.1)
        refine List.Pairwise.imp_of_mem ?_ hspec.sep
        intro g g' hg hg' hsep
        have := group_nonempty (hspec.inv g hg)
        have := group_nonempty (hspec.inv g' hg')
        simp only [grpView, Loc.SharesBase, Loc.mem, Loc.parts, List.any_cons, List.any_nil, Bool.or_false, Part.mem_iff]
        rintro ⟨i, hi1, hi2⟩
        omega
    rw [List.pairwise_map] at this
    exact this
end ASV.Regions
