import ASV.Proofs.RegionsComponents
namespace ASV.Regions
open ASV ASV.SweepG ASV.Components

/-- the hypotheses of the linear theorem: a linear record whose candidate clusters and subregions are
    single non-empty spans inside the record (what `add_*` and the constructors guarantee), with no
    regions yet -/
structure LinearOK (s : State) : Prop where
  lin : s.circular = false
  areas : ∀ f ∈ s.cands ++ s.subs, LineArea s.len f.loc
  noRegions : s.regions = []

def areaLt (a b : Feat) : Bool := keyLt (lineKey a.loc) (lineKey b.loc)

/-- the areas in the order `areas.sort()` leaves them -/
def sortedAreas (s : State) : List Feat := sortP areaLt (s.cands ++ s.subs)

theorem sortedAreas_perm (s : State) : (sortedAreas s).Perm (s.cands ++ s.subs) := sortP_perm _ _

theorem sortedAreas_sorted (s : State) : (sortedAreas s).Pairwise (fun a b => fLo a ≤ fLo b) := by
  have h := sortP_sorted (key := fun f => lineKey f.loc) (lt := areaLt) (fun _ _ => rfl) (s.cands ++ s.subs)
  refine List.Pairwise.imp ?_ h
  intro a b hab
  rw [keyLt_false_iff] at hab
  simp only [lineKey, fLo] at *
  omega

theorem secOf_single {len : Int} (f : Feat) (h : LineArea len f.loc) : (secOf ⟨fLo f, fHi f, [f]⟩).1 = f.loc := by
  obtain ⟨p, hp, _⟩ := h
  simp only [secOf, fLo, fHi, hullStrand, List.foldl, hp, Loc.start, Loc.end, Loc.strand]

/-- on a linear record `create_regions` succeeds and adds exactly one region per group of the sweep
    over the sorted areas, in order -/
theorem createRegions_line (s : State) (h : LinearOK s) :
    ∃ s', createRegions s = .ok s' ∧
      s'.regions.map view = (sweep fLo fHi (sortedAreas s)).map grpView ∧
      s'.cands = s.cands ∧ s'.subs = s.subs ∧ s'.protos = s.protos ∧ s'.len = s.len ∧ s'.circular = s.circular := by
  have hperm := sortedAreas_perm s
  have hsort : sortAreas (s.cands ++ s.subs) = .ok (sortedAreas s) :=
    sortAreas_eq areaLt _ (fun x hx y hy => collectionLt_line (h.areas y hy) (h.areas x hx))
  by_cases hemp : s.cands ++ s.subs = []
  · have h1 : s.cands = [] := (List.append_eq_nil_iff.1 hemp).1
    have h2 : s.subs = [] := (List.append_eq_nil_iff.1 hemp).2
    refine ⟨s, ?_, ?_, rfl, rfl, rfl, rfl, rfl⟩
    · simp [createRegions, h1, h2, pure, Except.pure]
    · simp [sortedAreas, hemp, sortP, sweep, h.noRegions]
  · have hne : (s.cands.isEmpty && s.subs.isEmpty) = false := by
      cases hc : s.cands <;> cases hs : s.subs <;> simp_all
    have hsne : sortedAreas s ≠ [] := fun e => hemp (List.perm_nil.1 (e ▸ hperm.symm))
    obtain ⟨first, rest, hfr⟩ : ∃ first rest, sortedAreas s = first :: rest := by
      cases hsa : sortedAreas s with
      | nil => exact absurd hsa hsne
      | cons a b => exact ⟨a, b, rfl⟩
    have hall : ∀ f ∈ first :: rest, LineArea s.len f.loc := fun f hf => h.areas f (hperm.mem_iff.1 (hfr ▸ hf))
    have hsorted := sortedAreas_sorted s
    rw [hfr] at hsorted
    have hwf : ∀ y ∈ first :: rest, fLo y < fHi y := fun y hy => (hall y hy).bounds.2.1
    have hspec := sweep_spec fLo fHi first rest hsorted hwf
    have hsw : sweepAreas s.wrap first.loc [first] rest = .ok ((sweep fLo fHi (first :: rest)).map secOf) := by
      have := sweepAreas_line (len := s.len) ⟨fLo first, fHi first, [first]⟩ rest (by simp) (hwf first (by simp))
        (fun y hy => hall y (by simp [hy])) (fun y hy => (List.pairwise_cons.1 hsorted).1 y hy)
        (List.pairwise_cons.1 hsorted).2
      rw [secOf_single first (hall first (by simp))] at this
      simp only [State.wrap, h.lin, Bool.false_eq_true, if_false]
      exact this
    have hmerge := mergeFirstLast_line (sweep fLo fHi (first :: rest)) hspec.sep
      (fun g hg => group_nonempty (hspec.inv g hg)) ((sweep fLo fHi (first :: rest)).map secOf).length
    have hsec : sections s = .ok ((sweep fLo fHi (first :: rest)).map secOf) := by
      have hw : s.wrap = none := by simp [State.wrap, h.lin]
      rw [hw] at hsw
      simp only [sections, hsort, hfr, bind, Except.bind, hsw, hw, hmerge]
    obtain ⟨s', h1, h2, h3⟩ := addSections_line (len := s.len) (sweep fLo fHi (first :: rest)) s rfl hspec.inv hspec.sep
      (by
        intro g hg f hf
        apply hall
        have : f ∈ ((sweep fLo fHi (first :: rest)).map Grp.members).flatten :=
          List.mem_flatten.2 ⟨g.members, List.mem_map.2 ⟨g, hg, rfl⟩, hf⟩
        rw [hspec.flat] at this
        simpa using this)
      (by rw [h.noRegions]; intro r hr; cases hr)
    refine ⟨s', ?_, ?_, h3⟩
    · simp only [createRegions, hne, Bool.false_eq_true, if_false, hsec, bind, Except.bind, h1]
    · rw [h2, h.noRegions, hfr]; rfl
end ASV.Regions
