import ASV.Proofs.RegionsLine
namespace ASV.Regions
open ASV ASV.SweepG

def candsOf (areas : List Feat) : List Feat := areas.filter (·.kind == .cand)
def subsOf (areas : List Feat) : List Feat := areas.filter (·.kind != .cand)
/-- `children` of `Region.__init__`: subregions first -/
def childrenOf (areas : List Feat) : List Feat := subsOf areas ++ candsOf areas

theorem childrenOf_perm (areas : List Feat) : (childrenOf areas).Perm areas :=
  List.perm_append_comm.trans (by
    have := List.filter_append_perm (fun x : Feat => x.kind == Kind.cand) areas
    simpa only [candsOf, subsOf, bne] using this)

theorem minList_eq {l : List Int} {v : Int} (hv : v ∈ l) (hle : ∀ x ∈ l, v ≤ x) : minList l = v := by
  have h1 := minList_le_of_mem hv
  have h2 := hle _ (minList_mem (List.ne_nil_of_mem hv))
  omega

theorem maxList_eq {l : List Int} {v : Int} (hv : v ∈ l) (hle : ∀ x ∈ l, x ≤ v) : maxList l = v := by
  have h1 := le_maxList_of_mem hv
  have h2 := hle _ (maxList_mem (List.ne_nil_of_mem hv))
  omega

/-- the hull of a group's members (in any order) is the group's running hull -/
theorem hull_of_group {g : Grp Feat} (hg : GInv fLo fHi g) (fs : List Feat) (hp : fs.Perm g.members) :
    minList (fs.map fLo) = g.lo ∧ maxList (fs.map fHi) = g.hi := by
  constructor
  · obtain ⟨m, hm, e⟩ := hg.loAtt
    apply minList_eq
    · exact List.mem_map.2 ⟨m, hp.mem_iff.2 hm, e⟩
    · intro x hx
      obtain ⟨f, hf, rfl⟩ := List.mem_map.1 hx
      exact hg.loMin f (hp.mem_iff.1 hf)
  · obtain ⟨m, hm, e⟩ := hg.hiAtt
    apply maxList_eq
    · exact List.mem_map.2 ⟨m, hp.mem_iff.2 hm, e⟩
    · intro x hx
      obtain ⟨f, hf, rfl⟩ := List.mem_map.1 hx
      exact hg.hiMax f (hp.mem_iff.1 hf)

theorem group_nonempty {g : Grp Feat} (hg : GInv fLo fHi g) : g.lo < g.hi := by
  obtain ⟨m, hm, e⟩ := hg.loAtt
  have := hg.wf m hm
  have := hg.hiMax m hm
  omega

/-- what is observable of a region: location, candidate ids, subregion ids -/
def view (r : Feat) : Loc × List Nat × List Nat := (r.loc, r.kids, r.subs)

def grpView (g : Grp Feat) : Loc × List Nat × List Nat :=
  (.simple ⟨g.lo, g.hi, commonStrand ((childrenOf g.members).map (·.loc))⟩,
   (candsOf g.members).map (·.id), (subsOf g.members).map (·.id))

theorem addSection_step {len : Int} (s : State) (g : Grp Feat) (hlen : s.len = len)
    (hg : GInv fLo fHi g) (harea : ∀ f ∈ g.members, LineArea len f.loc)
    (hregs : ∀ r ∈ s.regions, LineArea len r.loc ∧ r.loc.end ≤ g.lo) :
    ∃ s1 r s2, mkRegion s (candsOf g.members) (subsOf g.members) = .ok (s1, r) ∧ addRegion s1 r = .ok s2 ∧
      s2.regions = s.regions ++ [{ r with cdses := cdsWithin s.cds r.loc }] ∧ view r = grpView g ∧
      s2.cands = s.cands ∧ s2.subs = s.subs ∧ s2.protos = s.protos ∧ s2.len = s.len ∧
      s2.circular = s.circular := by
  have hperm := childrenOf_perm g.members
  have hne : childrenOf g.members ≠ [] := by
    intro h
    rw [h] at hperm
    exact hg.ne (List.perm_nil.1 hperm.symm)
  have hch : ∀ f ∈ childrenOf g.members, LineArea len f.loc :=
    fun f hf => harea f (hperm.mem_iff.1 hf)
  have hhull := hull_of_group hg _ hperm
  have hb := hull_bounds _ hne hch
  have hmk := mkRegion_line (len := len) s (candsOf g.members) (subsOf g.members) hne hch
  have hr : LineArea len (newRegion s (candsOf g.members) (subsOf g.members)).loc :=
    ⟨_, rfl, hb.1, hb.2.1, hb.2.2⟩
  have hadd := addRegion_line (len := len) (afterMk s (subsOf g.members ++ candsOf g.members))
    (newRegion s (candsOf g.members) (subsOf g.members)) hlen hr (by
      intro r hr'
      refine ⟨(hregs r hr').1, ?_⟩
      have := (hregs r hr').2
      simp only [newRegion, hullLoc, Loc.start]
      rw [show subsOf g.members ++ candsOf g.members = childrenOf g.members from rfl, hhull.1]
      exact this)
  refine ⟨_, _, _, hmk, hadd, rfl, ?_, rfl, rfl, rfl, rfl, rfl⟩
  simp only [view, grpView, newRegion, hullLoc]
  rw [show subsOf g.members ++ candsOf g.members = childrenOf g.members from rfl, hhull.1, hhull.2]

theorem addSections_cons (s : State) (l : Loc) (areas : List Feat) (rest : List Sec) :
    addSections s ((l, areas) :: rest) =
      (mkRegion s (candsOf areas) (subsOf areas) >>= fun x => addRegion x.1 x.2 >>= fun s2 => addSections s2 rest) := rfl

theorem addSections_line {len : Int} (gs : List (Grp Feat)) (s : State) (hlen : s.len = len)
    (hinv : ∀ g ∈ gs, GInv fLo fHi g) (hsep : gs.Pairwise (fun g g' => g.hi ≤ g'.lo))
    (harea : ∀ g ∈ gs, ∀ f ∈ g.members, LineArea len f.loc)
    (hregs : ∀ r ∈ s.regions, LineArea len r.loc ∧ ∀ g ∈ gs, r.loc.end ≤ g.lo) :
    ∃ s', addSections s (gs.map secOf) = .ok s' ∧
      s'.regions.map view = s.regions.map view ++ gs.map grpView ∧
      s'.cands = s.cands ∧ s'.subs = s.subs ∧ s'.protos = s.protos ∧ s'.len = s.len ∧
      s'.circular = s.circular := by
  induction gs generalizing s with
  | nil => exact ⟨s, rfl, by simp, rfl, rfl, rfl, rfl, rfl⟩
  | cons g gs ih =>
    have hg := hinv g (by simp)
    have hsep' := List.pairwise_cons.1 hsep
    obtain ⟨s1, r, s2, hmk, hadd, e1, e2, e3, e4, e5, e6, e7⟩ := addSection_step s g hlen hg (harea g (by simp))
      (fun r hr => ⟨(hregs r hr).1, (hregs r hr).2 g (by simp)⟩)
    have hview : r.loc = (grpView g).1 := by rw [← e2]; rfl
    obtain ⟨s', h1, h2, h3, h4, h5, h6, h7⟩ := ih s2 (by rw [e6]; exact hlen) (fun g' hg' => hinv g' (by simp [hg'])) hsep'.2
      (fun g' hg' => harea g' (by simp [hg'])) (by
        intro x hx
        rw [e1] at hx
        simp only [List.mem_append, List.mem_singleton] at hx
        rcases hx with hx | rfl
        · exact ⟨(hregs x hx).1, fun g' hg' => (hregs x hx).2 g' (by simp [hg'])⟩
        · have hnon := group_nonempty hg
          have hb : 0 ≤ g.lo ∧ g.hi ≤ len := by
            obtain ⟨m, hm, e⟩ := hg.loAtt
            obtain ⟨m', hm', e'⟩ := hg.hiAtt
            have := (harea g (by simp) m hm).bounds
            have := (harea g (by simp) m' hm').bounds
            simp only [fLo, fHi] at e e'
            omega
          simp only [hview, grpView]
          exact ⟨⟨_, rfl, hb.1, hnon, hb.2⟩, fun g' hg' => hsep'.1 g' hg'⟩)
    refine ⟨s', ?_, ?_, h3.trans e3, h4.trans e4, h5.trans e5, h6.trans e6, h7.trans e7⟩
    · simp only [List.map_cons, secOf, addSections_cons, hmk, hadd, bind, Except.bind, h1]
    · rw [h2, e1]
      simp only [List.map_append, List.map_cons, List.map_nil, List.append_assoc, List.singleton_append]
      congr 2
end ASV.Regions
