import ASV.Model.Loc
import ASV.Model.Rules
import ASV.Spec.Bases
import ASV.Spec.Formula
import ASV.Proofs.Loc
import ASV.Proofs.Rules
import ASV.Props.C01
