"""C07 — detection is invariant under origin rotation and rule order.

Metamorphic check on the REAL pipeline.  One case = one record (length, topology, genes with their
dynamic-profile hits), one ruleset, a list of rotations `rots` (cut points: the new origin) and a
list of rule `variants` (permutations / sub-selections, as index lists into the ruleset).  For the
base run and for every rotation / variant the harness

  * builds a fresh DummyRecord with the real CDS lookup, every gene location re-indexed by the cut
    point (split at the new origin, parts kept in transcription order, touching pieces of a gene
    that no longer spans the origin re-joined),
  * runs detect_protoclusters_and_signatures + annotate_cds_features + add_protocluster +
    create_candidate_clusters + create_regions,
  * observes (through two pass-through wrappers, no behaviour change) the anchoring gene sets handed
    to find_protoclusters and the protoclusters before / after remove_redundant_protoclusters,
  * dumps canonical *membership*: per rule the anchoring genes, the protoclusters as (core genes,
    member genes), the candidate clusters as (kind, member protoclusters as (product, core genes)),
    the regions as member gene sets.

The dumps of the runs are compared with the base run in `judge` (no model needed for that).  The
re-indexing itself is the transcription `Rot.rotateLoc` in Lean (theorem `reindexing_is_a_rotation`); the
driver recomputes it for every rotation and the real `offset_location` must cover the same bases.  The
Lean driver runs the whole pipeline model (`Pipe.run`: C03 detection, C05 formation, C06 regions) and C03's model on every run (correspondence on anchors / protoclusters before and
after the superiors step / final protoclusters with definition domains), evaluates C03's and C06's
executable specs on what each run reported and returns the spec's chains, so a disagreement
between two real runs is attributed to the run that violates the spec; that text is the replay detail.
"""
from __future__ import annotations

import itertools
import logging
import random
from typing import Any, Dict, Iterator, List, Optional, Tuple

from ..framework import Judgement, Property, err_kind
from . import common
from .c03 import C03, compound, simple, unstranded

CP = "antismash/common/hmm_rule_parser/cluster_prediction.py"
RP = "antismash/common/hmm_rule_parser/rule_parser.py"
LOC = "antismash/common/secmet/locations.py"
REC = "antismash/common/secmet/record.py"
FORM = "antismash/common/secmet/features/candidate_cluster/formation.py"

# ids under which the recorded defects of other properties are listed for C07 (known_findings.json)
KF_SUPERIOR = "KF-C07-superior-overlap"          # = KF-C03-superior-overlap seen through two runs

_CAPTURE: Dict[str, Any] = {}
_PATCHED: Dict[str, Any] = {}


def install_wrappers() -> None:
    """pass-through wrappers recording the arguments / results of two stages of the real pipeline"""
    from antismash.common.hmm_rule_parser import cluster_prediction as cp
    if _PATCHED.get("module") is cp:
        return
    real_find = cp.find_protoclusters
    real_remove = cp.remove_redundant_protoclusters

    def find_protoclusters(record: Any, cds_by_cluster_type: Any, *args: Any, **kwargs: Any) -> Any:
        _CAPTURE["anchors"] = {rule: sorted(names) for rule, names in cds_by_cluster_type.items()}
        return real_find(record, cds_by_cluster_type, *args, **kwargs)

    def remove_redundant_protoclusters(clusters: Any, *args: Any, **kwargs: Any) -> Any:
        before = list(clusters)
        after = real_remove(clusters, *args, **kwargs)
        _CAPTURE["ext"] = before
        _CAPTURE["kept"] = list(after)
        return after

    cp.find_protoclusters = find_protoclusters
    cp.remove_redundant_protoclusters = remove_redundant_protoclusters
    _PATCHED["module"] = cp


def rotate_loc(loc: Dict[str, Any], k: int, length: int) -> Dict[str, Any]:
    """the location after choosing base `k` as the new origin: new coordinate = (old - k) mod length"""
    out: List[List[Any]] = []
    for lo, hi, s in loc["parts"]:
        lo2, hi2 = lo - k, hi - k
        if hi2 <= 0:
            lo2 += length
            hi2 += length
        if lo2 < 0:       # the part contains the new origin
            pieces = [[lo2 + length, length, s], [0, hi2, s]]
            if s == -1:
                pieces.reverse()
        else:
            pieces = [[lo2, hi2, s]]
        for p in pieces:
            if out and s != -1 and out[-1][1] == p[0]:
                out[-1][1] = p[1]
            elif out and s == -1 and out[-1][0] == p[1]:
                out[-1][0] = p[0]
            else:
                out.append(list(p))
    return {"c": len(out) > 1, "parts": out}


def gid(name: str) -> int:
    return int(name[1:])


class C07(Property):
    ID = "C07"
    SHAPE = [(CP, q) for q in (
        "apply_cluster_rules", "find_protoclusters", "_extend_area_location", "apply_extenders",
        "remove_redundant_protoclusters", "merge_over_origin", "strip_inferior_domains", "build_results",
        "detect_protoclusters_and_signatures", "find_dynamic_hits", "RuleDetectionResults.annotate_cds_features",
        "CDSResults.annotate")] + [
        (RP, "DetectionRule.detect"), (RP, "DetectionRule.can_extend_to"), (RP, "Details.in_range"),
        (RP, "Parser._parse_rule"), (RP, "Parser._parse_superiors"), (RP, "DetectionRule.__init__"),
        (CP, "Ruleset.copy_with_replacements"), (CP, "Ruleset.__post_init__"), (LOC, "offset_location"),
        (CP, "Ruleset.from_files"), (CP, "create_rules"), ("antismash/detection/hmm_detection/__init__.py", "check_options"),
        ("antismash/detection/hmm_detection/__init__.py", "get_arguments"),
        ("antismash/common/hmm_rule_parser/structures.py", "Multipliers"),
        (LOC, "connect_locations"), (LOC, "get_distance_between_locations"), (LOC, "locations_overlap"),
        (LOC, "location_contains_other"), (LOC, "location_bridges_origin"), (LOC, "make_forwards"),
        (LOC, "extend_location"),
        (REC, "Record.get_cds_features_within_location"), (REC, "Record.add_protocluster"),
        (REC, "Record.create_candidate_clusters"), (REC, "Record.create_regions"), (REC, "Record.add_region"),
        (REC, "Record.extend_location"), (REC, "Record.connect_locations"),
        (REC, "Record.get_distance_between_locations"),
        (FORM, "create_candidates_from_protoclusters"), (FORM, "_merge_sets"), (FORM, "_find_hybrids"),
        (FORM, "_find_interleaved"), (FORM, "_find_neighbouring"), (FORM, "_sorted_protoclusters"),
        (FORM, "_find_interleaved_candidates"), (FORM, "_find_cross_origin_interleaved"),
        (FORM, "_find_neighbouring_candidates"), (FORM, "_find_neighbouring_protoclusters"),
        ("antismash/common/secmet/features/protocluster.py", "Protocluster.__init__"),
        ("antismash/common/secmet/features/protocluster.py", "Protocluster.add_cds"),
        ("antismash/common/secmet/features/cdscollection.py", "CDSCollection.__lt__"),
        ("antismash/common/secmet/features/feature.py", "Feature.__lt__"),
        ("antismash/common/secmet/features/region/structures.py", "Region.__init__"),
        ("antismash/detection/hmm_detection/__init__.py", "get_ruleset"),
        ("antismash/detection/hmm_detection/__init__.py", "run_on_record"),
    ]
    RULE = ("records (circular: small rings of 24-64 bases with every cut point enumerated or boundary-directed cuts — every gene "
            "start, inside, end, every protocluster core / neighbourhood edge — plus random cuts; 'kb' rings of 40-200 units of 1000 "
            "with off-grid genes and 16+ cuts; C03's layouts and structured scenarios; linear records for the rule-order part) x genes on "
            "both strands incl. multi-exon and origin-spanning ones x dynamic-profile hits x rulesets of 1-4 rules (mixed cutoffs / "
            "neighbourhoods, and/or/cds/minimum/negation conditions, superiors, EXTENDERS) x rotations x every permutation and every "
            "sub-selection of the rules (<= 3 rules; sampled for 4 in the quick tier, all in the deep tier); one case bundles the base "
            "run with all its rotated / re-ordered runs (the count of compared run pairs is added to `evaluations`); non-trivial = the "
            "base run reports a protocluster and some compared run cuts through a protocluster or changes the ruleset; distinct by canonical input")
    TRUSTED = ["HMMER hit production is not exercised: hits come from dynamic profiles (same hits for every rotation by gene name)",
               "two pass-through wrappers (find_protoclusters, remove_redundant_protoclusters) record arguments/results of the real functions",
               "rulesets are built directly; where the conditions can be written as rule text, a second time through rule_parser.Parser and "
               "Ruleset.copy_with_replacements (the two must detect identically); the `opt` runs go through the real option parsing, "
               "hmm_detection.get_ruleset and run_on_record with the rule files of the strictness replaced by a file holding the case's rules, "
               "the dynamic profiles by the case's, and HMMer hit production switched off (strictness levels and the shipped data files are C02's / C17's)",
               "Pipe.run takes definition CDSes as 'genes in the core with definition domains for the product' (what annotate_cds_features + "
               "Protocluster.add_cds amount to); GeneFunction bookkeeping itself is not modelled",
               "C06's model is entered at create_regions with the candidate clusters of C05's model (numbering dictionaries empty)"]

    def __init__(self) -> None:
        self.gen = C03()
        self.pairs = 0

    # ------------------------------------------------------------------ generators
    def small_ring(self, rng: random.Random) -> Dict[str, Any]:
        """unit-1 ring, a handful of short genes, distances around the gaps"""
        length = rng.choice([24, 30, 36, 40, 48, 57, 64])
        ngenes = rng.choice([2, 3, 3, 4, 4, 5, 6, 7])
        cutoffs = rng.choice([[2, 3, 5], [2, 5], [3], [1, 4, 6]])
        nbhds = rng.choice([[0, 1, 3], [1, 6], [2], [0, 10]])
        genes: List[Dict[str, Any]] = []
        seen = set()
        pos = rng.randrange(0, 4)
        for _ in range(ngenes):
            glen = rng.choice([1, 2, 2, 3, 4, 6])
            lo, hi = pos, pos + glen
            if hi > length:
                break
            strand = rng.choice([1, -1])
            if glen >= 3 and rng.random() < 0.2:
                cut1 = lo + rng.randrange(1, glen - 1)
                cut2 = rng.randrange(cut1 + 1, hi)
                parts = [[lo, cut1, strand], [cut2, hi, strand]]
                if strand == -1:
                    parts.reverse()
                loc = compound(parts)
            else:
                loc = simple(lo, hi, strand)
            if repr(loc["parts"]) not in seen:
                seen.add(repr(loc["parts"]))
                genes.append({"loc": loc})
            c = rng.choice(cutoffs)
            gap = rng.choice([c - 1, c, c + 1, 0, 1, -1, 2 * c, c - 1, c])
            pos = max(hi + gap, lo + 1)
        if genes and rng.random() < 0.3:
            first_lo = min(p[0] for g in genes for p in g["loc"]["parts"])
            last_hi = max(p[1] for g in genes for p in g["loc"]["parts"])
            if first_lo >= 1 and last_hi < length:
                up = rng.randrange(1, min(3, length - last_hi) + 1)
                down = rng.randrange(1, min(3, first_lo) + 1)
                if rng.random() < 0.5:
                    genes.append({"loc": compound([[length - up, length, 1], [0, down, 1]])})
                else:
                    genes.append({"loc": compound([[0, down, -1], [length - up, length, -1]])})
        rng.shuffle(genes)
        for n, g in enumerate(genes):
            g["n"] = n
        self.gen.assign_hits(rng, genes)
        rules = self.rand_rules(rng, cutoffs, nbhds)
        return {"len": length, "circ": True, "genes": genes, "rules": rules}

    def kb_ring(self, rng: random.Random) -> Dict[str, Any]:
        """ring of 40-200 'kb' (units of 1000), genes off the grid, cutoffs 2/5/20 kb"""
        unit = 1000
        length = rng.choice([40, 60, 80, 100, 150, 200]) * unit + rng.choice([0, 0, 1, 7, 500])
        cutoffs = [u * unit for u in rng.choice([[2, 5, 20], [2, 5, 20], [5, 10], [20]])]
        nbhds = [u * unit for u in rng.choice([[1, 10, 25], [5], [10, 20]])]
        ngenes = rng.choice([3, 4, 5, 6, 8, 10])
        genes: List[Dict[str, Any]] = []
        pos = rng.randrange(0, 3 * unit)
        seen = set()
        for _ in range(ngenes):
            glen = rng.choice([300, 900, 1000, 1500, 3001])
            lo, hi = pos, pos + glen
            if hi > length:
                break
            strand = rng.choice([1, -1])
            if rng.random() < 0.12:
                cut1 = lo + rng.randrange(1, glen - 1)
                cut2 = rng.randrange(cut1 + 1, hi)
                parts = [[lo, cut1, strand], [cut2, hi, strand]]
                if strand == -1:
                    parts.reverse()
                loc = compound(parts)
            else:
                loc = simple(lo, hi, strand)
            if repr(loc["parts"]) not in seen:
                seen.add(repr(loc["parts"]))
                genes.append({"loc": loc})
            c = rng.choice(cutoffs)
            gap = rng.choice([c - 1, c, c + 1, 10, 500, 2 * c, c // 2, c - 1, c + 1, 0])
            pos = hi + gap
        if genes:
            # sometimes make the ring end just after the last gene, at a distance around a cutoff from the first
            last_hi = max(p[1] for g in genes for p in g["loc"]["parts"])
            first_lo = min(p[0] for g in genes for p in g["loc"]["parts"])
            if rng.random() < 0.5:
                c = rng.choice(cutoffs)
                length = max(last_hi + max(rng.choice([c - 1, c, c + 1, c // 2]) - first_lo, 0), last_hi, 4 * unit)
            elif last_hi > length:
                length = last_hi
            if rng.random() < 0.3 and first_lo >= 2 and last_hi < length:
                up = rng.randrange(1, min(2000, length - last_hi) + 1)
                down = rng.randrange(1, min(2000, first_lo) + 1)
                if rng.random() < 0.5:
                    genes.append({"loc": compound([[length - up, length, 1], [0, down, 1]])})
                else:
                    genes.append({"loc": compound([[0, down, -1], [length - up, length, -1]])})
        rng.shuffle(genes)
        for n, g in enumerate(genes):
            g["n"] = n
        self.gen.assign_hits(rng, genes)
        rules = self.rand_rules(rng, cutoffs, nbhds)
        return {"len": length, "circ": True, "genes": genes, "rules": rules}

    def rand_rules(self, rng: random.Random, cutoffs: List[int], nbhds: List[int]) -> List[Dict[str, Any]]:
        """2-4 rules (sometimes 1), mixed cutoffs / neighbourhoods, superiors, at most one EXTENDERS rule"""
        rules = self.gen.rand_rules(rng, cutoffs, nbhds)
        if len(rules) == 1 and rng.random() < 0.7:
            rules = self.gen.rand_rules(rng, cutoffs, nbhds)
        seen_ext = False
        for r in rules:
            if r["ext"] is not None:
                if seen_ext:
                    r["ext"] = None
                seen_ext = True
        if not seen_ext and len(rules) >= 2 and rng.random() < 0.35:
            rng.choice(rules)["ext"] = self.gen.rand_ext(rng)
        return rules

    def d1_scenario(self, rng: random.Random) -> Dict[str, Any]:
        """the property's own example: cutoffs big / small / big, a pair of genes either side of the origin"""
        unit = rng.choice([1, 1000])
        big, small = 20 * unit, 2 * unit
        length = rng.choice([100, 120, 64]) * unit
        gap = rng.choice([5, 3, 19, 2, 1]) * unit
        glen = max(unit, 1)
        up = rng.randrange(0, gap + 1)
        g1 = {"loc": simple(length - up - glen, length - up, rng.choice([1, -1])), "hits": [["a", 0]], "hasres": True}
        g2 = {"loc": simple(gap - up, gap - up + glen, rng.choice([1, -1])), "hits": [["b", 0]], "hasres": True}
        genes = [g1, g2]
        if rng.random() < 0.5:
            genes.append({"loc": simple(length // 2, length // 2 + glen), "hits": [[rng.choice("abx"), 0]], "hasres": True})
        for n, g in enumerate(genes):
            g["n"] = n
        cond = rng.choice([["conj", [["single", False, "a"], ["single", False, "b"]]], ["minimum", False, 2, ["a", "b"]]])
        cuts = rng.choice([[big, small, big], [small, big], [big, small], [small, small, big]])
        rules = [{"name": f"r{i}", "cutoff": c, "nbhd": rng.choice([unit, 10 * unit]), "cond": cond, "sup": [], "ext": None}
                 for i, c in enumerate(cuts)]
        return {"len": length, "circ": True, "genes": genes, "rules": rules}

    def neighbour_scenario(self, rng: random.Random) -> Dict[str, Any]:
        """candidate-cluster layouts: one rule with a wide neighbourhood between protoclusters of a rule with a narrow
           one, linked by neighbourhoods only, plus an unrelated protocluster elsewhere; rotations that put the origin
           inside the wide neighbourhood make the wide protocluster span the origin while its neighbours sit at the
           high-coordinate end"""
        unit = rng.choice([100, 1000])
        length = rng.choice([60, 100, 150]) * unit
        wide, narrow = rng.choice([4, 5, 6]) * unit, rng.choice([1, 2]) * unit
        x0 = rng.randrange(25, 45) * unit
        xlen = rng.choice([1, 2]) * unit
        genes = [{"loc": simple(x0, x0 + xlen, rng.choice([1, -1])), "hits": [["a", 0]], "hasres": True}]
        # narrow protoclusters on either side whose neighbourhoods reach the wide one's but not its core
        for side in rng.choice([[-1, 1], [-1, 1], [-1, -1, 1], [1, 1, -1], [1], [-1]]):
            d = rng.randrange(narrow + 1, wide + narrow) if rng.random() < 0.8 else wide + narrow + rng.choice([-1, 0, 1])
            glen = rng.choice([unit // 2, unit])
            lo = x0 - d - glen if side < 0 else x0 + xlen + d
            lo += rng.choice([0, 0, unit // 4, -(unit // 4)])
            if 0 <= lo and lo + glen <= length and not any(g["loc"]["parts"][0][0] < lo + glen and lo < g["loc"]["parts"][0][1] for g in genes):
                genes.append({"loc": simple(lo, lo + glen, rng.choice([1, -1])), "hits": [["b", 0]], "hasres": True})
        far = (x0 + length // 2) % length
        if rng.random() < 0.8 and far + unit <= length:
            genes.append({"loc": simple(far, far + unit // 2), "hits": [[rng.choice("ab"), 0]], "hasres": True})
        rng.shuffle(genes)
        for n, g in enumerate(genes):
            g["n"] = n
        rules = [{"name": "wide", "cutoff": unit, "nbhd": wide, "cond": ["single", False, "a"], "sup": [], "ext": None},
                 {"name": "narrow", "cutoff": unit, "nbhd": narrow, "cond": ["single", False, "b"], "sup": [], "ext": None}]
        if rng.random() < 0.5:
            rules.reverse()
        return {"len": length, "circ": True, "genes": genes, "rules": rules, "untamed": True}

    def extender_chain_scenario(self, rng: random.Random) -> Dict[str, Any]:
        """cores that meet only through EXTENDERS: 2-5 anchoring genes further apart than the cutoff, with
           extendable genes between (some of) them so that the extended cores touch, overlap or come within the
           cutoff of each other and have to be joined by the second merge_over_origin; the chain may close over the
           origin; an unrelated rule elsewhere"""
        unit = rng.choice([1, 10, 1000])
        c = rng.choice([3, 5, 6]) * unit
        glen = rng.choice([1, 2]) * unit if unit > 1 else rng.choice([1, 2])
        nanch = rng.choice([2, 3, 3, 3, 4, 5])
        genes: List[Dict[str, Any]] = []
        pos = rng.randrange(0, 4) * unit
        for i in range(nanch):
            genes.append({"loc": simple(pos, pos + glen, rng.choice([1, -1])), "hits": [["a", 0]], "hasres": True})
            if i == nanch - 1:
                pos += glen
                break
            # the stretch to the next anchor: wider than the cutoff, bridged (or not) by extendable genes
            mode = rng.choice(["bridge", "bridge", "bridge", "half", "none", "two"])
            gap1 = rng.choice([c - unit, c, max(c // 2, 1), 0, unit]) if unit > 1 else rng.choice([c - 1, c, c // 2, 0, 1])
            gap2 = rng.choice([c - unit, c, max(c // 2, 1), 0, c + unit]) if unit > 1 else rng.choice([c - 1, c, c // 2, 0, c + 1])
            e_lo = pos + glen + gap1
            if mode == "none":
                pos = pos + glen + c + rng.choice([0, 1, unit])
                continue
            genes.append({"loc": simple(e_lo, e_lo + glen, rng.choice([1, -1])),
                          "hits": [[rng.choice(["x", "x", "x", "b"]), 0]], "hasres": True})
            end = e_lo + glen
            if mode == "two":
                e2 = end + rng.choice([c - 1, c, 0]) if unit == 1 else end + rng.choice([c - unit, c, 0])
                genes.append({"loc": simple(e2, e2 + glen, rng.choice([1, -1])), "hits": [["x", 0]], "hasres": True})
                end = e2 + glen
            pos = end + (gap2 if mode != "half" else c + rng.choice([1, unit]))
        span = pos
        # the ring: the chain below half of it; sometimes the far end closes onto the first anchor over the origin
        length = max(2 * span + 4 * c + rng.randrange(0, 5) * unit, 12 * unit)
        if rng.random() < 0.5:
            far = span + (length - span) // 2
            genes.append({"loc": simple(far, far + glen, rng.choice([1, -1])), "hits": [[rng.choice("qa"), 0]], "hasres": True})
        shift = rng.choice([0, 0, span // 2, length - genes[0]["loc"]["parts"][0][1], rng.randrange(0, length)])
        if shift:
            for g in genes:
                g["loc"] = rotate_loc(g["loc"], shift % length, length)
        rng.shuffle(genes)
        for n, g in enumerate(genes):
            g["n"] = n
        nb = rng.choice([0, unit, c // 2])
        ext = rng.choice([["single", False, "x"], ["cds", False, [["single", False, "x"], ["single", False, "b"]]]])
        rules = [{"name": "r0", "cutoff": c, "nbhd": nb, "cond": ["single", False, "a"], "sup": [], "ext": ext}]
        if rng.random() < 0.6:
            rules.append({"name": "r1", "cutoff": c, "nbhd": nb, "cond": ["single", False, rng.choice(["q", "x", "a"])],
                          "sup": rng.choice([[], [], ["r0"]]), "ext": None})
        if rng.random() < 0.3:
            rules.reverse()
        return {"len": length, "circ": True, "genes": genes, "rules": rules, "untamed": True}

    def options_scenario(self, rng: random.Random) -> Dict[str, Any]:
        """sub-selection through hmm_detection.get_ruleset: rules with kilobase distances, taxon fungi with fungal
           multipliers (often != 1), gene gaps around the once- and the twice-scaled distances, a sequence of requests in
           one process: the whole ruleset, restrictions by rule names and by categories, repetitions"""
        cmul = rng.choice(["1.5", "1.5", "2.0", "1.0", "0.5", "1.25"])
        nmul = rng.choice(["1.5", "1.5", "2.0", "1.0", "1.25"])
        cm, nm = self.MULS[cmul], self.MULS[nmul]
        nrules = rng.choice([2, 2, 3, 3, 4])
        kb, rules, cat = [], [], []
        conds = [["single", False, "a"], ["single", False, "b"], ["conj", [["single", False, "a"], ["single", False, "b"]]],
                 ["single", False, "c"], ["minimum", False, 2, ["a", "b"]], ["group", False, [["single", False, "a"], ["single", False, "c"]]]]
        for i in range(nrules):
            ckb, nkb = rng.choice([2, 5, 5, 10, 20]), rng.choice([1, 2, 5, 10])
            kb.append([ckb, nkb])
            sup: List[str] = []
            if i and rng.random() < 0.3:
                first = rng.randrange(i)
                sup = [f"r{first}"] + [x for x in rules[first]["sup"] if x != f"r{first}"]
            rules.append({"name": f"r{i}", "cutoff": ckb * 1000 * cm[0] // cm[1], "nbhd": nkb * 1000 * nm[0] // nm[1],
                          "cond": rng.choice(conds), "sup": sup,
                          "ext": ["single", False, "x"] if rng.random() < 0.2 else None})
            cat.append(rng.choice([0, 1]))
        # genes: gaps around the unscaled, once-scaled and twice-scaled cutoffs / neighbourhoods
        genes: List[Dict[str, Any]] = []
        pos = rng.randrange(0, 3000)
        for _ in range(rng.choice([3, 4, 5, 6, 7])):
            glen = rng.choice([300, 1000, 1500])
            hits = [[p, 0] for p in rng.sample(["a", "b", "c", "x"], rng.choice([1, 1, 2]))] if rng.random() < 0.8 else []
            genes.append({"loc": simple(pos, pos + glen, rng.choice([1, -1])), "hits": hits, "hasres": bool(hits)})
            i = rng.randrange(nrules)
            if rng.random() < 0.6:
                c0 = kb[i][0] * 1000
                marks = [c0, c0 * cm[0] // cm[1], c0 * cm[0] * cm[0] // (cm[1] * cm[1])]
            else:
                n0 = kb[i][1] * 1000
                marks = [n0, n0 * nm[0] // nm[1], n0 * nm[0] * nm[0] // (nm[1] * nm[1])]
            lo, hi = min(marks), max(marks)
            gap = rng.choice([marks[1] - 1, marks[1], marks[1] + 1, (marks[1] + marks[2]) // 2, marks[2] - 1, marks[2] + 1,
                              (lo + hi) // 2, lo - 1, 200, hi + 2000])
            pos += glen + max(gap, 0)
        span = pos
        circ = rng.random() < 0.4
        length = 3 * span + 5000 if circ else span + rng.choice([0, 1000, 50000])
        rng.shuffle(genes)
        for n, g in enumerate(genes):
            g["n"] = n
        names = [r["name"] for r in rules]
        requests: List[Dict[str, Any]] = [{"names": [], "cats": []}]
        for _ in range(rng.choice([2, 3, 4])):
            r = rng.random()
            if r < 0.45:
                requests.append({"names": sorted(rng.sample(names, rng.randrange(1, len(names) + 1))), "cats": []})
            elif r < 0.7:
                requests.append({"names": [], "cats": [rng.choice([0, 1])]})
            elif r < 0.8:
                requests.append({"names": sorted(rng.sample(names, rng.randrange(1, len(names) + 1))), "cats": [rng.choice([0, 1])]})
            else:
                requests.append(dict(rng.choice(requests)))
        if rng.random() < 0.4:
            requests[rng.randrange(len(requests))]["check"] = True
        return {"len": length, "circ": circ, "genes": genes, "rules": rules, "untamed": True,
                "opt": {"cmul": cmul, "nmul": nmul, "kb": kb, "cat": cat, "requests": requests}}

    def rotations(self, rng: random.Random, case: Dict[str, Any], cap: int, every: bool) -> List[int]:
        length = case["len"]
        if not case["circ"] or length < 2:
            return []
        if every and length <= 64:
            return list(range(1, length))
        cuts = set()
        dists = sorted({r["cutoff"] for r in case["rules"]} | {r["nbhd"] for r in case["rules"]})
        for g in case["genes"]:
            for lo, hi, _ in g["loc"]["parts"]:
                for x in (lo, lo + 1, hi - 1, hi, (lo + hi) // 2):
                    cuts.add(x % length)
                for d in dists:
                    for x in (lo - d, lo - d + 1, hi + d, hi + d - 1, lo - d // 2, hi + d // 2):
                        cuts.add(x % length)
        cuts.discard(0)
        pool = sorted(cuts)
        rng.shuffle(pool)
        chosen = pool[:max(cap - cap // 4, 1)]
        while len(chosen) < min(cap, length - 1):
            k = rng.randrange(1, length)
            if k not in chosen:
                chosen.append(k)
        return sorted(set(chosen))

    def variants(self, rng: random.Random, case: Dict[str, Any], full: bool) -> List[List[int]]:
        n = len(case["rules"])
        idx = list(range(n))
        out: List[List[int]] = []
        for size in range(1, n + 1):
            for sub in itertools.combinations(idx, size):
                perms = list(itertools.permutations(sub)) if size > 1 else [sub]
                for p in perms:
                    if list(p) != idx:
                        out.append(list(p))
        if not full and len(out) > 12:
            # keep all single-rule and all full-length variants' share balanced
            keep = [v for v in out if len(v) == 1]
            rest = [v for v in out if len(v) > 1]
            rng.shuffle(rest)
            out = keep + rest[:12 - len(keep)]
        return out

    @staticmethod
    def tame(rng: random.Random, case: Dict[str, Any]) -> None:
        """mostly keep the distances small against the ring, so that regions stay below half of it
           (the statement's own guard); one case in six is left as generated"""
        if not case["circ"] or case.pop("untamed", False) or rng.random() < 0.16:
            return
        length = case["len"]
        for r in case["rules"]:
            r["nbhd"] = min(r["nbhd"], max(length // 10, 0))
            r["cutoff"] = min(r["cutoff"], max(length // 6, 1))

    def finish(self, rng: random.Random, case: Dict[str, Any], cap: int, every: bool, full: bool) -> Dict[str, Any]:
        self.tame(rng, case)
        case["rots"] = self.rotations(rng, case, cap, every)
        case["variants"] = self.variants(rng, case, full)
        return case

    def cases(self, rng: random.Random, tier: str, deep: bool) -> Iterator[Dict[str, Any]]:
        n = 1800 if deep else 320
        cap = 24 if deep else 12
        for i in range(n):
            r = rng.random()
            if r < 0.32:
                case = self.small_ring(rng)
            elif r < 0.52:
                case = self.kb_ring(rng)
            elif r < 0.58:
                case = self.d1_scenario(rng)
            elif r < 0.64:
                case = self.neighbour_scenario(rng)
            elif r < 0.70:
                case = self.extender_chain_scenario(rng)
            elif r < 0.76:
                case = self.options_scenario(rng)
            elif r < 0.82:
                case = self.gen.targeted_case(rng)
            else:
                case = self.gen.random_case(rng)
            if not case["genes"]:
                continue
            if len(case["genes"]) > 10:
                case["genes"] = case["genes"][:10]
            every = deep and rng.random() < 0.25
            yield self.finish(rng, case, cap, every, full=deep)
        if deep:
            yield from self.small_scope(rng, full=(tier == "thorough"))

    def small_scope(self, rng: random.Random, full: bool) -> Iterator[Dict[str, Any]]:
        """ring of length 16, <= 3 genes [2k, 2k+2) with profiles from {a, b}, rulesets over cutoffs {1, 3, 5}:
           EVERY cut point (1..15) and every permutation / sub-selection"""
        length = 16
        slots = list(range(0, length, 2))
        rulesets = [
            [{"name": "r0", "cutoff": 3, "nbhd": 1, "cond": ["single", False, "a"], "sup": [], "ext": None},
             {"name": "r1", "cutoff": 5, "nbhd": 0, "cond": ["single", False, "b"], "sup": ["r0"], "ext": None}],
            [{"name": "r0", "cutoff": 5, "nbhd": 1, "cond": ["conj", [["single", False, "a"], ["single", False, "b"]]], "sup": [], "ext": None},
             {"name": "r1", "cutoff": 1, "nbhd": 1, "cond": ["conj", [["single", False, "a"], ["single", False, "b"]]], "sup": [], "ext": None},
             {"name": "r2", "cutoff": 5, "nbhd": 3, "cond": ["conj", [["single", False, "a"], ["single", False, "b"]]], "sup": [], "ext": None}],
            [{"name": "r0", "cutoff": 3, "nbhd": 1, "cond": ["single", False, "a"], "sup": [], "ext": ["single", False, "b"]},
             {"name": "r1", "cutoff": 3, "nbhd": 3, "cond": ["single", False, "b"], "sup": [], "ext": None}],
        ]
        total = 0
        combos = [c for k in (2, 3) for c in itertools.combinations(slots, k)]
        if not full:
            combos = rng.sample(combos, 12)
        for starts in combos:
            for profs in itertools.product(["a", "b", "ab"] if len(starts) == 2 else ["a", "b"], repeat=len(starts)):
                if not full and rng.random() < 0.8:
                    continue
                for rules in rulesets:
                    genes = [{"n": n, "loc": simple(s, s + 2, 1 if n % 2 == 0 else -1), "hits": [[p, 0] for p in pr], "hasres": True}
                             for n, (s, pr) in enumerate(zip(starts, profs))]
                    total += 1
                    case = {"len": length, "circ": True, "genes": genes, "rules": rules}
                    yield self.finish(rng, case, 15, every=True, full=True)
        self.exhaustive_done = full
        self.extra_coverage = {"small_scope_cases": total,
                               "small_scope": "ring of 16, every 2-3 genes on the 2-grid x profiles {a,b,ab} x 3 rulesets x every cut x every "
                                              "permutation/sub-selection" if full else "sampled"}

    # ------------------------------------------------------------------ implementation adapter
    @staticmethod
    def cond_profiles(c: Any) -> List[str]:
        if c is None:
            return []
        if c[0] in ("single", "score"):
            return [c[2]]
        if c[0] == "minimum":
            return list(c[3])
        return [p for sub in common.cond_subs(c) for p in C07.cond_profiles(sub)]

    def profiles(self, case: Dict[str, Any]) -> List[str]:
        named = {p for r in case["rules"] for p in self.cond_profiles(r["cond"]) + self.cond_profiles(r["ext"])}
        return sorted({p for g in case["genes"] for p, _ in g["hits"]} | set(C03.ALL_PROFS) | named)

    def parsed_order(self, case: Dict[str, Any]) -> Optional[List[int]]:
        """an order in which the rules can be written to a rule file (superiors first), or None when the case's
           SUPERIORS lists are not what the parser would store (unknown names, cycles, not transitively closed)"""
        rules = case["rules"]
        by_name = {r["name"]: r for r in rules}
        if len(by_name) != len(rules):
            return None
        for r in rules:
            if len(set(r["sup"])) != len(r["sup"]) or r["name"] in r["sup"]:
                return None
            for sname in r["sup"]:
                if sname not in by_name or any(t not in r["sup"] for t in by_name[sname]["sup"]):
                    return None
        order: List[int] = []
        placed: set = set()
        while len(order) < len(rules):
            progress = False
            for i, r in enumerate(rules):
                if i not in order and all(x in placed for x in r["sup"]):
                    order.append(i)
                    placed.add(r["name"])
                    progress = True
            if not progress:
                return None
        return order

    def build_rules_parsed(self, case: Dict[str, Any], order: List[int]) -> Any:
        """the same ruleset built the way antiSMASH builds it: rule text through rule_parser.Parser
           (distances are whole kilobases in a rule file, so they are set on the parsed rules afterwards)"""
        from antismash.common.hmm_rule_parser import rule_parser as rp
        lines = []
        for i in order:
            r = case["rules"][i]
            text = f"RULE {r['name']} CATEGORY cat"
            if r["sup"]:
                text += " SUPERIORS " + ", ".join(r["sup"])
            text += f" CUTOFF 1 NEIGHBOURHOOD 1 CONDITIONS {common.cond_str(r['cond'])}"
            if r["ext"] is not None:
                text += f" EXTENDERS {common.cond_str(r['ext'])}"
            lines.append(text)
        parsed = rp.Parser("\n".join(lines) + "\n", set(self.profiles(case)), {"cat"}).rules
        by_name = {rule.name: rule for rule in parsed}
        rules = []
        for r in case["rules"]:
            rule = by_name[r["name"]]
            rule.cutoff = r["cutoff"]
            rule.neighbourhood = r["nbhd"]
            rules.append(rule)
        direct = self.build_rules(case, list(range(len(case["rules"]))))
        return direct.copy_with_replacements(rules=tuple(rules)) if hasattr(direct, "copy_with_replacements") else None

    def build_rules(self, case: Dict[str, Any], idxs: List[int]) -> Any:
        from antismash.common.hmm_rule_parser import rule_parser as rp, cluster_prediction as cp
        from antismash.common.hmm_rule_parser.structures import DynamicHit, DynamicProfile
        profs = self.profiles(case)
        table: Dict[str, Dict[str, List[Any]]] = {p: {} for p in profs}
        for g in case["genes"]:
            name = f"g{g['n']}"
            for p, s2 in g["hits"]:
                table[p].setdefault(name, []).append(DynamicHit(name, p, bitscore=s2 / 2))
            if g["hasres"] and not g["hits"]:
                table[profs[0]].setdefault(name, [])

        def mkprof(p: str) -> Any:
            return DynamicProfile(p, "d", lambda record, hmmer: {k: list(v) for k, v in table[p].items()})
        rules = []
        for i in idxs:
            r = case["rules"][i]
            cond = common.build_cond(r["cond"])
            top = cond if type(cond) is rp.Conditions else rp.Conditions(False, [cond])
            ext = common.build_cond(r["ext"]) if r["ext"] is not None else None
            rules.append(rp.DetectionRule(r["name"], "cat", r["cutoff"], r["nbhd"], top,
                                          superiors=list(r["sup"]), extenders=ext))
        return cp.Ruleset(tuple(rules), {}, "", {"cat"}, "tool",
                          dynamic_profiles={p: mkprof(p) for p in profs}, equivalence_groups=[])

    def one_run(self, case: Dict[str, Any], genes: List[Dict[str, Any]], ruleset: Any, idxs: List[int],
                options: Any = None) -> Dict[str, Any]:
        """the real pipeline on one layout / ruleset; canonical dump.  With `options` the module entry point
           hmm_detection.run_on_record is used (it fetches the ruleset through get_ruleset and annotates itself)"""
        from antismash.common.hmm_rule_parser import cluster_prediction as cp
        from antismash.common.secmet.test.helpers import DummyCDS, DummyRecord
        from antismash.common.secmet.locations import location_contains_other
        out: Dict[str, Any] = {}
        try:
            rec = DummyRecord(length=case["len"], circular=case["circ"])
            for g in genes:
                rec.add_cds_feature(DummyCDS(location=common.make_location(g["loc"]), locus_tag=f"g{g['n']}",
                                             translation="MMM"))
        except Exception as exc:  # pylint: disable=broad-except
            return {"err": "build:" + err_kind(exc), "msg": str(exc)[:200]}
        out["order"] = [gid(cds.get_name()) for cds in rec.get_cds_features()]
        _CAPTURE.clear()
        try:
            if options is not None:
                from antismash.detection import hmm_detection
                res = hmm_detection.run_on_record(rec, None, options).rule_results
            else:
                res = cp.detect_protoclusters_and_signatures(rec, ruleset)
        except Exception as exc:  # pylint: disable=broad-except
            out.update({"err": err_kind(exc), "stage": "detect", "msg": str(exc)[:200]})
            return out

        def inside(loc: Any) -> List[int]:
            return sorted(gid(c.get_name()) for c in rec.get_cds_features() if location_contains_other(loc, c.location))
        out["anchors"] = {rule: sorted(gid(n) for n in names) for rule, names in _CAPTURE.get("anchors", {}).items() if names}
        ext = _CAPTURE.get("ext", [])
        kept_ids = {id(pc) for pc in _CAPTURE.get("kept", [])}
        sup_of = {case["rules"][i]["name"]: case["rules"][i]["sup"] for i in idxs}
        out["ext"] = sorted([pc.product, inside(pc.core_location)] for pc in ext)
        out["removed"] = sorted(
            [pc.product, inside(pc.core_location),
             any(o.product in sup_of.get(pc.product, []) and location_contains_other(o.core_location, pc.core_location)
                 for o in ext)]
            for pc in ext if id(pc) not in kept_ids)
        clusters = []
        for pc, cds_results in res.cds_by_cluster.items():
            defs = []
            for cr in cds_results:
                d = cr.definition_domains.get(pc.product)
                if d:
                    defs.append([gid(cr.cds.get_name()), sorted(d)])
            clusters.append({"rule": pc.product, "core": unstranded(common.location_json(pc.core_location)),
                             "loc": unstranded(common.location_json(pc.location)), "defs": sorted(defs),
                             "cg": inside(pc.core_location), "mg": inside(pc.location)})
        clusters.sort(key=lambda c: (c["rule"], repr(c["core"]), repr(c["loc"])))
        out["clusters"] = clusters
        try:
            if options is None:
                res.annotate_cds_features()
            for pc in res.protoclusters:
                rec.add_protocluster(pc)
            rec.create_candidate_clusters()
        except Exception as exc:  # pylint: disable=broad-except
            out.update({"err": err_kind(exc), "stage": "candidates", "msg": str(exc)[:200]})
            return out
        cands = rec.get_candidate_clusters()
        out["cands"] = sorted([str(c.kind), sorted([p.product, inside(p.core_location)] for p in c.protoclusters)]
                              for c in cands)
        out["areas"] = [[i, unstranded(common.location_json(c.location))] for i, c in enumerate(cands)]
        try:
            rec.create_regions()
        except Exception as exc:  # pylint: disable=broad-except
            out.update({"err": err_kind(exc), "stage": "regions", "msg": str(exc)[:200]})
            return out
        index = {id(c): i for i, c in enumerate(cands)}
        regions = rec.get_regions()
        out["regions"] = sorted(inside(r.location) for r in regions)
        out["regs"] = [[unstranded(common.location_json(r.location)), sorted(index[id(c)] for c in r.candidate_clusters)]
                       for r in regions]
        out["span"] = max([len(r.location) for r in regions] or [0])
        return out

    def run_impl(self, case: Dict[str, Any]) -> Dict[str, Any]:
        logging.disable(logging.CRITICAL)
        install_wrappers()
        n = len(case["rules"])
        full = list(range(n))
        try:
            ruleset = self.build_rules(case, full)
        except Exception as exc:  # pylint: disable=broad-except
            return {"err": "build:" + err_kind(exc), "msg": str(exc)[:200]}
        runs = [dict(self.one_run(case, case["genes"], ruleset, full), kind="base", k=0, rules=full)]
        for k in case.get("rots", []):
            genes = [dict(g, loc=rotate_loc(g["loc"], k, case["len"])) for g in case["genes"]]
            run = dict(self.one_run(case, genes, ruleset, full), kind="rot", k=k, rules=full)
            run["offset"] = self.offset_check(case, genes, k)
            runs.append(run)
        order = self.parsed_order(case) if case.get("parsed", True) else None
        if order is not None:
            try:
                rs = self.build_rules_parsed(case, order)
            except Exception:  # pylint: disable=broad-except
                rs = None    # not expressible as rule text (e.g. cds(a) with a single identifier): no such run
            if rs is not None:
                runs.append(dict(self.one_run(case, case["genes"], rs, full), kind="parsed", k=0, rules=full))
        for idxs in case.get("variants", []):
            try:
                rs = self.build_rules(case, idxs)
            except Exception as exc:  # pylint: disable=broad-except
                runs.append({"err": "build:" + err_kind(exc), "msg": str(exc)[:200], "kind": "var", "k": 0, "rules": idxs})
                continue
            runs.append(dict(self.one_run(case, case["genes"], rs, idxs), kind="var", k=0, rules=idxs))
        if case.get("opt"):
            try:
                runs.extend(self.opt_runs(case))
            except Exception as exc:  # pylint: disable=broad-except
                runs.append({"err": "build:" + err_kind(exc), "msg": str(exc)[:200], "kind": "opt", "k": 0, "rules": []})
        return {"runs": runs}

    MULS = {"1.0": (1, 1), "1.5": (3, 2), "2.0": (2, 1), "0.5": (1, 2), "1.25": (5, 4)}

    def opt_selected(self, case: Dict[str, Any], req: Dict[str, Any]) -> List[int]:
        cats = self.opt_categories()
        out = []
        for i, r in enumerate(case["rules"]):
            cat = cats[case["opt"]["cat"][i]]
            if (not req["names"] or r["name"] in req["names"]) and (not req["cats"] or cat in [cats[c] for c in req["cats"]]):
                out.append(i)
        return out

    @staticmethod
    def opt_categories() -> List[str]:
        from antismash.detection import hmm_detection
        return sorted(hmm_detection.CATEGORIES)[:2]

    def opt_runs(self, case: Dict[str, Any]) -> List[Dict[str, Any]]:
        """sub-selection the way a user does it: rule file on disk, options parsed by antiSMASH's own config code,
           `hmm_detection.get_ruleset` (taxon fungi, fungal multipliers, --hmmdetection-limit-to-rule-names/-categories),
           several requests in one process (module-level ruleset cache), detection through `run_on_record`.
           Replaced for the purpose: the rule files of the strictness (a temporary file with the case's rules, distances in
           kilobases), the dynamic profiles (the case's), and HMMer hit production (none: no binaries)"""
        import os
        import tempfile
        from antismash.common.hmm_rule_parser import cluster_prediction as cp
        from antismash.common.hmm_rule_parser.structures import DynamicHit, DynamicProfile
        from antismash.config import build_config, destroy_config
        from antismash.detection import hmm_detection
        opt = case["opt"]
        order = self.parsed_order(case)
        if order is None:
            return []
        cats = self.opt_categories()
        lines = []
        for i in order:
            r = case["rules"][i]
            text = f"RULE {r['name']} CATEGORY {cats[opt['cat'][i]]}"
            if r["sup"]:
                text += " SUPERIORS " + ", ".join(r["sup"])
            text += f" CUTOFF {opt['kb'][i][0]} NEIGHBOURHOOD {opt['kb'][i][1]} CONDITIONS {common.cond_str(r['cond'])}"
            if r["ext"] is not None:
                text += f" EXTENDERS {common.cond_str(r['ext'])}"
            lines.append(text)
        profs = self.profiles(case)
        table: Dict[str, Dict[str, List[Any]]] = {p: {} for p in profs}
        for g in case["genes"]:
            name = f"g{g['n']}"
            for p, s2 in g["hits"]:
                table[p].setdefault(name, []).append(DynamicHit(name, p, bitscore=s2 / 2))
            if g["hasres"] and not g["hits"]:
                table[profs[0]].setdefault(name, [])
        dyn = {p: DynamicProfile(p, "d", (lambda q: lambda record, hmmer: {k: list(v) for k, v in table[q].items()})(p))
               for p in profs}
        handle, path = tempfile.mkstemp(suffix=".txt", prefix="c07_rules_")
        with os.fdopen(handle, "w") as out:
            out.write("\n".join(lines) + "\n")
        saved = (hmm_detection._get_rule_files_for_strictness, hmm_detection.DYNAMIC_PROFILES, cp.find_hmmer_hits)
        runs: List[Dict[str, Any]] = []
        handed: List[Any] = []
        try:
            hmm_detection._get_rule_files_for_strictness = lambda strictness: [path]
            hmm_detection.DYNAMIC_PROFILES = dyn
            cp.find_hmmer_hits = lambda *args, **kwargs: {}
            hmm_detection._RULESETS.clear()
            for req in opt["requests"]:
                idxs = self.opt_selected(case, req)
                args = ["--taxon", "fungi", "--hmmdetection-fungal-cutoff-multiplier", opt["cmul"],
                        "--hmmdetection-fungal-neighbourhood-multiplier", opt["nmul"]]
                if req["names"]:
                    args += ["--hmmdetection-limit-to-rule-names", ",".join(req["names"])]
                if req["cats"]:
                    args += ["--hmmdetection-limit-to-rule-categories", ",".join(cats[c] for c in req["cats"])]
                try:
                    destroy_config()
                    options = build_config(args, isolated=True, modules=[hmm_detection])
                    issues = hmm_detection.check_options(options) if req.get("check") else []
                    ruleset = hmm_detection.get_ruleset(options)
                except Exception as exc:  # pylint: disable=broad-except
                    runs.append({"err": "build:" + err_kind(exc), "msg": str(exc)[:200], "kind": "opt", "k": 0, "rules": idxs})
                    handed.append(None)
                    continue
                run = dict(self.one_run(case, case["genes"], ruleset, idxs, options=options), kind="opt", k=0, rules=idxs)
                run["issues"] = [str(i)[:120] for i in issues]
                run["dist"] = sorted([r.name, int(r.cutoff), int(r.neighbourhood)] for r in ruleset.rules)
                runs.append(run)
                handed.append(ruleset)
            # the rule objects are mutable and may be shared: read every ruleset again after the last request
            for run, ruleset in zip(runs, handed):
                if ruleset is not None:
                    run["final_dist"] = sorted([r.name, int(r.cutoff), int(r.neighbourhood)] for r in ruleset.rules)
        finally:
            hmm_detection._get_rule_files_for_strictness, hmm_detection.DYNAMIC_PROFILES, cp.find_hmmer_hits = saved
            hmm_detection._RULESETS.clear()
            destroy_config()
            os.unlink(path)
        return runs

    @staticmethod
    def bases(loc: Dict[str, Any]) -> List[List[int]]:
        """the set of bases of a location as sorted, merged intervals"""
        out: List[List[int]] = []
        for lo, hi in sorted([p[0], p[1]] for p in loc["parts"]):
            if out and lo <= out[-1][1]:
                out[-1][1] = max(out[-1][1], hi)
            else:
                out.append([lo, hi])
        return out

    def offset_check(self, case: Dict[str, Any], rotated: List[Dict[str, Any]], k: int) -> Dict[str, Any]:
        """the real `offset_location(location, -k, wrap_point=len)` must cover the same bases as the harness' re-indexing"""
        from antismash.common.secmet.locations import offset_location
        bad, raised = [], 0
        for g, g2 in zip(case["genes"], rotated):
            try:
                real = common.location_json(offset_location(common.make_location(g["loc"]), -k, wrap_point=case["len"]))
            except Exception:  # pylint: disable=broad-except
                raised += 1
                continue
            if self.bases(real) != self.bases(g2["loc"]):
                bad.append([g["n"], real["parts"], g2["loc"]["parts"]])
        return {"bad": bad[:3], "raised": raised}

    # ------------------------------------------------------------------ driver
    @staticmethod
    def stranded(loc: Dict[str, Any]) -> Dict[str, Any]:
        return dict(loc, parts=[[p[0], p[1], 1] for p in loc["parts"]])

    def driver_line(self, case: Dict[str, Any], obs: Dict[str, Any]) -> Optional[Dict[str, Any]]:
        if "runs" not in obs:
            return None
        runs = []
        for run in obs["runs"]:
            if "order" not in run:
                runs.append({"genes": [], "order": [], "rules": run["rules"], "impl": None, "areas": None, "regions": None})
                continue
            genes = case["genes"] if run["kind"] != "rot" else \
                [dict(g, loc=rotate_loc(g["loc"], run["k"], case["len"])) for g in case["genes"]]
            impl = None
            if "clusters" in run:
                impl = [{"rule": c["rule"], "core": self.stranded(c["core"]), "loc": self.stranded(c["loc"])}
                        for c in run["clusters"]]
            areas = [[i, self.stranded(loc)] for i, loc in run["areas"]] if "areas" in run and "regs" in run else None
            regs = [[self.stranded(loc), ids] for loc, ids in run["regs"]] if "regs" in run else None
            runs.append({"genes": genes, "order": run["order"], "rules": run["rules"], "impl": impl,
                         "areas": areas, "regions": regs, "k": run["k"] if run["kind"] == "rot" else 0})
        line: Dict[str, Any] = {"len": case["len"], "circ": case["circ"], "rules": case["rules"], "runs": runs}
        if case.get("opt") and self.parsed_order(case) is not None:
            o = case["opt"]
            cats = self.opt_categories()
            line["opt"] = {"rules": [[case["rules"][i]["name"], cats[o["cat"][i]], o["kb"][i][0] * 1000, o["kb"][i][1] * 1000]
                                     for i in self.parsed_order(case)],
                           "reqs": [{"names": q["names"], "cats": [cats[c] for c in q["cats"]]} for q in o["requests"]],
                           "cmul": list(self.MULS[o["cmul"]]), "nmul": list(self.MULS[o["nmul"]])}
        return line

    # ------------------------------------------------------------------ judge
    @staticmethod
    def corr_run(run: Dict[str, Any], drv: Dict[str, Any]) -> str:
        """model of C03 vs the real run: '' when they agree"""
        model = drv["model"]
        if "err" in run and run.get("stage", "detect") == "detect":
            if run["err"].startswith("build:"):
                return ""
            kind = run["err"].split(":")[0]
            return "" if model.get("err") == kind else f"model {str(model)[:200]} vs implementation raised {run['err']}: {run.get('msg')}"
        if "err" in model:
            return f"model raised {model['err']}, implementation did not"
        m_anchors = {a[0]: a[1] for a in model["anchors"]}
        if m_anchors != run["anchors"]:
            return f"anchoring genes: model {m_anchors} vs implementation {run['anchors']}"
        m_ext = sorted([c["rule"], c["genes"]] for c in model["ext"])
        if m_ext != run["ext"]:
            return f"protoclusters before the superiors step: model {m_ext} vs implementation {run['ext']}"
        m_removed = sorted([c["rule"], c["genes"], c["covered"]] for c in model["removed"])
        if m_removed != run["removed"]:
            return f"removed by superiors: model {m_removed} vs implementation {run['removed']}"
        m_final = sorted(({"rule": c["rule"], "core": unstranded(c["core"]), "loc": unstranded(c["loc"]), "defs": c["defs"]}
                          for c in model["final"]), key=lambda c: (c["rule"], repr(c["core"]), repr(c["loc"])))
        i_final = [{k: c[k] for k in ("rule", "core", "loc", "defs")} for c in run["clusters"]]
        if m_final != i_final:
            return f"final protoclusters: model {m_final} vs implementation {i_final}"
        # the rest of the pipeline: C05's model of formation and C06's model of create_regions on the model's protoclusters
        pipe = drv.get("pipe")
        if pipe is not None:
            late = run.get("stage") in ("candidates", "regions")
            if "err" in pipe:
                if not late:
                    return f"pipeline model raised {pipe['err']}, implementation did not"
                return ""
            m_cands = sorted([c[0], sorted(c[1])] for c in pipe["cands"])
            if "cands" in run and m_cands != run["cands"]:
                return f"candidate clusters: model {m_cands} vs implementation {run['cands']}"
            if "regions" in run and sorted(pipe["regions"]) != run["regions"]:
                return f"regions: model {sorted(pipe['regions'])} vs implementation {run['regions']}"
            if late:
                return f"implementation raised {run['err']} at {run['stage']}, the pipeline model did not"
        return ""

    @staticmethod
    def protos_of(run: Dict[str, Any], rule: Optional[str] = None) -> List[Any]:
        return sorted([c["rule"], c["cg"], c["mg"]] for c in run["clusters"] if rule is None or c["rule"] == rule)

    def explain_removed(self, a: Dict[str, Any], b: Dict[str, Any], rule_names: List[str],
                        absent_rules: List[str], sup_of: Dict[str, List[str]]) -> Tuple[bool, bool, str]:
        """the final protoclusters of some rules differ between runs a and b.  They are *explained by the
           superiors step* when, rule by rule, both runs had the same protoclusters before that step (same core
           genes) and removed different ones — the kept ones may then also have been merged differently.
           Returns (explained, some differing removal was not covered by a superior core, text)"""
        undocumented = False
        notes = []
        for rule in rule_names:
            if self.protos_of(a, rule) == self.protos_of(b, rule):
                continue
            ext_a = sorted(e[1] for e in a["ext"] if e[0] == rule)
            ext_b = sorted(e[1] for e in b["ext"] if e[0] == rule)
            if ext_a != ext_b:
                return False, undocumented, (f"{rule}: the protoclusters differ already before the superiors step: "
                                             f"{ext_a} vs {ext_b}")
            rem_a = {tuple(r[1]): r[2] for r in a["removed"] if r[0] == rule}
            rem_b = {tuple(r[1]): r[2] for r in b["removed"] if r[0] == rule}
            differing = {k: v for k, v in rem_a.items() if k not in rem_b}
            differing.update({k: v for k, v in rem_b.items() if k not in rem_a})
            if not differing:
                return False, undocumented, f"{rule}: same protoclusters before the superiors step, same ones removed, different result"
            for genes, covered in sorted(differing.items()):
                if not covered:
                    undocumented = True
                    notes.append(f"{rule}: {list(genes)} dropped in one run only, although no superior core covers its core")
                else:
                    notes.append(f"{rule}: {list(genes)} dropped in one run only, covered by a superior")
        return True, undocumented, "; ".join(notes[:3])

    def judge(self, case: Dict[str, Any], obs: Dict[str, Any], drv: Optional[Dict[str, Any]]) -> Judgement:
        if drv is None or "runs" not in obs:
            return Judgement(True, True, in_scope=False, tags=("build-error",), detail=str(obs)[:300])
        if "err" in drv and "runs" not in drv:
            return Judgement(False, True, detail=f"driver error {drv['err']}")
        runs, druns = obs["runs"], drv["runs"]
        base, dbase = runs[0], druns[0]
        length = case["len"]
        names = [r["name"] for r in case["rules"]]
        sup_of = {r["name"]: r["sup"] for r in case["rules"]}
        tags = ["circular" if case["circ"] else "linear", f"rules{len(names)}"]
        wf = bool(dbase["wf"])
        tags.append("wf" if wf else "not-wf")
        if base.get("err", "").startswith("build:"):
            return Judgement(True, True, in_scope=False, tags=tuple(tags + ["build-error"]), detail=str(base)[:300])

        # ---- correspondence: C03's model on every run
        corr_detail = ""
        for run, d in zip(runs, druns):
            if "order" not in run:
                continue
            msg = self.corr_run(run, d)
            if not msg and run["kind"] == "rot":
                # the Lean transcription of the re-indexing (Rot.rotateLoc, proved to be a rotation) gives the same parts,
                # and the real offset_location covers the same bases
                mine = {g["n"]: rotate_loc(g["loc"], run["k"], length) for g in case["genes"]}
                lean = {n: loc for n, loc in d.get("rot", [])}
                diff = [n for n in mine if lean.get(n) != mine[n]]
                if diff:
                    msg = f"re-indexing of gene {diff[0]}: Lean {lean.get(diff[0])} vs harness {mine[diff[0]]}"
                elif run.get("offset", {}).get("bad"):
                    msg = f"offset_location covers other bases than the re-indexing: {run['offset']['bad'][0]}"
            if msg:
                corr_detail = f"[{run['kind']} k={run['k']} rules={run['rules']}] {msg}"
                break
        # C02's heap model of get_ruleset on the same request sequence
        if not corr_detail and drv.get("opt"):
            opt_runs = [r for r in runs if r["kind"] == "opt"]
            for n, (run, at_use, final) in enumerate(zip(opt_runs, drv["opt"]["at_use"], drv["opt"]["final"])):
                if "dist" not in run:
                    continue
                if sorted(at_use) != run["dist"] or sorted(final or []) != run.get("final_dist"):
                    corr_detail = (f"[opt request {n}] ruleset model: handed out {sorted(at_use)}, after the last request {final}; "
                                   f"implementation: {run['dist']}, {run.get('final_dist')}")
                    break
        corr = not corr_detail

        def half(run: Dict[str, Any], d: Dict[str, Any]) -> bool:
            if "span" in run and 2 * run["span"] >= length:
                return True
            if d.get("regions") and d["regions"].get("half"):
                return True
            if d["spec"].get("long"):
                return True
            # a protocluster (with its neighbourhood) covering half the record makes a region at least as long
            for c in run.get("clusters", []):
                if 2 * sum(p[1] - p[0] for p in c["loc"]["parts"]) >= length:
                    return True
            return False

        def attribute(run: Dict[str, Any], d: Dict[str, Any], other: Dict[str, Any], dother: Dict[str, Any]) -> Tuple[str, Optional[str]]:
            """which of two disagreeing runs violates C03's executable spec"""
            parts = []
            known = None
            for label, dd in (("base run", dother), (f"{run['kind']} run", d)):
                if not dd["spec"]["ok"]:
                    parts.append(f"{label} violates C03's spec: {dd['spec']['why']}")
                    if dd["spec"]["known"]:
                        known = dd["spec"]["known"]
            if d["chains"] != dother["chains"] and run["kind"] == "rot":
                parts.append(f"(spec chains differ: {dother['chains']} vs {d['chains']})")
            return ("; ".join(parts) or "both runs satisfy C03's executable spec on their own"), known

        failures: List[Tuple[Optional[str], str]] = []     # (known id or None, text)
        compared = 0
        cut_through = False
        base_half = half(base, dbase) if case["circ"] else False
        if base_half:
            tags.append("base-half-record")
        # every run on its own: two reported protoclusters of one rule are further apart than the cutoff
        # (C03 reported_protoclusters_far_apart_ring / C07 no_chain_reported_in_two_pieces_any_origin)
        for run, d in zip(runs, druns):
            if "clusters" in run and d.get("apart") is False:
                failures.append((None, f"[{run['kind']} k={run['k']} rules={run['rules']}] two reported protoclusters of one rule lie "
                                       f"within its cutoff of each other (a chain reported in pieces): {self.protos_of(run)}"))
                break
        for run, d in zip(runs[1:], druns[1:]):
            label = f"[{run['kind']} k={run['k']} rules={run['rules']}]"
            if run["kind"] == "parsed":
                # the ruleset built from rule text by the real parser (and Ruleset.copy_with_replacements) is the same ruleset
                compared += 1
                keys = ("err", "stage", "anchors", "ext", "removed", "clusters", "cands", "regions")
                if {k: run.get(k) for k in keys} != {k: base.get(k) for k in keys}:
                    bad = [k for k in keys if run.get(k) != base.get(k)]
                    failures.append((None, f"{label} the ruleset parsed from rule text detects differently from the directly built one "
                                           f"({bad[0]}: {str(base.get(bad[0]))[:300]} vs {str(run.get(bad[0]))[:300]})"))
                continue
            if run["kind"] == "rot":
                run_half = half(run, d)
                if "err" in run or "err" in base:
                    if base_half or run_half:
                        tags.append("out-of-scope(half-record)")
                        continue
                    if run.get("err") == base.get("err") and run.get("stage") == base.get("stage"):
                        tags.append("both-raise")
                        continue
                    if wf:
                        failures.append((None, f"{label} one run raised: base {base.get('err')} ({base.get('msg')}) vs rotated "
                                               f"{run.get('err')} ({run.get('msg')}) at stage {run.get('stage') or base.get('stage')}"))
                    continue
                compared += 1
                if any(len(c["core"]["parts"]) > 1 or len(c["loc"]["parts"]) > 1 for c in run["clusters"]):
                    cut_through = True
                # the same rules fire on the same genes — checked on every ring, whatever the region sizes
                if run["anchors"] != base["anchors"]:
                    failures.append((None, f"{label} anchoring genes differ: base {base['anchors']} vs rotated {run['anchors']}"))
                    continue
                if base_half or run_half:
                    tags.append("out-of-scope(half-record)")
                    continue
                if self.protos_of(run) != self.protos_of(base):
                    ok, undoc, text = self.explain_removed(base, run, names, [], sup_of)
                    if ok and undoc:
                        failures.append((KF_SUPERIOR, f"{label} protoclusters differ: base {self.protos_of(base)} vs rotated {self.protos_of(run)}; {text}"))
                    else:
                        t2, _ = attribute(run, d, base, dbase)
                        failures.append((None, f"{label} protoclusters differ: base {self.protos_of(base)} vs rotated {self.protos_of(run)}; {text}; {t2}"))
                    continue
                if run["cands"] != base["cands"]:
                    failures.append((None, f"{label} same protoclusters, candidate clusters differ: base {base['cands']} vs rotated {run['cands']}"))
                    continue
                if run["regions"] != base["regions"]:
                    bad = [lab for lab, dd in (("base", dbase), ("rotated", d))
                           if dd["regions"] and not (dd["regions"]["partition"] and dd["regions"]["disjoint"] and dd["regions"]["exact"] and dd["regions"]["wf"])]
                    failures.append((None, f"{label} same candidate clusters, regions differ: base {base['regions']} vs rotated {run['regions']}; "
                                     f"C06's spec fails on: {bad or 'neither run'}"))
                    continue
            else:
                idxs = run["rules"]
                vnames = [names[i] for i in idxs]
                if run["kind"] == "opt":
                    # the ruleset came from hmm_detection.get_ruleset: every rule it holds has the distances of the rule file
                    # scaled once by the fungal multipliers — the same in every sub-selection, now and after later requests
                    if run.get("err", "").startswith("build:"):
                        failures.append((None, f"{label} get_ruleset / option handling raised: {run.get('msg')}"))
                        continue
                    want = sorted([names[i], case["rules"][i]["cutoff"], case["rules"][i]["nbhd"]] for i in idxs)
                    if run.get("issues"):
                        failures.append((None, f"{label} check_options objects to a valid sub-selection: {run['issues']}"))
                        continue
                    if run.get("dist") != want or run.get("final_dist") != want:
                        failures.append((None, f"{label} the distances of a rule depend on the sub-selection (expected [name, cutoff, "
                                               f"neighbourhood] {want}; ruleset handed out {run.get('dist')}; the same ruleset after the "
                                               f"last request {run.get('final_dist')})"))
                        continue
                if "err" in run or "err" in base:
                    if run.get("err") == base.get("err") and run.get("stage") == base.get("stage"):
                        tags.append("both-raise")
                    elif run.get("stage", "detect") != "detect" or base.get("stage", "detect") != "detect":
                        tags.append("late-stage-error")     # candidate / region creation is not compared between rulesets
                    elif wf and not base_half:
                        failures.append((None, f"{label} one run raised: base {base.get('err')} ({base.get('msg')}) vs variant {run.get('err')} ({run.get('msg')})"))
                    if "clusters" not in run or "clusters" not in base:
                        continue
                compared += 1
                b_anch = {k: v for k, v in base["anchors"].items() if k in vnames}
                if run["anchors"] != b_anch:
                    failures.append((None, f"{label} anchoring genes depend on the ruleset: base {b_anch} vs variant {run['anchors']}"))
                    continue
                b_ext = [e for e in base["ext"] if e[0] in vnames]
                if run["ext"] != b_ext:
                    failures.append((None, f"{label} protoclusters (before superiors) depend on the ruleset: base {b_ext} vs variant {run['ext']}"))
                    continue
                b_protos = [p for p in self.protos_of(base) if p[0] in vnames]
                if self.protos_of(run) != b_protos:
                    absent = [n for n in names if n not in vnames]
                    ok, undoc, text = self.explain_removed(base, run, vnames, absent, sup_of)
                    differing = [n for n in vnames if self.protos_of(base, n) != self.protos_of(run, n)]
                    lost_superior = all(any(s in absent for s in sup_of[n]) for n in differing)
                    if ok and undoc:
                        failures.append((KF_SUPERIOR, f"{label} protoclusters depend on the ruleset beyond the documented removal: base {b_protos} vs variant {self.protos_of(run)}; {text}"))
                    elif ok and lost_superior:
                        tags.append("documented-removal")
                    else:
                        failures.append((None, f"{label} protoclusters depend on the ruleset: base {b_protos} vs variant {self.protos_of(run)}; {text}"))
                    continue
        self.pairs += compared
        self.extra_evaluations = self.pairs
        nprot = len(base.get("clusters", []))
        tags.append(f"protos{min(nprot, 4)}")
        if cut_through:
            tags.append("cut-through-protocluster")
        if any(c["rule"] for c in base.get("clusters", []) if len(c["cg"]) >= 2):
            tags.append("multi-gene-core")
        if base.get("cands"):
            kinds = {c[0] for c in base["cands"]}
            for kd in sorted(kinds):
                tags.append("cand:" + kd.split(".")[-1].lower())
        nontrivial = nprot >= 1 and compared >= 1 and (cut_through or len(case.get("variants", [])) >= 1)
        in_scope = wf and not base_half
        unknown = [f for f in failures if f[0] is None]
        if unknown:
            detail = unknown[0][1] + (f" (+{len(failures) - 1} more)" if len(failures) > 1 else "")
            spec_ok = not wf
            if not wf:
                tags.append("not-wf-difference")
            return Judgement(corr, spec_ok, in_scope=in_scope, known=None, nontrivial=nontrivial, tags=tuple(tags),
                             detail=detail + ("; CORR: " + corr_detail if corr_detail else ""))
        if failures:
            known, text = failures[0]
            tags.append("known:" + str(known))
            return Judgement(corr, not wf, in_scope=False, known=known if wf else None, nontrivial=nontrivial, tags=tuple(tags),
                             detail=text + ("; CORR: " + corr_detail if corr_detail else ""))
        return Judgement(corr, True, in_scope=in_scope, known=None, nontrivial=nontrivial, tags=tuple(tags), detail=corr_detail)

    # ------------------------------------------------------------------ shrinking
    def shrink(self, case: Dict[str, Any]) -> Iterator[Dict[str, Any]]:
        rots, variants = case.get("rots", []), case.get("variants", [])
        if len(rots) + len(variants) + (1 if case.get("parsed", True) else 0) > 1:
            for k in rots:
                yield dict(case, rots=[k], variants=[], parsed=False)
            for v in variants:
                yield dict(case, rots=[], variants=[v], parsed=False)
            yield dict(case, rots=[], variants=[])
        if case.get("opt"):
            reqs = case["opt"]["requests"]
            for i in range(len(reqs)):
                if len(reqs) > 1:
                    yield dict(case, opt=dict(case["opt"], requests=reqs[:i] + reqs[i + 1:]))
        for i in range(len(case["genes"])):
            yield dict(case, genes=case["genes"][:i] + case["genes"][i + 1:])
        n = len(case["rules"])
        if n > 1:
            for i in range(n):
                name = case["rules"][i]["name"]
                rest = [dict(r, sup=[s for s in r["sup"] if s != name]) for r in case["rules"][:i] + case["rules"][i + 1:]]
                remap = {j: (j if j < i else j - 1) for j in range(n) if j != i}
                vs = [[remap[j] for j in v if j != i] for v in variants]
                vs = [v for v in vs if v and v != list(range(n - 1))]
                seen, uniq = set(), []
                for v in vs:
                    if tuple(v) not in seen:
                        seen.add(tuple(v))
                        uniq.append(v)
                shrunk = dict(case, rules=rest, variants=uniq)
                if case.get("opt"):
                    o = case["opt"]
                    shrunk["opt"] = dict(o, kb=o["kb"][:i] + o["kb"][i + 1:], cat=o["cat"][:i] + o["cat"][i + 1:],
                                         requests=[dict(q, names=[x for x in q["names"] if x != name]) for q in o["requests"]])
                yield shrunk
        for i, r in enumerate(case["rules"]):
            if r["ext"] is not None:
                yield dict(case, rules=case["rules"][:i] + [dict(r, ext=None)] + case["rules"][i + 1:])
            if r["sup"]:
                yield dict(case, rules=case["rules"][:i] + [dict(r, sup=r["sup"][1:])] + case["rules"][i + 1:])
            if r["cond"][0] != "single":
                for sub in common.cond_children(r["cond"]):
                    if sub[0] == "single" and not sub[1]:
                        yield dict(case, rules=case["rules"][:i] + [dict(r, cond=sub)] + case["rules"][i + 1:])
        for i, g in enumerate(case["genes"]):
            for k in range(len(g["hits"])):
                g2 = dict(g, hits=g["hits"][:k] + g["hits"][k + 1:])
                yield dict(case, genes=case["genes"][:i] + [g2] + case["genes"][i + 1:])


PROP = C07
