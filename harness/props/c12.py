"""C12 — per-region GenBank files are faithful, self-consistent extracts.

Implementation under test: secmet/features/region/helpers.py (all of it), driven through the real
`Region.write_to_genbank(filename, record=bio_record)` exactly as `main.write_outputs` does; the written
file is read back with `SeqIO.parse` (Biopython level: what was written) and with `Record.from_genbank`
(what antiSMASH finds when it loads the file again).
"""
from __future__ import annotations

import os
import random
import tempfile
import warnings
from typing import Any, Dict, Iterator, List, Optional, Tuple

from ..framework import Judgement, Property, err_kind
from . import common

H = "antismash/common/secmet/features/region/helpers.py"

# qualifiers that carry numbers / locations the region file has to keep consistent
NUM_LISTS = ("candidate_cluster_numbers", "subregion_numbers", "protoclusters")
NUM_SINGLE = ("candidate_cluster_number", "protocluster_number", "subregion_number")
LOC_QUALS = ("core_location", "leader_location", "tail_location")
SRC = "asv_src"      # identity tag put on every parent feature so extract features can be traced back


def simple(lo: int, hi: int, s: Any = 1) -> Dict[str, Any]:
    return {"c": False, "parts": [[lo, hi, s]]}


def span(start: int, end: int, length: int, s: Any = 1) -> Dict[str, Any]:
    """forward-strand span from start to end, over the origin when start > end"""
    if start >= end:
        if s == -1:
            return {"c": True, "parts": [[0, end, s], [start, length, s]]}
        return {"c": True, "parts": [[start, length, s], [0, end, s]]}
    return simple(start, end, s)


# --------------------------------------------------------------------------- building real records

def _sequence(length: int, seed: int) -> str:
    rng = random.Random(seed)
    return "".join(rng.choice("ACGT") for _ in range(length))


def build_record(case: Dict[str, Any]) -> Any:
    """a real secmet Record with the case's genes, motifs, protoclusters and subregions; candidate
       clusters and regions are formed by the real `create_candidate_clusters` / `create_regions`"""
    from Bio.Seq import Seq
    from antismash.common.secmet import Record
    from antismash.common.secmet.features import CDSMotif, Feature, Prepeptide, Protocluster, SubRegion
    from antismash.common.secmet.locations import FeatureLocation
    from antismash.common.secmet.test.helpers import DummyCDS
    length = case["len"]
    rec = Record(Seq(_sequence(length, case.get("seqseed", 0))))
    rec.id = rec.name = case.get("id", "rec1")
    rec._record.annotations.update({"topology": "circular" if case["circular"] else "linear",  # pylint: disable=protected-access
                                    "molecule_type": "DNA", "source": "x", "organism": "x"})
    for cds in case.get("cds", []):
        location = common.make_location(cds["loc"])
        rec.add_cds_feature(DummyCDS(location=location, locus_tag=cds["name"], translation="M" * max(1, len(location) // 3)))
    for i, pep in enumerate(case.get("peps", [])):
        lead, core, tail = pep["lens"]
        rec.add_feature(Prepeptide(common.make_location(pep["loc"]), "cls", "C" * core, pep["name"], "tool",
                                   leader="L" * lead, tail="T" * tail))
    for i, motif in enumerate(case.get("motifs", [])):
        feature = CDSMotif(common.make_location(motif["loc"]), motif["name"], FeatureLocation(0, 1), tool="tool")
        feature.domain_id = f"motif{i}"
        rec.add_feature(feature)
    for misc in case.get("misc", []):
        rec.add_feature(Feature(common.make_location(misc["loc"]), feature_type="misc_feature"))
    for proto in case.get("protos", []):
        rec.add_protocluster(Protocluster(common.make_location(proto["core"]), common.make_location(proto["loc"]),
                                          "tool", proto["product"], 10, 10, "rule " + proto["product"],
                                          product_category="cat"))
    for sub in case.get("subs", []):
        rec.add_subregion(SubRegion(common.make_location(sub["loc"]), "tool", label=sub["label"]))
    if case.get("manual_cands"):
        # candidate clusters put together by hand (a legal use of the API; members need not overlap)
        from antismash.common.secmet.features import CandidateCluster
        protos = rec.get_protoclusters()
        by_product = {p.product: p for p in protos}
        for entry in case["manual_cands"]:
            # a list of protocluster indices: a "neighbouring" candidate; {"kind": ..., "members": [...]}: that kind
            members = entry["members"] if isinstance(entry, dict) else entry
            kind = entry["kind"] if isinstance(entry, dict) else "neighbouring"
            rec.add_candidate_cluster(CandidateCluster(CandidateCluster.kinds.from_string(kind),
                                                       [by_product[case["protos"][i]["product"]] for i in members],
                                                       circular_wrap_point=length if case["circular"] else None))
    elif case.get("protos"):
        rec.create_candidate_clusters()
    rec.create_regions()
    return rec


def _quals(feature: Any) -> Dict[str, Any]:
    """the qualifiers the property is about, numbers as ints, locations as text"""
    out: Dict[str, Any] = {}
    q = feature.qualifiers
    for key in NUM_LISTS:
        if key in q:
            out[key] = [int(v) for v in q[key]]
    for key in NUM_SINGLE:
        if key in q:
            out[key] = int(q[key][0])
    for key in LOC_QUALS:
        if key in q:
            out[key] = str(q[key][0])
    return out


def bio_features(bio: Any) -> List[Dict[str, Any]]:
    return [{"src": int(f.qualifiers[SRC][0]) if SRC in f.qualifiers else -1, "type": f.type,
             "loc": common.location_json(f.location), "q": _quals(f)} for f in bio.features]


def region_data(region: Any) -> Dict[str, Any]:
    """what `Region.write_to_genbank` hands to the helpers (RegionData), numbers resolved"""
    return {
        "start": int(region.start), "end": int(region.end),
        "cands": [{"n": cand.get_candidate_cluster_number(), "loc": common.location_json(cand.location),
                   "protos": [{"n": p.get_protocluster_number(), "loc": common.location_json(p.location),
                               "core": common.location_json(p.core_location)} for p in cand.protoclusters]}
                  for cand in region.candidate_clusters],
        "subs": [{"n": sub.get_subregion_number(), "loc": common.location_json(sub.location)}
                 for sub in region.subregions],
    }


def content_dump(rec: Any, region: Any) -> Dict[str, Any]:
    """property-level content of one region of a secmet record (locations raw; canonicalised later)"""
    inside = [cds for cds in rec.get_cds_features() if cds.is_contained_by(region)]
    motifs = [m for m in rec.get_cds_motifs() if m.is_contained_by(region)]
    return {
        "loc": common.location_json(region.location),
        "cands": [{"loc": common.location_json(c.location), "kind": str(c.kind), "n": c.get_candidate_cluster_number(),
                   "protos": [{"loc": common.location_json(p.location), "core": common.location_json(p.core_location),
                               "product": p.product, "n": p.get_protocluster_number()} for p in c.protoclusters]}
                  for c in region.candidate_clusters],
        "subs": [{"loc": common.location_json(s.location), "label": s.label, "n": s.get_subregion_number()}
                 for s in region.subregions],
        "cds": [{"loc": common.location_json(c.location), "name": c.get_name()} for c in inside],
        "motifs": [{"loc": common.location_json(m.location), "name": m.get_name(),
                    "pre": type(m).__name__ == "Prepeptide"} for m in motifs],
        "n_protos": len(region.get_unique_protoclusters()),
    }


def add_comments(case: Dict[str, Any], rec: Any, bio: Any) -> None:
    """the structured comments the full record carries when region files are written: none (a fresh record, as in
       the unit tests), the antiSMASH-Data comment put there by the real `main.add_antismash_comments` (plain, or
       with the extract note of --start/--end), next to comments that came with the input, or an empty dict"""
    import types
    from antismash.main import add_antismash_comments
    mode = case.get("comment", "none")
    if mode == "none":
        return
    if mode == "empty":
        bio.annotations["structured_comment"] = {}
        return
    if mode in ("others", "others+as"):
        bio.annotations["structured_comment"] = {"Genome-Assembly-Data": {"Assembly Method": "SPAdes v. 3.1", "Coverage": "35x"},
                                                 "Genome-Annotation-Data": {"Annotation Provider": "someone"}}
    if mode in ("plain", "extract", "others+as"):
        options = types.SimpleNamespace(version="7.test", start=-1, end=-1)
        if mode == "extract":
            options = types.SimpleNamespace(version="7.test", start=3, end=len(rec.seq) - 2)
        add_antismash_comments([(rec, bio)], options)


def comment_tree(annotations: Dict[str, Any]) -> Any:
    """the structured comments as ordered pairs, values with whitespace normalised (GenBank wraps long values)"""
    if "structured_comment" not in annotations:
        return None
    return [[str(name), [[str(k), " ".join(str(v).split())] for k, v in entries.items()]]
            for name, entries in annotations["structured_comment"].items()]


def full_text(bio: Any) -> str:
    import io
    from Bio import SeqIO
    handle = io.StringIO()
    try:
        with warnings.catch_warnings():
            warnings.simplefilter("ignore")
            SeqIO.write([bio], handle, "genbank")
    except Exception as exc:  # pylint: disable=broad-except
        # e.g. Biopython cannot write an empty structured-comment dict; the same before and after
        return "unwritable: " + type(exc).__name__
    return handle.getvalue()


def observe(case: Dict[str, Any]) -> Dict[str, Any]:
    import logging
    from Bio import SeqIO
    from antismash.common.secmet import Record
    logging.disable(logging.CRITICAL)
    try:
        rec = build_record(case)
        bio = rec.to_biopython()
        add_comments(case, rec, bio)
    except Exception as exc:  # pylint: disable=broad-except
        # the layout could not be turned into a record (other properties' business): nothing to check
        return {"build_err": err_kind(exc), "msg": str(exc)[:200]}
    for i, feature in enumerate(bio.features):
        feature.qualifiers[SRC] = [str(i)]
    parent = bio_features(bio)
    seq = str(bio.seq)
    import copy
    full_before = full_text(bio)
    regions = []
    with tempfile.TemporaryDirectory() as tmp:
        for k, region in enumerate(rec.get_regions()):
            entry: Dict[str, Any] = {"data": region_data(region), "content": content_dump(rec, region)}
            filename = os.path.join(tmp, f"r{k}.gbk")
            before = bio_features(bio)
            ann_before = copy.deepcopy(bio.annotations)
            entry["sc"] = comment_tree(bio.annotations)
            try:
                with warnings.catch_warnings():
                    warnings.simplefilter("ignore")
                    region.write_to_genbank(filename, record=bio)
            except Exception as exc:  # pylint: disable=broad-except
                entry["write_err"] = err_kind(exc)
                entry["msg"] = str(exc)[:200]
            entry["parent_same"] = bio_features(bio) == before and str(bio.seq) == seq
            entry["parent_same_as_first"] = bio_features(bio) == parent
            entry["ann_same"] = bio.annotations == ann_before and rec._record.annotations == ann_before  # pylint: disable=protected-access
            entry["sc_after"] = comment_tree(bio.annotations)
            if "write_err" not in entry:
                read_back(entry, filename, bio, seq)
            regions.append(entry)
    return {"len": len(seq), "seq": seq, "parent": parent, "regions": regions,
            "full_same": full_text(bio) == full_before}


def read_back(entry: Dict[str, Any], filename: str, bio: Any, seq: str) -> None:
    """what a written region file holds (SeqIO.parse) and what antiSMASH finds in it (Record.from_genbank), put into
       `entry`; `bio` is the converted full record the file is supposed to be cut out of"""
    from Bio import SeqIO
    from antismash.common.secmet import Record
    with warnings.catch_warnings():
        warnings.simplefilter("ignore")
        written = list(SeqIO.parse(filename, "genbank"))
    entry["n_records"] = len(written)
    ext = written[0]
    comment = ext.annotations.get("structured_comment", {}).get("antiSMASH-Data", {})
    entry["file_sc"] = comment_tree(ext.annotations)
    entry["file_topology"] = ext.annotations.get("topology")
    entry["extract"] = {"seq": str(ext.seq), "features": bio_features(ext),
                        "orig_start": comment.get("Orig. start"), "orig_end": comment.get("Orig. end"),
                        "cross_note": "cross-origin" in " ".join(str(comment.get("NOTE", "")).split())}
    # the nucleotides every written feature covers, against the parent's
    seq_same = []
    for feature in ext.features:
        src = int(feature.qualifiers[SRC][0]) if SRC in feature.qualifiers else -1
        if src < 0 or src >= len(bio.features):
            seq_same.append(False)
            continue
        if len(bio.features[src].location) == len(seq):
            # a feature going all the way round a circular record has no particular first base
            seq_same.append(True)
            continue
        try:
            seq_same.append(str(feature.extract(ext.seq)) == str(bio.features[src].extract(bio.seq)))
        except Exception:  # pylint: disable=broad-except
            seq_same.append(False)
    entry["seq_same"] = seq_same
    try:
        with warnings.catch_warnings():
            warnings.simplefilter("ignore")
            loaded = Record.from_genbank(filename)
        entry["reload"] = {"n_records": len(loaded), "len": len(loaded[0]),
                           "regions": [content_dump(loaded[0], r) for r in loaded[0].get_regions()],
                           "n_protos": len(loaded[0].get_protoclusters()),
                           "n_cands": len(loaded[0].get_candidate_clusters()),
                           "n_subs": len(loaded[0].get_subregions())}
    except Exception as exc:  # pylint: disable=broad-except
        entry["reload_err"] = err_kind(exc)
        entry["msg"] = str(exc)[:200]


def observe_multi(case: Dict[str, Any]) -> Dict[str, Any]:
    """several records — with and without regions, in any order — written by the real `main.write_outputs` (fake
       results and options, region files only): every file `<id>.regionNNN.gbk` found in the output directory is read
       back and held against ITS OWN record (the record of that id, converted by the real `Record.to_biopython` inside
       `write_outputs`, whose result is tagged with identity qualifiers on the way out)"""
    import logging
    import types
    from antismash import main
    from antismash.common import serialiser
    from antismash.common.secmet import Record
    logging.disable(logging.CRITICAL)
    subs = [dict(sub, id=f"rec{i + 1}") for i, sub in enumerate(case["records"])]
    try:
        records = [build_record(sub) for sub in subs]
    except Exception as exc:  # pylint: disable=broad-except
        return {"build_err": err_kind(exc), "msg": str(exc)[:200]}
    converted: Dict[int, Any] = {}
    snapshots: Dict[int, Any] = {}
    real_to_biopython = Record.to_biopython

    def tagged(self: Any, *args: Any, **kwargs: Any) -> Any:
        bio = real_to_biopython(self, *args, **kwargs)
        for i, feature in enumerate(bio.features):
            feature.qualifiers[SRC] = [str(i)]
        converted[id(self)] = bio
        snapshots[id(self)] = bio_features(bio)
        return bio
    results = serialiser.AntismashResults("input.gbk", records, [{} for _ in records], "7.test")
    out: Dict[str, Any] = {"records": []}
    with tempfile.TemporaryDirectory() as tmp:
        options = types.SimpleNamespace(version="7.test", start=-1, end=-1, html_enabled=False, minimal=True,
                                        region_gbks=True, summary_gbk=False, zip_output=False,
                                        output_dir=tmp, output_basename="out")
        Record.to_biopython = tagged        # type: ignore
        try:
            with warnings.catch_warnings():
                warnings.simplefilter("ignore")
                main.write_outputs(results, options)
        except Exception as exc:  # pylint: disable=broad-except
            out["outputs_err"] = err_kind(exc)
            out["msg"] = str(exc)[:200]
        finally:
            Record.to_biopython = real_to_biopython     # type: ignore
        found = sorted(name for name in os.listdir(tmp) if name.endswith(".gbk"))
        expected_names = []
        for rec in records:
            bio = converted.get(id(rec))
            if bio is None:
                return {"build_err": "not-converted", "msg": "write_outputs did not convert the record"}
            seq = str(bio.seq)
            regions = []
            for region in rec.get_regions():
                name = f"{rec.id}.region{region.get_region_number():03d}.gbk"
                expected_names.append(name)
                entry: Dict[str, Any] = {"data": region_data(region), "content": content_dump(rec, region)}
                entry["sc"] = entry["sc_after"] = comment_tree(bio.annotations)
                entry["parent_same"] = bio_features(bio) == snapshots[id(rec)] and seq == str(rec.seq)
                entry["parent_same_as_first"] = entry["parent_same"]
                entry["ann_same"] = True
                if name not in found:
                    entry["write_err"] = "no-file"
                    entry["msg"] = f"write_outputs wrote no file {name}"
                else:
                    try:
                        read_back(entry, os.path.join(tmp, name), bio, seq)
                    except Exception as exc:  # pylint: disable=broad-except
                        entry["write_err"] = "unreadable-file"
                        entry["msg"] = f"{name} cannot be read back: {err_kind(exc)}: {str(exc)[:100]}"
                regions.append(entry)
            out["records"].append({"len": len(seq), "seq": seq, "parent": snapshots[id(rec)], "regions": regions,
                                   "full_same": True})
        out["files"] = found
        out["expected_files"] = sorted(expected_names)
    return out


# --------------------------------------------------------------------------- generators

def rand_span(rng: random.Random, length: int, circular: bool, lo_len: int, hi_len: int, cross: float = 0.25) -> Tuple[int, int]:
    """(start, end) of a span of lo_len..hi_len bases; start > end when it runs over the origin"""
    size = min(rng.randint(lo_len, hi_len), length - 1)
    if circular and size >= 2 and rng.random() < cross:
        start = rng.randrange(length - size + 1, length)
        return start, (start + size) % length
    start = rng.randrange(0, length - size + 1)
    return start, start + size


def gen_layout(rng: random.Random, length: int, circular: bool, *, n_protos: int, n_subs: int, n_cds: int,
               n_peps: int, n_misc: int, force_cross: bool = False) -> Dict[str, Any]:
    case: Dict[str, Any] = {"len": length, "circular": circular, "seqseed": rng.randrange(1000)}
    unit = max(3, length // 40)
    protos = []
    for i in range(n_protos):
        cs, ce = rand_span(rng, length, circular, 1, 3 * unit, cross=0.15)
        if force_cross and i == 0 and circular:
            cs, ce = length - rng.randint(1, 2 * unit), rng.randint(1, 2 * unit)
        ext_l, ext_r = rng.choice([0, 1, unit, 2 * unit, 4 * unit]), rng.choice([0, 1, unit, 2 * unit, 4 * unit])
        core_len = (ce - cs) % length
        if core_len + ext_l + ext_r >= length:
            ext_l = ext_r = 0
        ns, ne = cs - ext_l, ce + ext_r
        if circular:
            ns %= length
            ne = (ne - 1) % length + 1
            if cs > ce or ns > cs or ne < ce:       # the whole thing runs over the origin
                pass
        else:
            ns, ne = max(0, ns), min(length, ne)
        protos.append({"core": span(cs, ce, length) if cs >= ce else simple(cs, ce),
                       "loc": span(ns, ne, length) if ns >= ne else simple(ns, ne),
                       "product": "prod" + "ABCDEFGH"[i % 8]})
    case["protos"] = protos
    subs = []
    for i in range(n_subs):
        s, e = rand_span(rng, length, circular, unit, 6 * unit, cross=0.2)
        subs.append({"loc": span(s, e, length) if s >= e else simple(s, e), "label": f"sub{i}"})
    case["subs"] = subs
    cds = []
    for i in range(n_cds):
        strand = rng.choice([1, -1])
        r = rng.random()
        if r < 0.2 and length >= 40:        # two or three exons on a line
            k = rng.choice([2, 2, 3])
            lo = rng.randrange(0, length - 12 * k)
            parts = []
            for _ in range(k):
                size = rng.randint(3, 6)
                parts.append([lo, lo + size, strand])
                lo += size + rng.randint(1, 5)
            if strand == -1:
                parts.reverse()
            loc = {"c": True, "parts": parts}
        else:
            s, e = rand_span(rng, length, circular, 3, 3 * unit, cross=0.2)
            loc = span(s, e, length, strand) if s >= e else simple(s, e, strand)
        cds.append({"loc": loc, "name": f"cds{i}"})
    case["cds"] = cds
    peps = []
    for i in range(n_peps):
        lens = [rng.choice([0, 1, 2]), rng.choice([1, 2]), rng.choice([0, 1, 2])]
        size = 3 * sum(lens)
        if size >= length:
            continue
        start = rng.randrange(0, length - size + 1)
        peps.append({"loc": simple(start, start + size, rng.choice([1, -1])), "name": f"pep{i}", "lens": lens})
    case["peps"] = peps
    misc = []
    for i in range(n_misc):
        s, e = rand_span(rng, length, circular, 1, 2 * unit, cross=0.2)
        misc.append({"loc": span(s, e, length, rng.choice([1, -1])) if s >= e else simple(s, e, rng.choice([1, -1, 1]))})
    case["misc"] = misc
    return case


# --------------------------------------------------------------------------- canonical forms (Python side)

def canon(loc: Dict[str, Any]) -> List[List[int]]:
    """sorted, merged, non-empty intervals of a location (set of bases)"""
    ivs = sorted([lo, hi] for lo, hi, _ in loc["parts"] if lo < hi)
    out: List[List[int]] = []
    for lo, hi in ivs:
        if out and lo <= out[-1][1]:
            out[-1][1] = max(out[-1][1], hi)
        else:
            out.append([lo, hi])
    return out


def strand_of(loc: Dict[str, Any]) -> Any:
    strands = {p[2] for p in loc["parts"]}
    return strands.pop() if len(strands) == 1 else None


def content_locs(content: Dict[str, Any]) -> List[Dict[str, Any]]:
    """every location of a content dump, in a fixed order (sent to the driver for their images)"""
    locs = [content["loc"]]
    for cand in content["cands"]:
        locs.append(cand["loc"])
        for proto in cand["protos"]:
            locs.extend([proto["loc"], proto["core"]])
    locs.extend(sub["loc"] for sub in content["subs"])
    locs.extend(cds["loc"] for cds in content["cds"])
    locs.extend(m["loc"] for m in content["motifs"])
    return locs


def file_numbers(parent: List[Dict[str, Any]], written: List[Dict[str, Any]]) -> Dict[str, Dict[int, int]]:
    """per kind of area: record-wide number -> number in the region file, read off the written features"""
    out: Dict[str, Dict[int, int]] = {"cands": {}, "protos": {}, "subs": {}}
    for kind, ftype, key in (("cands", "cand_cluster", "candidate_cluster_number"),
                             ("protos", "protocluster", "protocluster_number"),
                             ("subs", "subregion", "subregion_number")):
        for feature in written:
            if feature["type"] == ftype and feature["src"] >= 0 and key in feature["q"] and key in parent[feature["src"]]["q"]:
                out[kind][parent[feature["src"]]["q"][key]] = feature["q"][key]
    return out


def canonical_content(content: Dict[str, Any], images: Optional[List[Any]],
                      numbers: Optional[Dict[str, Dict[int, int]]] = None) -> Dict[str, Any]:
    """content dump with locations replaced by canonical base sets — their images in file coordinates when
       `images` (the driver's answer for `content_locs`) is given — and every collection sorted; `by_number`: what
       each area number stands for (numbers sent through `numbers`, the file's renumbering, when given)"""
    it = iter(images) if images is not None else None
    inside = {"last": True}

    def img(loc: Dict[str, Any]) -> Any:
        if it is None:
            return canon(loc)
        image = next(it)
        inside["last"] = image["inside"]
        return image["canon"]

    def keep(rows: List[List[Any]], pos: int) -> List[List[Any]]:
        # `inside` in the spec's sense (all parts on one side of the cut, or the feature itself over the origin);
        # the full record's own part-by-part containment also admits a gene with exons on both sides of a region
        # that goes (nearly) all the way round, which no linear file can hold
        return sorted(row[:pos] + row[pos + 1:] for row in rows if row[pos])
    out: Dict[str, Any] = {"loc": img(content["loc"])}
    def number(kind: str, n: int) -> Any:
        return n if numbers is None else numbers[kind].get(n, f"record-wide {n}")
    by_number: Dict[str, Any] = {}
    cands = []
    for cand in content["cands"]:
        cloc = img(cand["loc"])
        protos = []
        for p in cand["protos"]:
            protos.append([img(p["loc"]), img(p["core"]), p["product"]])
            by_number[f"protocluster {number('protos', p['n'])}"] = protos[-1]
        protos.sort()
        cands.append([cloc, cand["kind"], protos])
        # (candidate numbers are not held against the loaded record's: nothing but the one region of the file refers
        #  to candidates by number, so which of two candidates on the same coordinates a loading record calls 1 and
        #  which 2 — `CDSCollection.__lt__` meeting `bisect_left` — does not change what the region contains)
    out["cands"] = sorted(cands)
    subs = []
    for sub in content["subs"]:
        subs.append([img(sub["loc"]), sub["label"]])
        by_number[f"subregion {number('subs', sub['n'])}"] = subs[-1]
    out["subs"] = sorted(subs)
    out["by_number"] = by_number
    out["cds"] = keep([[c["name"], img(c["loc"]), inside["last"], strand_of(c["loc"])] for c in content["cds"]], 2)
    out["motifs"] = keep([[m["name"], img(m["loc"]), inside["last"], strand_of(m["loc"]), m["pre"]]
                          for m in content["motifs"]], 2)
    out["n_protos"] = content["n_protos"]
    return out


class C12(Property):
    ID = "C12"
    SHAPE = [(H, q) for q in (
        "RegionData.crosses_origin", "_build_annotations", "_build_record_from_cross_origin", "_build_base_record",
        "_adjust_motif", "_adjust_protocluster", "_number_by_position", "_adjust_features", "write_to_genbank")] + [
        ("antismash/common/secmet/features/region/structures.py", "Region.write_to_genbank"),
        ("antismash/common/secmet/locations.py", "offset_location"),
        ("antismash/common/secmet/locations.py", "location_from_string"),
        ("antismash/common/secmet/locations.py", "build_location_from_others"),
        ("antismash/common/secmet/locations.py", "location_bridges_origin"),
        ("antismash/common/secmet/features/feature.py", "Feature.start"),
        ("antismash/main.py", "add_antismash_comments"),
        ("antismash/main.py", "write_outputs"),
        ("antismash/common/secmet/record.py", "Record.to_biopython"),
        ("antismash/common/secmet/features/candidate_cluster/structures.py", "CandidateCluster.from_biopython"),
        ("antismash/common/secmet/features/region/structures.py", "Region.from_biopython"),
        # the order in which a loading record numbers areas, ties included (`numberedAsLoaded`, `tiesInFileOrder`)
        ("antismash/common/secmet/features/cdscollection.py", "CDSCollection.__lt__"),
        ("antismash/common/secmet/record.py", "Record.add_protocluster"),
        ("antismash/common/secmet/record.py", "Record.add_candidate_cluster"),
        ("antismash/common/secmet/record.py", "Record.add_subregion"),
    ]
    RULE = ("records (linear/circular, 40..3000 bases) with 0-6 protoclusters (cores and neighbourhoods, also over the "
            "origin, also with identical coordinates: two or three protoclusters / subregions of one region that only their record-wide "
            "numbers tell apart, listed by the region's candidates in either order), 0-3 subregions, genes (single/multi-exon/origin-spanning, both "
            "strands), precursor peptides with leader/core/tail, plain motifs and misc features; candidate clusters and "
            "regions formed by the real create_candidate_clusters/create_regions (in some cases candidates made by hand and added with "
            "the real add_candidate_cluster; in some cases two to five records, with and without regions in any order, written by the "
            "real main.write_outputs and every region file held against its own record); EVERY region of the record is written "
            "with the real Region.write_to_genbank(record=bio_record), re-read with SeqIO.parse and with "
            "Record.from_genbank; layouts are steered to: several regions, a region touching a record end, a region over "
            "the origin, a region covering a whole circular record, genes cut by the region edge, origin-spanning genes "
            "reaching out of an origin-spanning region, peptides after the origin; non-trivial = a region whose file has "
            ">= 1 renumbered or re-located cross reference (later region, or region over the origin); distinct by canonical input")
    TRUSTED = ["Biopython SeqRecord slicing/addition, SeqFeature._shift, the GenBank writer and parser (exact positions, strands +1/-1)",
               "Record.to_biopython (C10) supplies the Biopython-level features the model starts from; Record.from_genbank (C10) "
               "is executed, not modelled, for the 're-loads with the same content' observation",
               "leader/tail locations of origin-spanning precursor peptides are not generated",
               "main.add_antismash_comments is executed (real function, options stub with version/start/end) to put the antiSMASH-Data comment on the record; the Run date it writes is passed to the model as data",
               "fuzzy positions, strand 0/None features and mixed-strand compounds are outside the modelled domain"]

    # ------------------------------------------------------------------ generators
    def cases(self, rng: random.Random, tier: str, deep: bool) -> Iterator[Dict[str, Any]]:
        if deep:
            total = 0
            for case in self.small_scope():
                total += 1
                yield case
            self.exhaustive_done = True
            self.extra_coverage = {"small_scope_cases": total,
                                   "small_scope": "every single-subregion region (all starts/ends, also over the origin and "
                                                  "all the way round) on a line and a ring of 12 bases x 3 fixed gene layouts"}
        n = 20000 if deep else 1200
        for i in range(n):
            r = rng.random()
            if r < 0.68:
                case = self.random_case(rng)
            elif r < 0.78:
                case = self.whole_record_case(rng)
            elif r < 0.86:
                case = self.record_end_case(rng)
            elif r < 0.92:
                case = self.multi_exon_over_origin_case(rng)
            elif r < 0.95:
                case = self.manual_candidate_case(rng)
            elif r < 0.97:
                case = self.tie_case(rng)
            elif r < 0.985:
                yield self.multi_record_case(rng)
                continue
            else:
                case = self.three_around_origin_case(rng)
            # the structured comments the full record carries (main.add_antismash_comments runs before any file is written)
            case["comment"] = rng.choice(["plain", "plain", "plain", "extract", "others+as", "others", "empty", "none"])
            yield case

    def small_scope(self) -> Iterator[Dict[str, Any]]:
        length = 12
        layouts = [
            [{"loc": simple(1, 4, 1), "name": "a"}, {"loc": simple(5, 8, -1), "name": "b"},
             {"loc": span(10, 2, length, 1), "name": "c"}],
            [{"loc": {"c": True, "parts": [[1, 4, 1], [6, 9, 1]]}, "name": "a"}, {"loc": span(9, 3, length, -1), "name": "b"}],
            [{"loc": simple(0, 3, 1), "name": "a"}, {"loc": simple(9, 12, -1), "name": "b"},
             {"loc": {"c": True, "parts": [[7, 10, -1], [2, 5, -1]]}, "name": "c"}],
        ]
        for circular in (False, True):
            for k, layout in enumerate(layouts):
                cds = [c for c in layout if circular or not (c["loc"]["c"] and c["loc"]["parts"][0][0] > c["loc"]["parts"][-1][0]
                                                              and c["loc"]["parts"][0][2] == 1)
                       and not (not circular and c["loc"]["c"] and c["loc"]["parts"][0][2] == -1
                                and c["loc"]["parts"][0][0] < c["loc"]["parts"][-1][0])]
                for start in range(length):
                    for end in range(1, length + 1):
                        if start < end:
                            loc = simple(start, end)
                        elif circular and end <= start and start > 0:
                            loc = span(start, end, length)
                        else:
                            continue
                        yield {"len": length, "circular": circular, "seqseed": k, "protos": [],
                               "subs": [{"loc": loc, "label": "s"}], "cds": cds, "peps": [], "misc": [],
                               "comment": ["plain", "others+as", "none", "extract"][(start + end + k) % 4]}

    def random_case(self, rng: random.Random, i: int = 0) -> Dict[str, Any]:
        length = rng.choice([40, 60, 60, 90, 120, 200, 400, 1000, 3000])
        circular = rng.random() < 0.65
        case = gen_layout(rng, length, circular,
                          n_protos=rng.choice([0, 1, 2, 3, 3, 4, 5, 6]), n_subs=rng.choice([0, 0, 1, 2, 3]),
                          n_cds=rng.choice([0, 2, 5, 8]), n_peps=rng.choice([0, 0, 1, 2, 3]),
                          n_misc=rng.choice([0, 1, 3]), force_cross=rng.random() < 0.3)
        if case["protos"] and rng.random() < 0.1:
            # same coordinates, a product sorting before or after the original's, added before or after it: the
            # candidates formed list equal protoclusters by product, the record numbers them in the order added
            twin = dict(rng.choice(case["protos"]))
            twin["product"] = rng.choice(["twin", "a-twin"])
            case["protos"].insert(rng.randrange(len(case["protos"]) + 1), twin)
        # most precursor peptides sit well inside an area, as real ones do
        areas = [p["core"] for p in case["protos"] if not p["core"]["c"]]
        for pep in case["peps"]:
            size = pep["loc"]["parts"][0][1] - pep["loc"]["parts"][0][0]
            fitting = [a for a in areas if a["parts"][0][1] - a["parts"][0][0] >= size]
            if fitting and rng.random() < 0.7:
                lo = fitting[0]["parts"][0][0]
                pep["loc"] = simple(lo, lo + size, pep["loc"]["parts"][0][2])
        return case

    def whole_record_case(self, rng: random.Random) -> Dict[str, Any]:
        """a region going all the way round a circular record, starting anywhere"""
        length = rng.choice([30, 40, 60, 100])
        case = gen_layout(rng, length, True, n_protos=rng.choice([0, 1, 2]), n_subs=0, n_cds=rng.choice([2, 5]),
                          n_peps=rng.choice([0, 1]), n_misc=rng.choice([0, 2]))
        k = rng.randrange(0, length)
        case["subs"] = [{"loc": span(k, k, length) if k else simple(0, length), "label": "all"}]
        return case

    def record_end_case(self, rng: random.Random) -> Dict[str, Any]:
        """regions touching the first and the last base of a record"""
        length = rng.choice([60, 100, 300])
        circular = rng.random() < 0.4
        case = gen_layout(rng, length, circular, n_protos=0, n_subs=rng.choice([0, 1]), n_cds=rng.choice([3, 6]),
                          n_peps=0, n_misc=rng.choice([0, 2]))
        a, b = rng.randint(5, length // 3), rng.randint(2 * length // 3, length - 5)
        case["protos"] = [{"core": simple(rng.randint(0, 2), a - 1), "loc": simple(0, a), "product": "first"},
                          {"core": simple(b + 1, length - rng.randint(0, 2)), "loc": simple(b, length), "product": "last"}]
        return case

    def multi_exon_over_origin_case(self, rng: random.Random) -> Dict[str, Any]:
        """an origin-spanning region with origin-spanning genes of two and three exons, inside it and reaching out of it"""
        length = rng.choice([60, 100, 200])
        start, end = length - rng.randint(12, 25), rng.randint(12, 25)
        case = gen_layout(rng, length, True, n_protos=0, n_subs=rng.choice([0, 1]), n_cds=rng.choice([0, 3]),
                          n_peps=rng.choice([0, 1]), n_misc=0)
        case["subs"].append({"loc": span(start, end, length), "label": "over"})
        for i in range(rng.choice([1, 2, 3])):
            strand = rng.choice([1, -1])
            x = length - rng.randint(2, 30)      # (a CDS of fewer than 3 bases is skipped by the loader)
            y = rng.randint(2, 30)
            parts = [[x, length, strand], [0, y, strand]]
            if rng.random() < 0.5 and x - 8 > end + 5:
                parts.insert(0, [x - 8, x - 3, strand])
            if rng.random() < 0.3:
                parts.append([y + 3, y + 7, strand])
            if rng.random() < 0.3:       # runs of abutting exons, before and after the origin (D58)
                parts = [[x, length, strand]]
                if x - 9 > end + 5 and rng.random() < 0.5:
                    parts = [[x - 9, x - 4, strand], [x - 4, x, strand]] + parts
                lo = 0
                for _ in range(rng.choice([1, 2, 3, 4])):
                    hi = lo + rng.randint(3, 5)
                    parts.append([lo, hi, strand])
                    lo = hi
            if strand == -1:
                parts.reverse()
            loc = {"c": True, "parts": parts}
            # two genes naming the same bases (differently cut into exons) become one location once abutting exons
            # are merged, and the loader refuses two CDS at one location: not generated
            if all(canon(loc) != canon(other["loc"]) for other in case["cds"]):
                case["cds"].append({"loc": loc, "name": f"over{i}"})
        if rng.random() < 0.5:
            size = 3 * rng.randint(2, 4)
            lo = rng.randint(0, max(0, end - size))
            case["peps"].append({"loc": simple(lo, lo + size, rng.choice([1, -1])), "name": "after",
                                 "lens": [1, size // 3 - 2, 1]})
        # precursor peptides lying over the origin themselves: the origin inside the leader, the core or the tail,
        # or between two sections, on either strand
        for i in range(rng.choice([0, 1, 1, 2])):
            lens = [rng.choice([0, 1, 2, 3]), rng.choice([1, 2, 3]), rng.choice([0, 1, 2, 3])]
            size = 3 * sum(lens)
            before = rng.randint(1, size - 1)            # bases of the peptide before the origin
            before = min(before, length - start - 1)
            after = size - before
            if before < 1 or after < 1 or after > end:
                continue
            strand = rng.choice([1, -1])
            case["peps"].append({"loc": span(length - before, after, length, strand), "name": f"overpep{i}", "lens": lens})
        return case

    def manual_candidate_case(self, rng: random.Random) -> Dict[str, Any]:
        """a candidate cluster put together by hand from protoclusters that do not overlap, with gaps around half
           the length of the region file (KF-C12-circular-file-reconnects on circular records)"""
        length = rng.choice([400, 1000, 3000])
        circular = rng.random() < 0.7
        unit = length // 40
        start = rng.randrange(unit, 10 * unit)
        span_len = rng.randrange(8 * unit, 20 * unit)
        first = [start, start + rng.randrange(1, 3) * unit]
        gap = rng.choice([span_len // 2 - unit, span_len // 2, span_len // 2 + 1, span_len * 2 // 3, span_len // 4])
        second_lo = min(first[1] + gap, start + span_len - unit)
        second = [second_lo, start + span_len]
        case = gen_layout(rng, length, circular, n_protos=0, n_subs=0, n_cds=rng.choice([0, 3]), n_peps=0, n_misc=0)
        case["protos"] = [{"core": simple(first[0], first[1]), "loc": simple(first[0], first[1]), "product": "left"},
                          {"core": simple(second[0], second[1]), "loc": simple(second[0], second[1]), "product": "right"}]
        case["manual_cands"] = [[0, 1]]
        return case

    def multi_record_case(self, rng: random.Random) -> Dict[str, Any]:
        """an input of two to five records, some without any region — before, between and after records with regions —
           written through the real `main.write_outputs` (the caller of `Region.write_to_genbank`)"""
        n = rng.choice([2, 2, 3, 3, 4, 5])
        with_regions = [rng.random() < 0.55 for _ in range(n)]
        if not any(with_regions):
            with_regions[rng.randrange(n)] = True
        records = []
        for has in with_regions:
            length = rng.choice([60, 90, 120, 200, 400])
            circular = rng.random() < 0.5
            if has:
                sub = gen_layout(rng, length, circular, n_protos=rng.choice([1, 2, 3]), n_subs=rng.choice([0, 1, 2]),
                                 n_cds=rng.choice([1, 3, 5]), n_peps=0, n_misc=rng.choice([0, 1]),
                                 force_cross=rng.random() < 0.2)
            else:
                sub = gen_layout(rng, length, circular, n_protos=0, n_subs=0, n_cds=rng.choice([0, 2, 4]), n_peps=0,
                                 n_misc=rng.choice([0, 1]))
            records.append(sub)
        return {"records": records, "circular": any(sub["circular"] for sub in records)}

    def tie_case(self, rng: random.Random) -> Dict[str, Any]:
        """areas of one region on identical coordinates — two or three protoclusters (same neighbourhood; same or
           different cores), the candidates holding them, subregions — which only their record-wide numbers tell
           apart; the region's candidates list them in either order: candidates formed by the real
           `create_candidate_clusters` (equal protoclusters listed by product, added to the record in any order), or
           one hand-made "single" candidate per protocluster added through the real `add_candidate_cluster` in any
           order (the candidate added later is listed first); other areas before them so that numbers change"""
        length = rng.choice([200, 600, 2000])
        circular = rng.random() < 0.5
        u = length // 40
        case = gen_layout(rng, length, circular, n_protos=0, n_subs=0, n_cds=rng.choice([0, 3]), n_peps=0, n_misc=0)
        over = circular and rng.random() < 0.3
        lo = length - rng.randint(2, 6) * u if over else rng.randint(8, 20) * u
        size = rng.randint(6, 12) * u
        cs, ce = lo + rng.randint(1, 2) * u, lo + size - rng.randint(1, 2) * u

        def place(a: int, b: int) -> Dict[str, Any]:
            if a >= length:
                return simple(a - length, b - length)
            return span(a, b - length, length) if b > length else simple(a, b)
        k = rng.choice([2, 2, 3])
        names = rng.sample(["prodA", "prodB", "prodC", "prodD"], k)
        protos = []
        for i, name in enumerate(names):
            core = (cs, ce) if rng.random() < 0.6 else (cs + i, ce - i)
            protos.append({"core": place(*core), "loc": place(lo, lo + size), "product": name})
        if rng.random() < 0.7:       # something earlier in the record: the region is not the first one
            protos.insert(rng.randrange(len(protos) + 1),
                          {"core": simple(2 * u, 3 * u), "loc": simple(u, 4 * u), "product": "early"})
        if rng.random() < 0.3:       # and a smaller protocluster inside the tied ones
            protos.insert(rng.randrange(len(protos) + 1),
                          {"core": place(cs + 2 * u // 2, cs + 2 * u // 2 + u), "loc": place(cs, ce), "product": "inner"})
        case["protos"] = protos
        if rng.random() < 0.5:
            order = list(range(len(protos)))
            rng.shuffle(order)
            case["manual_cands"] = [{"kind": "single", "members": [i]} for i in order]
            if rng.random() < 0.3:
                tied = [i for i, p in enumerate(protos) if p["product"] in names]
                rng.shuffle(tied)
                case["manual_cands"].insert(rng.randrange(len(order) + 1), {"kind": "neighbouring", "members": tied})
        for i in range(rng.choice([0, 0, 2, 3])):
            case["subs"].append({"loc": place(lo, lo + size) if rng.random() < 0.7 else place(lo + u, lo + size - u),
                                 "label": f"tied{i}"})
        return case

    def three_around_origin_case(self, rng: random.Random) -> Dict[str, Any]:
        """D21's layout: protoclusters before, over and after the origin in one region, more regions mid-record"""
        length = rng.choice([600, 2000, 6000])
        u = length // 60
        pre = [length - 10 * u, length - 2 * u]
        over = [length - 3 * u - rng.randint(0, u), 2 * u + rng.randint(0, u)]
        post = [u + rng.randint(0, u), 8 * u]
        case = gen_layout(rng, length, True, n_protos=0, n_subs=0, n_cds=rng.choice([0, 4]), n_peps=0, n_misc=0)
        case["protos"] = [
            {"core": simple(pre[0] + u, pre[1] - u), "loc": simple(pre[0], pre[1]), "product": "pre"},
            {"core": span(over[0] + u // 2, over[1] - u // 2, length), "loc": span(over[0], over[1], length), "product": "over"},
            {"core": simple(post[0] + u // 2, post[1] - u), "loc": simple(post[0], post[1]), "product": "post"}]
        for k in range(rng.choice([1, 2])):
            lo = 15 * u + 12 * u * k
            case["protos"].append({"core": simple(lo + u, lo + 3 * u), "loc": simple(lo, lo + 5 * u), "product": f"mid{k}"})
        rng.shuffle(case["protos"])
        if rng.random() < 0.5:
            case["subs"] = [{"loc": simple(16 * u, 18 * u), "label": "in-mid"}, {"loc": simple(40 * u, 43 * u), "label": "alone"}]
        return case

    # ------------------------------------------------------------------ implementation adapter
    def run_impl(self, case: Dict[str, Any]) -> Dict[str, Any]:
        if "records" in case:
            return observe_multi(case)
        return observe(case)

    def driver_line(self, case: Dict[str, Any], obs: Dict[str, Any]) -> Optional[Dict[str, Any]]:
        if "build_err" in obs:
            return None
        if "records" in case:
            return {"records": [self.driver_line(sub, rec_obs) for sub, rec_obs in zip(case["records"], obs["records"])]}
        regions = []
        for r in obs["regions"]:
            entry: Dict[str, Any] = {"data": r["data"], "locs": content_locs(r["content"]), "sc": r.get("sc")}
            if "extract" in r:
                entry["impl"] = {"features": r["extract"]["features"]}
            regions.append(entry)
        return {"seq": obs["seq"], "circular": bool(case["circular"]), "parent": obs["parent"], "regions": regions}

    def judge(self, case: Dict[str, Any], obs: Dict[str, Any], drv: Optional[Dict[str, Any]]) -> Judgement:
        if "build_err" in obs:
            return Judgement(True, True, tags=("not-a-record:" + obs["build_err"],))
        assert drv is not None
        if "records" not in case:
            return self.judge_record(case, obs, drv)
        # several records through main.write_outputs: every region file against its own record
        if "err" in drv and "records" not in drv:
            return Judgement(False, True, detail=f"driver error {drv['err']}")
        parts = [self.judge_record(dict(sub, comment="plain"), rec_obs, rec_drv)
                 for sub, rec_obs, rec_drv in zip(case["records"], obs["records"], drv["records"])]
        spec = all(j.spec_ok for j in parts)
        details = [f"record {i + 1} of {len(parts)} (rec{i + 1}, {len(o['regions'])} regions): {j.detail}"
                   for i, (j, o) in enumerate(zip(parts, obs["records"])) if j.detail]
        if "outputs_err" in obs:
            spec = False
            details.insert(0, f"main.write_outputs raised {obs['outputs_err']}: {obs.get('msg')}")
        if obs["files"] != obs["expected_files"]:
            spec = False
            details.insert(0, f"region files written {obs['files']}, expected {obs['expected_files']}")
        has = [bool(o["regions"]) for o in obs["records"]]
        tags = {"multi-record"} | {t for j in parts for t in j.tags if not t.startswith(("regions=", "comment="))}
        if any(not a and any(has[i + 1:]) for i, a in enumerate(has)):
            tags.add("regionless-record-before-one-with-regions")
        if any(not a and any(has[:i]) for i, a in enumerate(has)):
            tags.add("regionless-record-after-one-with-regions")
        knowns = [j.known for j in parts if not j.spec_ok]
        known = knowns[0] if knowns and all(knowns) and spec == all(j.spec_ok for j in parts) else None
        if spec:
            known = None
        return Judgement(all(j.corr_ok for j in parts), spec, in_scope=all(j.in_scope for j in parts), known=known,
                         nontrivial=any(j.nontrivial for j in parts) or sum(has) > 0 and len(has) > 1,
                         tags=tuple(sorted(tags)), detail=" | ".join(details)[:3000])

    def judge_record(self, case: Dict[str, Any], obs: Dict[str, Any], drv: Dict[str, Any]) -> Judgement:
        if "err" in drv and "regions" not in drv:
            return Judgement(False, True, detail=f"driver error {drv['err']}")
        corr, spec = True, True
        details: List[str] = []
        tags: List[str] = [f"regions={min(len(obs['regions']), 4)}", "circular" if case["circular"] else "linear",
                           "comment=" + case.get("comment", "none")]
        if obs["regions"] and not obs.get("full_same", True):
            spec = False
            details.append("the full-record GenBank text written after the region files differs from the one written before")
        known: Optional[str] = None
        nontrivial = False
        for k, (r, d) in enumerate(zip(obs["regions"], drv["regions"])):
            data = r["data"]
            cross = data["start"] >= data["end"]
            tags.append("region-over-origin" if cross else "region-plain")
            if cross and data["start"] == data["end"]:
                tags.append("region-whole-record")
            if cross or k > 0:
                nontrivial = True
            where = f"region {k + 1} [{data['start']}:{data['end']}]"
            model = d["model"]
            # ---------------- correspondence: what was written, against the model's extract
            if r.get("write_err") in ("no-file", "unreadable-file"):
                spec = False
                details.append(f"{where}: {r['msg']}")
                known = "none"
                continue
            if "write_err" in r:
                tags.append("write-err:" + r["write_err"])
                if not ("err" in model and model["err"] == r["write_err"].split(":")[0]):
                    corr = False
                    details.append(f"{where}: implementation raised {r['write_err']} ({r.get('msg')}), model {str(model)[:200]}")
                # a region of a valid record must be writable
                spec = False
                details.append(f"{where}: write_to_genbank raised {r['write_err']}: {r.get('msg')}")
                continue
            if "err" in model:
                corr = False
                details.append(f"{where}: model raises {model['err']}, implementation wrote a file")
            else:
                m, e = model["ok"], r["extract"]
                for key in ("seq", "orig_start", "orig_end", "cross_note"):
                    if m[key] != e[key]:
                        corr = False
                        details.append(f"{where}: {key}: model {str(m[key])[:80]!r} vs file {str(e[key])[:80]!r}")
                if m["features"] != e["features"]:
                    corr = False
                    diff = [(a, b) for a, b in zip(m["features"], e["features"]) if a != b][:2]
                    details.append(f"{where}: features differ (model {len(m['features'])}, file {len(e['features'])}): {diff}")
                if not m["parent_same"]:
                    corr = False
                    details.append(f"{where}: model leaves the parent changed")
                if m["parent_touched"]:
                    tags.append("parent-touched-and-restored")
                if d["ann"].get("file") != r.get("file_sc"):
                    corr = False
                    details.append(f"{where}: structured comments: model {d['ann'].get('file')} vs file {r.get('file_sc')}")
                if d["ann"].get("parent_after") != r.get("sc_after"):
                    corr = False
                    details.append(f"{where}: full record's structured comments afterwards: model {d['ann'].get('parent_after')} "
                                   f"vs real {r.get('sc_after')}")
            # ---------------- spec on what the implementation wrote
            e = r["extract"]
            oi = d["on_impl"]
            problems: List[str] = []
            if r["n_records"] != 1:
                problems.append(f"{r['n_records']} records in the file")
            if e["seq"] != d["expected_seq"]:
                problems.append("sequence is not the region's sequence")
            if e["orig_start"] != str(data["start"]) or e["orig_end"] != str(data["end"]):
                problems.append(f"Orig. start/end {e['orig_start']}/{e['orig_end']}")
            if not all(oi["same_bases"]):
                bad = [f for f, ok in zip(e["features"], oi["same_bases"]) if not ok][:2]
                problems.append(f"features not covering the same bases: {bad}")
            if not all(r["seq_same"]):
                bad = [f for f, ok in zip(e["features"], r["seq_same"]) if not ok][:2]
                problems.append(f"features extracting different nucleotides: {bad}")
            for flag in ("protos_numbered", "cands_numbered", "subs_numbered", "protos_ties", "subs_ties",
                         "refs_in_range", "cores_agree",
                         "one_region", "refs_consistent", "motif_locs", "inside_kept"):
                if not oi[flag]:
                    problems.append(f"{flag} fails")
            if not r["parent_same"]:
                problems.append("the full record was changed by writing the region file")
            if not r["ann_same"]:
                problems.append(f"the full record's annotations were changed by writing the region file: structured comments "
                                f"{r['sc']} became {r['sc_after']}")
            ann = d["ann"]
            if r.get("file_sc") != ann.get("expected"):
                problems.append(f"structured comments of the region file: {r.get('file_sc')}, expected {ann.get('expected')}")
            # ---------------- loading the file again
            class_here: Optional[str] = None
            if "reload_err" in r:
                problems.append(f"file does not load: {r['reload_err']}: {r.get('msg')}")
                if d["kf_prepeptide_cut"]:
                    class_here = "KF-C12-prepeptide-cut"
                elif d["kf_exons_span_file"] and "origin spanning exon while in a linear record" in str(r.get("msg")):
                    class_here = "KF-C12-exons-span-file"
            else:
                rl = r["reload"]
                if rl["n_records"] != 1 or len(rl["regions"]) != 1:
                    problems.append(f"loaded file has {len(rl['regions'])} regions")
                else:
                    expected = canonical_content(r["content"], d["images"], file_numbers(obs["parent"], e["features"]))
                    found = canonical_content(rl["regions"][0], None)
                    if data["start"] == data["end"]:
                        # a region going all the way round is cut open at its start: a peptide lying across the cut
                        # is not inside the region for the full record, but its three motifs are, and loading the
                        # file reassembles it over the file's ends — faithful, so not held against the file
                        found["motifs"] = [m for m in found["motifs"] if m in expected["motifs"] or not (
                            len(m[1]) == 2 and m[1][0][0] == 0 and m[1][-1][1] == d["region_len"])]
                    if rl["len"] != d["region_len"]:
                        problems.append(f"loaded record has length {rl['len']}, expected {d['region_len']}")
                    if expected != found:
                        keys = [key for key in expected if expected[key] != found.get(key)]
                        problems.append(f"loaded region differs in {keys}: expected {[expected[x] for x in keys][:1]} "
                                        f"found {[found[x] for x in keys][:1]}")
                        if d["kf_equal_areas"] and set(keys) <= {"cands", "by_number"}:
                            class_here = "KF-C12-equal-areas"
                        if d["kf_file_reconnects"]:
                            class_here = "KF-C12-circular-file-reconnects"
                    if (rl["n_protos"], rl["n_cands"], rl["n_subs"]) != (
                            r["content"]["n_protos"], len(r["content"]["cands"]), len(r["content"]["subs"])):
                        problems.append("loaded record has other areas than the region's")
            if problems:
                spec = False
                details.append(f"{where}: " + "; ".join(problems))
                allowed = ("file does not load", "loaded region differs") + (
                    ("motif_locs fails",) if class_here == "KF-C12-prepeptide-cut" else ())
                only_reload = all(p.startswith(allowed) for p in problems)
                if class_here and only_reload and known != "none":
                    known = known or class_here      # several regions may fail, each inside some class
                else:
                    known = "none"      # a violation outside every class
            if d["kf_prepeptide_cut"]:
                tags.append("prepeptide-cut")
            if d["kf_equal_areas"]:
                tags.append("equal-areas")
        if known == "none" or spec:
            known = None
        scope = all(bool(d.get("scope", True)) for d in drv["regions"])
        tags.append("in-scope" if scope else "out-of-scope")
        return Judgement(corr, spec, in_scope=scope, known=known, nontrivial=nontrivial,
                         tags=tuple(sorted(set(tags))), detail=" | ".join(details)[:3000])

    def shrink(self, case: Dict[str, Any]) -> Iterator[Dict[str, Any]]:
        if "records" in case:
            records = case["records"]
            for i in range(len(records)):
                if len(records) > 1:
                    yield dict(case, records=records[:i] + records[i + 1:])
            for i, sub in enumerate(records):
                for smaller in self.shrink(sub):
                    yield dict(case, records=records[:i] + [smaller] + records[i + 1:])
            return
        for key in ("peps", "misc", "motifs", "cds", "subs", "protos"):
            items = case.get(key, [])
            if len(items) > 1:
                yield dict(case, **{key: []})
            for i in range(len(items)):
                yield dict(case, **{key: items[:i] + items[i + 1:]})


PROP = C12
