"""C03 — protoclusters are the maximal cutoff-chains of a rule's anchoring genes.

Implementation under test: `detect_protoclusters_and_signatures` of
antismash/common/hmm_rule_parser/cluster_prediction.py (apply_cluster_rules, find_protoclusters,
_extend_area_location, apply_extenders, remove_redundant_protoclusters, merge_over_origin,
strip_inferior_domains, build_results), driven through dynamic profiles only (no HMMER).

`Record.get_cds_features_within_location` is owned by C08.  The model takes its *specification*
as a parameter ("all genes sharing a base with / contained in the location, in record order, part
by part"); the harness runs the real pipeline on a record whose lookup is checked against that
specification on every call and answers with the specified value (`SpecLookupRecord`), and
counts the calls on which the real lookup deviated (tag `lookup-deviates`).
"""
from __future__ import annotations

import itertools
import random
from typing import Any, Dict, Iterator, List, Optional, Tuple

from ..framework import Judgement, Property, err_kind
from . import common

CP = "antismash/common/hmm_rule_parser/cluster_prediction.py"

_REC_CLASS: Dict[str, Any] = {}


def spec_lookup_record_class() -> Any:
    """DummyRecord whose CDS lookup is replaced by its specification (and compared with the real one)"""
    if "cls" in _REC_CLASS:
        return _REC_CLASS["cls"]
    from antismash.common.secmet.test.helpers import DummyRecord
    from antismash.common.secmet.locations import locations_overlap, location_contains_other

    class SpecLookupRecord(DummyRecord):
        """the lookup answers with its specification; deviations of the real lookup are counted"""
        def get_cds_features_within_location(self, location, with_overlapping=False):  # type: ignore
            genes = list(self.get_cds_features())

            def keep(gene: Any, loc: Any, overlapping: bool) -> bool:
                if location_contains_other(loc, gene.location):
                    return True
                return overlapping and locations_overlap(gene.location, loc)
            if len(location.parts) > 1:
                found: List[Any] = []
                for part in location.parts:
                    for gene in genes:
                        if locations_overlap(gene.location, part) and gene not in found:
                            found.append(gene)
                spec = [gene for gene in found if keep(gene, location, with_overlapping)]
            else:
                spec = [gene for gene in genes if keep(gene, location, with_overlapping)]
            try:
                real = super().get_cds_features_within_location(location, with_overlapping=with_overlapping)
            except Exception:  # pylint: disable=broad-except
                real = None
            if real != spec:
                LOOKUP_DEVIATIONS.append(1)
            return spec

    _REC_CLASS["cls"] = SpecLookupRecord
    return SpecLookupRecord


LOOKUP_DEVIATIONS: List[int] = []


def unstranded(loc: Dict[str, Any]) -> Dict[str, Any]:
    """the strand of an area is not a property-level observable"""
    return {"c": loc["c"], "parts": [[p[0], p[1]] for p in loc["parts"]]}


def origin_gene(rng: random.Random, length: int, up: int, down: int, strand: int, multi: bool = True) -> Dict[str, Any]:
    """an origin-spanning gene [length-up, length) + [0, down) with 1-3 exons on each side of the origin, in
       Biopython part order: forward = upper exons ascending then lower ascending; reverse = lower exons
       descending then upper exons descending"""
    def exons(lo: int, hi: int) -> List[List[int]]:
        k = rng.choice([1, 1, 2, 2, 3]) if multi else 1
        if hi - lo < 2 * k:
            return [[lo, hi]]
        cuts = sorted(rng.sample(range(lo + 1, hi), 2 * k - 2)) if k > 1 else []
        cuts = [lo] + cuts + [hi]
        return [[cuts[i], cuts[i + 1]] for i in range(0, len(cuts), 2) if cuts[i] < cuts[i + 1]]
    lower, upper = exons(0, down), exons(length - up, length)
    if strand == -1:
        return compound([[a, b, -1] for a, b in reversed(lower)] + [[a, b, -1] for a, b in reversed(upper)])
    return compound([[a, b, 1] for a, b in upper] + [[a, b, 1] for a, b in lower])


def simple(lo: int, hi: int, s: Any = 1) -> Dict[str, Any]:
    return {"c": False, "parts": [[lo, hi, s]]}


def compound(parts: List[List[Any]]) -> Dict[str, Any]:
    return {"c": True, "parts": parts}


class C03(Property):
    ID = "C03"
    SHAPE = [(CP, q) for q in (
        "apply_cluster_rules", "find_protoclusters", "_extend_area_location", "apply_extenders",
        "remove_redundant_protoclusters", "merge_over_origin", "strip_inferior_domains", "build_results",
        "detect_protoclusters_and_signatures", "find_dynamic_hits")] + [
        ("antismash/common/hmm_rule_parser/cluster_prediction.py", "Ruleset.__post_init__"),
        ("antismash/common/hmm_rule_parser/cluster_prediction.py", "RuleDetectionResults.protoclusters"),
        ("antismash/common/hmm_rule_parser/cluster_prediction.py", "CDSResults.__init__"),
        ("antismash/common/hmm_rule_parser/rule_parser.py", "Parser._parse_rule"),
        ("antismash/common/hmm_rule_parser/rule_parser.py", "Parser._parse_superiors"),
        ("antismash/common/hmm_rule_parser/rule_parser.py", "Parser.__init__"),
        ("antismash/common/hmm_rule_parser/rule_parser.py", "DetectionRule.__init__"),
        ("antismash/common/hmm_rule_parser/rule_parser.py", "Details.__init__"),
        ("antismash/common/hmm_rule_parser/rule_parser.py", "Details.in_range"),
        ("antismash/common/hmm_rule_parser/rule_parser.py", "Conditions.get_satisfied"),
        ("antismash/common/hmm_rule_parser/rule_parser.py", "Conditions.is_satisfied"),
        ("antismash/common/hmm_rule_parser/rule_parser.py", "Conditions.are_subconditions_satisfied"),
        ("antismash/common/hmm_rule_parser/rule_parser.py", "AndCondition.is_satisfied"),
        ("antismash/common/hmm_rule_parser/rule_parser.py", "SingleCondition.is_satisfied"),
        ("antismash/common/hmm_rule_parser/rule_parser.py", "CDSCondition.is_satisfied"),
        ("antismash/common/hmm_rule_parser/rule_parser.py", "MinimumCondition.is_satisfied"),
        ("antismash/common/hmm_rule_parser/rule_parser.py", "ConditionMet.__bool__"),
        ("antismash/common/secmet/features/feature.py", "Feature.__init__"),
        ("antismash/common/secmet/features/feature.py", "Feature.overlaps_with"),
        ("antismash/common/secmet/features/feature.py", "Feature.is_contained_by"),
        ("antismash/common/secmet/locations.py", "location_contains_overlapping_exons"),
        ("antismash/common/secmet/record.py", "Record.get_distance_between_features"),
        ("antismash/common/secmet/record.py", "Record.is_circular"),
        ("antismash/common/hmm_rule_parser/rule_parser.py", "DetectionRule.detect"),
        ("antismash/common/hmm_rule_parser/rule_parser.py", "DetectionRule.can_extend_to"),
        ("antismash/common/secmet/features/protocluster.py", "Protocluster.__init__"),
        ("antismash/common/secmet/features/cdscollection.py", "CDSCollection.__init__"),
        ("antismash/common/secmet/features/cdscollection.py", "CDSCollection.__lt__"),
        ("antismash/common/secmet/features/feature.py", "Feature.__lt__"),
        ("antismash/common/secmet/record.py", "Record.extend_location"),
        ("antismash/common/secmet/record.py", "Record.connect_locations"),
        ("antismash/common/secmet/record.py", "Record.get_distance_between_locations"),
        ("antismash/common/secmet/locations.py", "connect_locations"),
        ("antismash/common/secmet/locations.py", "_reduce_parts_to_location"),
        ("antismash/common/secmet/locations.py", "split_origin_bridging_location"),
        ("antismash/common/secmet/locations.py", "_merge_over_origin"),
        ("antismash/common/secmet/locations.py", "_split_sections_around_origin"),
        ("antismash/common/secmet/locations.py", "_is_wrapping_shorter"),
        ("antismash/common/secmet/locations.py", "get_distance_between_locations"),
        ("antismash/common/secmet/locations.py", "locations_overlap"),
        ("antismash/common/secmet/locations.py", "location_contains_other"),
        ("antismash/common/secmet/locations.py", "location_bridges_origin"),
        ("antismash/common/secmet/locations.py", "make_forwards"),
    ]
    RULE = ("records (linear and circular, length from smaller than to much larger than the distances) x gene layouts "
            "(both strands, touching / overlapping / nested / multi-exon / origin-spanning genes, gaps at cutoff-1, cutoff, "
            "cutoff+1 on the line and across the origin) x hit assignments over profiles {a,b,c,x} x rulesets of 1-4 rules "
            "(mixed cutoffs and neighbourhoods, conditions single/and/or/cds/minimum/negation, superiors, EXTENDERS), plus "
            "structured scenarios (ancillary-only anchors, several cutoffs around the origin, chains through an origin-spanning "
            "gene, superior covers/equals/inside/overlaps/adjacent, extender walks at cutoff-1/cutoff/cutoff+1); thorough/deep "
            "tier: a tiny family enumerated completely (length 16, <= 4 genes on the 2-grid, line and ring, 5 cutoffs x 3 "
            "neighbourhoods) and a sampled family on length 40; non-trivial = a chain of at least two anchoring genes, or "
            "several chains with superiors/extenders in the ruleset; distinct by canonical input")
    TRUSTED = ["Record.get_cds_features_within_location is replaced by its specification (owned by C08); deviating calls are counted",
               "HMMER hit production (find_hmmer_hits, filter_results*) is not exercised: hits come from dynamic profiles",
               "Protocluster/CDSCollection constructor checks are modelled as the errors they raise; SecMetQualifier annotation is not observed",
               "the order of `record.get_cds_features()` (bisect insertion by Feature.__lt__) is an input of the model",
               "Python set/dict iteration order is not observable in the canonicalised outputs",
               "about 30 % of the cases that can be written as rule text go through the real Parser and Ruleset multipliers "
               "(tag rules-via-text+multipliers); the model receives the distances / superiors the case declares"]

    # ------------------------------------------------------------------ generators
    PROFS = ["a", "b", "c", "x"]
    ALL_PROFS = ["a", "b", "c", "x", "y", "i", "s"]

    def rand_cond(self, rng: random.Random) -> Any:
        r = rng.random()
        p, q = rng.sample(self.PROFS[:3], 2)
        if r < 0.40:
            return ["single", False, p]
        if r < 0.60:
            return ["conj", [["single", False, p], ["single", False, q]]]
        if r < 0.70:
            return ["group", False, [["single", False, p], ["single", False, q]]]
        if r < 0.78:
            return ["cds", False, [["conj", [["single", False, p], ["single", False, q]]]]]
        if r < 0.86:
            return ["minimum", False, 2, [p, q]]
        if r < 0.93:
            return ["conj", [["single", False, p], ["single", True, q]]]
        return ["conj", [["single", False, p], ["cds", True, [["single", False, q]]]]]

    def rand_ext(self, rng: random.Random) -> Any:
        r = rng.random()
        if r < 0.6:
            return ["single", False, rng.choice(self.PROFS)]
        p, q = rng.sample(self.PROFS, 2)
        if r < 0.8:
            return ["cds", False, [["single", False, p], ["single", False, q]]]
        return ["cds", False, [["conj", [["single", False, p], ["single", False, q]]]]]

    def rand_rules(self, rng: random.Random, cutoffs: List[int], nbhds: List[int]) -> List[Dict[str, Any]]:
        n = rng.choice([1, 1, 2, 2, 3, 3, 4])
        rules: List[Dict[str, Any]] = []
        for i in range(n):
            sup: List[str] = []
            if i and rng.random() < 0.45:
                first = rng.randrange(i)
                sup = [f"r{first}"]
                # the parser closes superiors transitively; mostly do the same
                if rng.random() < 0.8:
                    for s in rules[first]["sup"]:
                        if s not in sup:
                            sup.append(s)
            rules.append({"name": f"r{i}", "cutoff": rng.choice(cutoffs), "nbhd": rng.choice(nbhds),
                          "cond": self.rand_cond(rng), "sup": sup,
                          "ext": self.rand_ext(rng) if rng.random() < 0.25 else None})
        if rng.random() < 0.3:
            rng.shuffle(rules)   # inferior rules listed before their superiors
        return rules

    def rand_layout(self, rng: random.Random, cutoffs: List[int], unit: int) -> Tuple[int, bool, List[Dict[str, Any]]]:
        circular = rng.random() < 0.6
        ngenes = rng.choice([1, 2, 3, 3, 4, 4, 5, 6, 8])
        genes: List[Dict[str, Any]] = []
        pos = rng.choice([0, 1, 2, unit]) if rng.random() < 0.7 else rng.choice(cutoffs) + rng.choice([-1, 0, 1])
        pos = max(pos, 0)
        seen = set()
        for _ in range(ngenes):
            c = rng.choice(cutoffs)
            glen = rng.choice([1, 2, 3, unit, 2 * unit + 1])
            lo = max(pos, 0)
            hi = lo + glen
            strand = rng.choice([1, -1])
            if rng.random() < 0.12 and glen >= 3:
                cut1 = lo + rng.randrange(1, glen - 1)
                cut2 = rng.randrange(cut1 + 1, hi)
                parts = [[lo, cut1, strand], [cut2, hi, strand]]
                if strand == -1:
                    parts.reverse()
                loc = compound(parts)
            else:
                loc = simple(lo, hi, strand)
            key = repr(loc["parts"])
            if key not in seen:
                seen.add(key)
                genes.append({"loc": loc})
            gap = rng.choice([c - 1, c, c + 1, c - 1, c, c + 1, 0, 1, -1, -glen, c // 2, 3 * c])
            if gap == -glen and rng.random() < 0.5:
                pos = lo + 1          # nested / same start region
            else:
                pos = hi + gap
        last_end = max(p[1] for g in genes for p in g["loc"]["parts"])
        c = rng.choice(cutoffs)
        first_lo = min(p[0] for g in genes for p in g["loc"]["parts"])
        tail = rng.choice([0, 1, c - 1 - first_lo, c - first_lo, c + 1 - first_lo, c, 3 * c, 10 * c])
        length = last_end + max(tail, 0)
        if circular and rng.random() < 0.35 and first_lo >= 1:
            k = rng.choice([1, 2, unit, 5, 7])
            m = rng.choice([1, first_lo, max(first_lo // 2, 1), max(first_lo - 1, 1)])
            m = max(1, min(m, first_lo + (1 if rng.random() < 0.2 else 0)))
            if length - k < last_end and rng.random() < 0.7:
                length = last_end + k + rng.choice([0, 1, c])
            if length - k >= m and length - k > 0:
                genes.append({"loc": origin_gene(rng, length, k, m, rng.choice([1, -1]))})
        length = max(length, 1)
        rng.shuffle(genes)       # insertion order into the record (matters for ties only)
        for n, g in enumerate(genes):
            g["n"] = n
        return length, circular, genes

    def assign_hits(self, rng: random.Random, genes: List[Dict[str, Any]]) -> None:
        dense = rng.random() < 0.5
        for g in genes:
            hits: List[List[Any]] = []
            if rng.random() < (0.85 if dense else 0.55):
                for p in rng.sample(self.PROFS, rng.choice([1, 1, 1, 2, 3])):
                    hits.append([p, 0])
            g["hits"] = hits
            g["hasres"] = bool(hits) or rng.random() < 0.1

    def random_case(self, rng: random.Random) -> Dict[str, Any]:
        unit = rng.choice([1, 1, 1, 5, 1000])
        cutoffs = [u * unit for u in rng.choice([[2, 5, 20], [2, 5, 20], [3, 10], [5], [20, 21], [1, 2]])]
        nbhds = [u * unit for u in rng.choice([[1, 10, 25], [0, 3], [1], [25, 100]])]
        length, circular, genes = self.rand_layout(rng, cutoffs, unit)
        self.assign_hits(rng, genes)
        rules = self.rand_rules(rng, cutoffs, nbhds)
        return {"len": length, "circ": circular, "genes": genes, "rules": rules, "text": rng.random() < 0.3}

    def targeted_case(self, rng: random.Random) -> Dict[str, Any]:
        """structured scenarios around the mechanisms of the property, with random sizes"""
        kind = rng.choice(["ancillary-only", "multi-cutoff-origin", "chain-through-origin", "superior-cover",
                           "superior-cover-origin", "extender-walk"])
        c = rng.choice([3, 5, 20, 1000])
        gl = rng.choice([1, 2, c // 2 + 1])
        nb = rng.choice([0, 1, c, 3 * c])
        A = lambda p: ["single", False, p]   # noqa: E731

        def gene(lo: int, profs: str, strand: int = 1, ln: Optional[int] = None) -> Dict[str, Any]:
            return {"loc": simple(lo, lo + (ln or gl), strand), "hits": [[p, 0] for p in profs], "hasres": True}
        if kind == "ancillary-only":
            # g1(a) .. g2(b) .. g3(c): g3 in reach of g2 only, rule `a and b and not c`: g2 anchors only as ancillary of g1
            d12 = rng.choice([c - 1, c - 1, c, 1])
            d23 = rng.choice([c - 1, c - 1, c, 0])
            lo1 = rng.choice([0, 1, c])
            g1 = gene(lo1, "a", rng.choice([1, -1]))
            lo2 = lo1 + gl + d12
            g2 = gene(lo2, "b", rng.choice([1, -1]))
            lo3 = lo2 + gl + d23
            g3 = gene(lo3, "c")
            genes = [g1, g2, g3]
            length = lo3 + gl + rng.choice([0, 1, c, 5 * c])
            circ = rng.random() < 0.4
            if circ:
                length += 3 * c      # keep the far side out of reach
            rules = [{"name": "r0", "cutoff": c, "nbhd": nb,
                      "cond": ["conj", [A("a"), A("b"), ["single", True, "c"]]], "sup": [], "ext": None}]
            if rng.random() < 0.5:
                rules.append({"name": "r1", "cutoff": rng.choice([c, 2 * c + gl + 1]), "nbhd": nb,
                              "cond": rng.choice([["minimum", False, 2, ["a", "b"]], A("b")]), "sup": rng.choice([[], ["r0"]]), "ext": None})
        elif kind == "multi-cutoff-origin":
            # two genes either side of the origin of a ring, rules of up to three different cutoffs
            length = rng.choice([8 * c, 20 * c, 5 * c + 1])
            k = rng.choice([1, c // 2, c - 2 - gl]) if c > 3 else 1
            k = max(k, 0)
            g1 = gene(length - gl - k, "a")
            g2 = gene(rng.choice([k, 0, 1, max(c - 2 * k - 2, 0)]), "b")
            genes = [g1, g2] + ([gene(length // 2, rng.choice(["a", "b", "ab"]))] if rng.random() < 0.5 else [])
            cuts = [rng.choice([c * 2, c, max(c // 4, 1), 1]) for _ in range(rng.choice([2, 3, 4]))]
            cond = rng.choice([["conj", [A("a"), A("b")]], ["minimum", False, 2, ["a", "b"]], ["cds", False, [A("a"), A("b")]]])
            rules = [{"name": f"r{i}", "cutoff": cu, "nbhd": nb, "cond": cond, "sup": [], "ext": None} for i, cu in enumerate(cuts)]
            circ = True
        elif kind == "chain-through-origin":
            # an origin-spanning anchor plus anchors at chosen gaps before / after it, and far ones
            length = rng.choice([12 * c, 30 * c, 7 * c + 3]) + 4 * gl
            up = rng.choice([1, gl, c, 5, 6])
            down = rng.choice([1, gl, c, 5, 6])
            strand = rng.choice([1, -1])
            genes = [{"loc": origin_gene(rng, length, up, down, strand), "hits": [["a", 0]], "hasres": True}]
            pos = down
            for _ in range(rng.choice([0, 1, 2])):
                pos += rng.choice([c - 1, c, c + 1, 0])
                genes.append(gene(pos, "a", rng.choice([1, -1])))
                pos += gl
            pos = length - up
            for _ in range(rng.choice([1, 2, 3])):
                pos -= rng.choice([c - 1, c, c + 1, 0]) + gl
                if pos > length // 2:
                    genes.append(gene(pos, "a", rng.choice([1, -1])))
            if rng.random() < 0.6:
                genes.append(gene(length // 2 - gl, "a"))
            rules = [{"name": "r0", "cutoff": c, "nbhd": nb, "cond": A("a"), "sup": [], "ext": None}]
            circ = True
        elif kind == "superior-cover":
            # an inferior chain and a superior chain that covers / equals / is inside / merely overlaps it
            lo = rng.choice([0, c, 3 * c])
            inner = [gene(lo + i * (gl + c - 1), "i") for i in range(rng.choice([1, 2, 3]))]
            mode = rng.choice(["cover", "equal", "inside", "overlap", "adjacent", "apart"])
            for i, g in enumerate(inner):
                if mode in ("cover", "equal") or (mode == "inside" and i == len(inner) // 2) or (mode == "overlap" and i == 0):
                    g["hits"].append(["s", 0])
            genes = list(inner)
            end = lo + len(inner) * (gl + c - 1)
            if mode == "cover":
                genes.append(gene(end, "s"))
            if mode == "overlap":
                genes.insert(0, gene(max(lo - c + 1 - gl, 0), "s")) if lo >= c else None
            if mode == "adjacent":
                genes.append(gene(end, "s"))
            if mode == "apart":
                genes.append(gene(end + 3 * c, "s"))
            length = end + 5 * c + gl
            circ = rng.random() < 0.3
            rules = [{"name": "sup", "cutoff": c, "nbhd": nb, "cond": A("s"), "sup": [], "ext": None},
                     {"name": "inf", "cutoff": c, "nbhd": rng.choice([nb, 0]), "cond": A("i"), "sup": ["sup"], "ext": None}]
            if rng.random() < 0.3:
                rules.reverse()
        elif kind == "superior-cover-origin":
            # a superior chain that crosses the origin of a ring (genes chained over it and / or an origin-spanning
            # gene) and an inferior chain inside it: before the origin, after it, or over it as well; or merely
            # overlapping / next to it
            c = max(c, 3)
            length = rng.choice([20 * c, 9 * c + 1, 40 * c]) + 6 * gl
            before = [length - (i + 1) * (gl + rng.choice([0, 1, c - 1])) - rng.choice([0, 1, c // 2]) for i in range(rng.choice([1, 2]))]
            after = [rng.choice([0, 1, c // 2]) + i * (gl + rng.choice([0, 1, c - 1])) for i in range(rng.choice([1, 2]))]
            sup_genes = [gene(max(lo, length // 2 + 1), "s", rng.choice([1, -1])) for lo in before] + \
                        [gene(lo, "s", rng.choice([1, -1])) for lo in after]
            span = None
            if rng.random() < 0.4:
                up, down = rng.choice([1, 2, gl]), rng.choice([1, 2, gl])
                span = {"loc": origin_gene(rng, length, up, down, rng.choice([1, -1])), "hits": [["s", 0]], "hasres": True}
                sup_genes = [g for g in sup_genes if down <= g["loc"]["parts"][0][0] and g["loc"]["parts"][0][1] <= length - up]
                sup_genes.append(span)
            mode = rng.choice(["inside-after", "inside-before", "inside-both", "all", "overlap", "apart", "own-gene-inside"])
            genes = list(sup_genes)
            simple_sup = [g for g in sup_genes if not g["loc"]["c"]]
            lo_side = [g for g in simple_sup if g["loc"]["parts"][0][0] < length // 2]
            hi_side = [g for g in simple_sup if g["loc"]["parts"][0][0] >= length // 2]
            if mode == "inside-after" and lo_side:
                rng.choice(lo_side)["hits"].append(["i", 0])
            elif mode == "inside-before" and hi_side:
                rng.choice(hi_side)["hits"].append(["i", 0])
            elif mode == "inside-both" and lo_side and hi_side:
                lo_side[0]["hits"].append(["i", 0])
                hi_side[0]["hits"].append(["i", 0])
            elif mode == "all":
                for g in sup_genes:
                    g["hits"].append(["i", 0])
            elif mode == "overlap" and lo_side:
                lo_side[-1]["hits"].append(["i", 0])
                genes.append(gene(max(g["loc"]["parts"][0][1] for g in lo_side) + rng.choice([0, 1, c - 1]), "i"))
            elif mode == "own-gene-inside" and len(lo_side) >= 2:
                a, b = lo_side[0]["loc"]["parts"][0], lo_side[-1]["loc"]["parts"][0]
                if a[1] + 1 < b[0]:
                    genes.append(gene(a[1], "i", 1, ln=max(1, min(gl, b[0] - a[1] - 1))))
            else:
                genes.append(gene(length // 2 - 3 * c, "i"))
            circ = True
            cs = rng.choice([c, 2 * c])
            rules = [{"name": "sup", "cutoff": cs, "nbhd": nb, "cond": A("s"), "sup": [], "ext": None},
                     {"name": "inf", "cutoff": rng.choice([c, cs]), "nbhd": rng.choice([nb, 0]), "cond": A("i"), "sup": ["sup"], "ext": None}]
            if rng.random() < 0.3:
                rules.reverse()
        else:
            # EXTENDERS: anchors in the middle, extendable genes at <= cutoff, == cutoff, cutoff + 1 on both sides
            lo = 3 * c + 3 * gl
            genes = [gene(lo, "a")]
            pos = lo + gl
            for _ in range(rng.choice([1, 2, 3])):
                pos += rng.choice([c - 1, c, c + 1, 0])
                genes.append(gene(pos, rng.choice(["x", "x", "y", "xy", "b"])))
                pos += gl
            end = pos
            pos = lo
            for _ in range(rng.choice([1, 2, 3])):
                pos -= rng.choice([c - 1, c, c + 1, 0]) + gl
                if pos >= 0:
                    genes.append(gene(pos, rng.choice(["x", "x", "y", "xy", "b"])))
            length = end + rng.choice([0, c, 4 * c])
            circ = rng.random() < 0.4
            ext = rng.choice([A("x"), ["cds", False, [A("x"), A("y")]], ["cds", False, [["conj", [A("x"), A("y")]]]]])
            rules = [{"name": "r0", "cutoff": c, "nbhd": nb, "cond": A("a"), "sup": [], "ext": ext}]
            if circ and rng.random() < 0.7:
                # put the anchor next to the start of the record: the walk backwards goes over the origin
                length += rng.choice([2 * c + 2, 5 * c])          # something beyond reach after the last gene
                genes.append(gene(end + c + 1 + rng.choice([0, c]), rng.choice(["b", "x", "y"])))
                shift = lo - rng.choice([0, 1, gl, c - 1])
                moved = []
                for g in genes:
                    a, b, st = g["loc"]["parts"][0]
                    a2 = (a - shift) % length
                    if a2 + (b - a) <= length:
                        moved.append(dict(g, loc=simple(a2, a2 + (b - a), st)))
                    elif rng.random() < 0.5:
                        moved.append(dict(g, loc=origin_gene(rng, length, length - a2, a2 + (b - a) - length, st)))
                genes = moved
        seen, out = set(), []
        for g in genes:
            if g is None:
                continue
            key = repr(g["loc"]["parts"])
            inside = all(0 <= p[0] < p[1] <= length for p in g["loc"]["parts"])
            if key not in seen and inside:
                seen.add(key)
                out.append(g)
        rng.shuffle(out)
        for n, g in enumerate(out):
            g["n"] = n
        return {"len": max(length, 1), "circ": circ, "genes": out, "rules": rules, "text": rng.random() < 0.3}

    def cases(self, rng: random.Random, tier: str, deep: bool) -> Iterator[Dict[str, Any]]:
        n_random = 50000 if deep else 6000
        for _ in range(n_random // 5):
            case = self.targeted_case(rng)
            if case["genes"]:
                yield case
        for _ in range(n_random):
            yield self.random_case(rng)
        if deep:
            yield from self.small_scope(rng, full=(tier == "thorough"))

    def small_scope(self, rng: random.Random, full: bool) -> Iterator[Dict[str, Any]]:
        """(A) exhaustive tiny family: line/ring of length 16, every set of <= 4 genes [2k, 2k+2) (on a ring also
            with the origin-spanning gene [15,16)+[0,1) when slots 0 and 7 are free), all anchoring with profile `a`, one rule
            `a` with every cutoff in {1,2,3,5,7} x neighbourhood in {0,1,6}: enumerated completely.
            (B) sampled family on length 40 (<= 4 genes of length 2/4, both strands, superiors / extender rulesets)."""
        total = 0
        length = 16
        slots = list(range(0, length, 2))
        subsets = [c for k in (1, 2, 3, 4) for c in itertools.combinations(slots, k)]
        if not full:
            subsets = rng.sample(subsets, 40)
        for starts in subsets:
            for circ in (False, True):
                variants = [[simple(s, s + 2) for s in starts]]
                if circ and 0 not in starts and slots[-1] not in starts:
                    variants.append(variants[0] + [compound([[length - 1, length, 1], [0, 1, 1]])])
                for locs in variants:
                    for cutoff in (1, 2, 3, 5, 7):
                        for nb in (0, 1, 6):
                            genes = [{"n": n, "loc": loc, "hits": [["a", 0]], "hasres": True} for n, loc in enumerate(locs)]
                            total += 1
                            yield {"len": length, "circ": circ, "genes": genes,
                                   "rules": [{"name": "r0", "cutoff": cutoff, "nbhd": nb, "cond": ["single", False, "a"],
                                              "sup": [], "ext": None}]}
        self.exhaustive_done = full
        exhaustive_total = total
        length = 40
        slots = list(range(0, length, 2))
        rulesets = []
        for nb in (1, 10):
            rulesets.append([{"name": "r0", "cutoff": 6, "nbhd": nb, "cond": ["single", False, "a"], "sup": [], "ext": None}])
        rulesets.append([{"name": "r0", "cutoff": 6, "nbhd": 1, "cond": ["single", False, "a"], "sup": [], "ext": None},
                         {"name": "r1", "cutoff": 4, "nbhd": 10, "cond": ["single", False, "b"], "sup": ["r0"], "ext": None}])
        rulesets.append([{"name": "r0", "cutoff": 6, "nbhd": 1, "cond": ["single", False, "a"], "sup": [], "ext": ["single", False, "x"]}])
        layouts: List[List[Dict[str, Any]]] = []
        for k in (1, 2, 3, 4):
            combos = list(itertools.combinations(slots, k))
            limit = 1500 if full else 300
            if len(combos) > limit:
                combos = rng.sample(combos, limit)
            for starts in combos:
                glens = [rng.choice([2, 4]) for _ in starts]
                genes = [{"loc": simple(s, min(s + gl, length), rng.choice([1, -1]))} for s, gl in zip(starts, glens)]
                layouts.append(genes)
        for genes in layouts:
            for circ in (False, True):
                variants = [genes]
                if circ and all(g["loc"]["parts"][0][0] >= 2 and g["loc"]["parts"][0][1] <= length - 2 for g in genes):
                    variants.append(genes + [{"loc": compound([[length - 2, length, 1], [0, 2, 1]])}])
                for gs in variants:
                    for rules in (rulesets if full else [rng.choice(rulesets)]):
                        out = []
                        for n, g in enumerate(gs):
                            prof = ["a"]
                            if len(rules) > 1:
                                prof = [rng.choice(["a", "b", "a"])] + (["b"] if rng.random() < 0.3 else [])
                            if rules[0]["ext"] is not None:
                                prof = [rng.choice(["a", "x", "x"])]
                            out.append({"n": n, "loc": g["loc"], "hits": [[p, 0] for p in sorted(set(prof))], "hasres": True})
                        total += 1
                        yield {"len": length, "circ": circ, "genes": out, "rules": rules}
        self.extra_coverage = {"small_scope_cases": total, "exhaustive_family_cases": exhaustive_total,
                               "exhaustive_family": "length 16, <= 4 genes on the 2-grid (+ origin-spanning gene), line and ring, "
                                                    "cutoff in {1,2,3,5,7} x neighbourhood in {0,1,6}" if full else "sampled"}

    # ------------------------------------------------------------------ implementation adapter
    def build(self, case: Dict[str, Any]) -> Tuple[Any, Any]:
        from antismash.common.hmm_rule_parser import rule_parser as rp, cluster_prediction as cp
        from antismash.common.hmm_rule_parser.structures import DynamicHit, DynamicProfile
        rec = spec_lookup_record_class()(length=case["len"], circular=case["circ"])
        for g in case["genes"]:
            rec.add_cds_feature(common.dummy_cds(g["loc"], f"g{g['n']}"))
        profs = sorted({p for g in case["genes"] for p, _ in g["hits"]} | set(self.ALL_PROFS))
        table: Dict[str, Dict[str, List[Any]]] = {p: {} for p in profs}
        for g in case["genes"]:
            name = f"g{g['n']}"
            for p, s2 in g["hits"]:
                table[p].setdefault(name, []).append(DynamicHit(name, p, bitscore=s2 / 2))
            if g["hasres"] and not g["hits"]:
                table[profs[0]].setdefault(name, [])

        def mkprof(p: str) -> Any:
            return DynamicProfile(p, "d", lambda record, hmmer: {k: list(v) for k, v in table[p].items()})
        ruleset = None
        self.last_via_text = False
        if case.get("text"):
            ruleset = self.ruleset_from_text(case, profs, {p: mkprof(p) for p in profs})
            self.last_via_text = ruleset is not None
        if ruleset is None:
            rules = []
            for r in case["rules"]:
                cond = common.build_cond(r["cond"])
                top = cond if type(cond) is rp.Conditions else rp.Conditions(False, [cond])
                ext = common.build_cond(r["ext"]) if r["ext"] is not None else None
                rules.append(rp.DetectionRule(r["name"], "cat", r["cutoff"], r["nbhd"], top,
                                              superiors=list(r["sup"]), extenders=ext))
            ruleset = cp.Ruleset(tuple(rules), {}, "", {"cat"}, "tool",
                                 dynamic_profiles={p: mkprof(p) for p in profs}, equivalence_groups=[])
        return rec, ruleset

    @staticmethod
    def ruleset_from_text(case: Dict[str, Any], profs: List[str], dynamic: Dict[str, Any]) -> Any:
        """the same ruleset through the real rule text parser and the real distance multipliers
           (`RULE … CUTOFF kb NEIGHBOURHOOD kb CONDITIONS … [EXTENDERS …]`, `Ruleset(multipliers=…)`), when the case
           can be written that way: superiors defined earlier and transitively closed, distances a whole
           number of (scaled) kilobases; None otherwise"""
        import math
        from antismash.common.hmm_rule_parser import rule_parser as rp, cluster_prediction as cp
        from antismash.common.hmm_rule_parser.structures import Multipliers
        rules = case["rules"]
        seen: Dict[str, List[str]] = {}
        for r in rules:
            closed = set(r["sup"])
            for s_name in r["sup"]:
                if s_name not in seen:
                    return None
                closed.update(seen[s_name])
            if closed != set(r["sup"]) or len(set(r["sup"])) != len(r["sup"]):
                return None
            seen[r["name"]] = list(r["sup"])

        def scale(values: List[int]) -> Optional[Any]:
            nonzero = [v for v in values if v]
            unit = math.gcd(*nonzero) if nonzero else 1
            mult = unit / 1000
            if any(int((v // unit) * 1000 * mult) != v for v in values):
                return None
            return unit, mult
        cs, ns = scale([r["cutoff"] for r in rules]), scale([r["nbhd"] for r in rules])
        if cs is None or ns is None:
            return None
        lines = []
        for r in rules:
            sup = f" SUPERIORS {', '.join(r['sup'])}" if r["sup"] else ""
            ext = f" EXTENDERS {common.cond_str(r['ext'])}" if r["ext"] is not None else ""
            lines.append(f"RULE {r['name']} CATEGORY cat{sup} CUTOFF {r['cutoff'] // cs[0]} NEIGHBOURHOOD {r['nbhd'] // ns[0]} "
                         f"CONDITIONS {common.cond_str(r['cond'])}{ext}")
        try:
            parsed = rp.Parser("\n".join(lines), set(profs), {"cat"}).rules
        except Exception:  # pylint: disable=broad-except
            return None
        return cp.Ruleset(tuple(parsed), {}, "", {"cat"}, "tool", multipliers=Multipliers(cutoff=cs[1], neighbourhood=ns[1]),
                          dynamic_profiles=dynamic, equivalence_groups=[])

    def run_impl(self, case: Dict[str, Any]) -> Dict[str, Any]:
        from antismash.common.hmm_rule_parser import cluster_prediction as cp
        del LOOKUP_DEVIATIONS[:]
        try:
            rec, ruleset = self.build(case)
        except Exception as exc:  # pylint: disable=broad-except
            return {"err": "build:" + err_kind(exc), "msg": str(exc)[:200]}
        order = [int(cds.get_name()[1:]) for cds in rec.get_cds_features()]
        try:
            res = cp.detect_protoclusters_and_signatures(rec, ruleset)
        except Exception as exc:  # pylint: disable=broad-except
            return {"err": err_kind(exc), "msg": str(exc)[:200], "order": order, "lookup_dev": len(LOOKUP_DEVIATIONS)}
        clusters = []
        for pc, cds_results in res.cds_by_cluster.items():
            defs = []
            for cr in cds_results:
                d = cr.definition_domains.get(pc.product)
                if d:
                    defs.append([int(cr.cds.get_name()[1:]), sorted(d)])
            clusters.append({"rule": pc.product, "core": unstranded(common.location_json(pc.core_location)),
                             "loc": unstranded(common.location_json(pc.location)), "defs": sorted(defs)})
        clusters.sort(key=lambda c: (c["rule"], repr(c["core"]), repr(c["loc"])))
        return {"clusters": clusters, "order": order, "lookup_dev": len(LOOKUP_DEVIATIONS), "via_text": self.last_via_text}

    def driver_line(self, case: Dict[str, Any], obs: Dict[str, Any]) -> Optional[Dict[str, Any]]:
        if "order" not in obs:
            return None
        return {"len": case["len"], "circ": case["circ"], "genes": case["genes"], "rules": case["rules"],
                "order": obs["order"],
                "impl": [dict(c, core=dict(c["core"], parts=[p + [1] for p in c["core"]["parts"]]),
                              loc=dict(c["loc"], parts=[p + [1] for p in c["loc"]["parts"]]))
                         for c in obs["clusters"]] if "clusters" in obs else None}

    def judge(self, case: Dict[str, Any], obs: Dict[str, Any], drv: Optional[Dict[str, Any]]) -> Judgement:
        if drv is None:
            return Judgement(True, True, in_scope=False, tags=("build-error",), detail=str(obs))
        if "err" in drv and "model" not in drv:
            return Judgement(False, True, detail=f"driver error {drv['err']}")
        model, spec, scope = drv["model"], drv["spec"], drv["scope"]
        wf = bool(scope["wf"])
        tags = ["circular" if case["circ"] else "linear", "wf" if wf else "not-wf",
                "plain" if scope["plain"] else "superiors/extenders"]
        if obs.get("lookup_dev"):
            tags.append("lookup-deviates")
        if obs.get("via_text"):
            tags.append("rules-via-text+multipliers")
        if "err" in obs:
            kind = obs["err"].split(":")[0]
            corr = model.get("err") == kind
            tags.append("err:" + kind)
            spec_ok = not wf
            detail = "" if corr else f"model {model} vs implementation raised {obs['err']}: {obs.get('msg')}"
            if not spec_ok:
                detail = f"implementation raised {obs['err']} ({obs.get('msg')}) on a well-formed input; " + detail
            return Judgement(corr, spec_ok, in_scope=False, known=None, nontrivial=False, tags=tuple(tags), detail=detail)
        mclusters = None
        if "ok" in model:
            mclusters = sorted((dict(c, core=unstranded(c["core"]), loc=unstranded(c["loc"])) for c in model["ok"]),
                               key=lambda c: (c["rule"], repr(c["core"]), repr(c["loc"])))
        corr = mclusters == obs["clusters"]
        detail = "" if corr else f"model {model} vs implementation {obs['clusters']}"
        spec_ok = bool(spec["ok"]) or not wf
        known = (spec.get("known") or None) if not spec_ok else None
        if spec_ok and not corr and spec.get("model_known"):
            # inside a recorded defect class the implementation may be better than the model (a later repair)
            known = spec["model_known"]
        if not spec_ok:
            detail = f"spec: {spec['why']}; implementation {obs['clusters']}" + ("; " + detail if detail else "")
        n = len(obs["clusters"])
        tags.append(f"clusters{min(n, 5)}")
        tags.append(f"maxchain{min(spec['maxgroup'], 4)}")
        if spec.get("long"):
            tags.append("long-chain(C04 limit)")
        in_scope = wf and bool(scope["linear"])
        nontrivial = spec["maxgroup"] >= 2 or (not scope["plain"] and spec["groups"] >= 2)
        return Judgement(corr, spec_ok, in_scope=in_scope, known=known, nontrivial=nontrivial, tags=tuple(tags), detail=detail)

    def shrink(self, case: Dict[str, Any]) -> Iterator[Dict[str, Any]]:
        for i in range(len(case["genes"])):
            yield dict(case, genes=case["genes"][:i] + case["genes"][i + 1:])
        for i in range(len(case["rules"])):
            if len(case["rules"]) > 1:
                name = case["rules"][i]["name"]
                rest = [dict(r, sup=[s for s in r["sup"] if s != name]) for r in case["rules"][:i] + case["rules"][i + 1:]]
                yield dict(case, rules=rest)
        for i, r in enumerate(case["rules"]):
            if r["ext"] is not None:
                yield dict(case, rules=case["rules"][:i] + [dict(r, ext=None)] + case["rules"][i + 1:])
            if r["sup"]:
                yield dict(case, rules=case["rules"][:i] + [dict(r, sup=r["sup"][1:])] + case["rules"][i + 1:])
            if r["cond"][0] != "single":
                for sub in common.cond_children(r["cond"]):
                    if sub[0] == "single" and not sub[1]:
                        yield dict(case, rules=case["rules"][:i] + [dict(r, cond=sub)] + case["rules"][i + 1:])
        for i, g in enumerate(case["genes"]):
            for k in range(len(g["hits"])):
                g2 = dict(g, hits=g["hits"][:k] + g["hits"][k + 1:])
                yield dict(case, genes=case["genes"][:i] + [g2] + case["genes"][i + 1:])


PROP = C03
