"""C04 — location algebra agrees with the set-of-bases model on line and ring.

Implementation under test: secmet/locations.py (overlap, containment, distance, bridging, split,
connect, offset, make_forwards, remove_redundant_exons, build_location_from_others,
location_from_string), Record.extend_location, Feature.__lt__ / CDSCollection.__lt__.
"""
from __future__ import annotations

import itertools
import random
from typing import Any, Dict, Iterator, List, Optional

from ..framework import Judgement, Property, err_kind
from . import common

L = "antismash/common/secmet/locations.py"


def simple(lo: int, hi: int, s: Any = 1) -> Dict[str, Any]:
    return {"c": False, "parts": [[lo, hi, s]]}


def compound(parts: List[List[Any]]) -> Dict[str, Any]:
    return {"c": True, "parts": parts}


class C04(Property):
    ID = "C04"
    SHAPE = [(L, q) for q in (
        "_reduce_parts_to_location", "_merge_over_origin", "_is_wrapping_shorter",
        "_split_sections_around_origin", "connect_locations", "build_location_from_others",
        "get_distance_between_locations", "location_bridges_origin", "_is_valid_split",
        "split_origin_bridging_location", "locations_overlap", "location_contains_other",
        "location_from_string", "make_forwards", "offset_location", "remove_redundant_exons")] + [
        ("antismash/common/secmet/record.py", "Record.extend_location"),
        ("antismash/common/secmet/record.py", "Record.connect_locations"),
        ("antismash/common/secmet/record.py", "Record.get_distance_between_locations"),
        ("antismash/common/secmet/features/feature.py", "Feature.__lt__"),
        ("antismash/common/secmet/features/cdscollection.py", "CDSCollection.__lt__"),
    ]
    RULE = ("operations {overlap, contains, distance, bridges, split, connect, extend, offset, forwards, redundant, "
            "build, featureLt, collectionLt, string} on simple / multi-exon / origin-spanning locations of both strands; "
            "exhaustive over every record length 1..5 (quick) or 1..7 (thorough/deep): all pairs, all offsets -L..L, all "
            "extension distances 0..L, connect of all pairs and sampled triples; random phase with lengths up to 10^7, gaps "
            "at L/2 and L/2±1, ends equal to L; non-trivial = locations neither identical nor far apart (distance < L/4) or "
            "an origin-spanning operand/result; distinct by canonical input")
    TRUSTED = ["Biopython CompoundLocation.start/end/strand/__len__, `int in SimpleLocation`, str(location)",
               "UnknownPosition and mixed-strand compounds are outside the modelled domain (fuzzy positions <5 / >9 are modelled for the textual form: op fstring); the operator (join/order) is modelled for the textual form only",
               "offset_location called with wrap_point=0 explicitly (conflated with None) is not generated"]

    # ------------------------------------------------------------------ generators
    def all_simple(self, n: int, strands=(1,)) -> List[Dict[str, Any]]:
        return [simple(lo, hi, s) for lo in range(n) for hi in range(lo + 1, n + 1) for s in strands]

    def all_bridging(self, n: int, strands=(1,)) -> List[Dict[str, Any]]:
        out = []
        for x in range(1, n):
            for y in range(1, x + 1):        # [x, n) + [0, y) with y <= x : disjoint
                for s in strands:
                    if s == -1:
                        out.append(compound([[0, y, -1], [x, n, -1]]))
                    else:
                        out.append(compound([[x, n, s], [0, y, s]]))
        return out

    def rand_loc(self, rng: random.Random, n: int, circular: bool, area: bool = False) -> Dict[str, Any]:
        r = rng.random()
        strand = 1 if area else rng.choice([1, 1, -1, -1, 0, None])
        if n < 2:
            return simple(0, n, strand)
        if circular and n >= 3 and r < 0.25:
            x = rng.randrange(1, n)
            y = rng.randrange(1, x + 1)
            if rng.random() < 0.4 and not area:   # several exons on either side of the origin
                def exons(lo: int, hi: int) -> List[List[int]]:
                    k = rng.choice([1, 2, 2, 3])
                    if hi - lo < 2 * k:
                        return [[lo, hi]]
                    cuts = sorted(rng.sample(range(lo + 1, hi), 2 * k - 2)) if k > 1 else []
                    cuts = [lo] + cuts + [hi]
                    return [[cuts[i], cuts[i + 1]] for i in range(0, len(cuts), 2) if cuts[i] < cuts[i + 1]]
                lower, upper = exons(0, y), exons(x, n)
                if strand == -1:
                    return compound([[a, b, -1] for a, b in reversed(lower)] + [[a, b, -1] for a, b in reversed(upper)])
                return compound([[a, b, strand] for a, b in upper] + [[a, b, strand] for a, b in lower])
            if strand == -1:
                return compound([[0, y, -1], [x, n, -1]])
            return compound([[x, n, strand], [0, y, strand]])
        if r < 0.45 and n >= 6 and not area:
            k = rng.choice([2, 2, 3, 4])
            cuts = sorted(rng.sample(range(n + 1), min(2 * k, n + 1) // 2 * 2))
            parts = [[cuts[i], cuts[i + 1], strand] for i in range(0, len(cuts) - 1, 2)]
            if len(parts) >= 2:
                if strand == -1:
                    parts.reverse()
                return compound(parts)
        lo = rng.randrange(0, n)
        hi = rng.randrange(lo + 1, n + 1)
        return simple(lo, hi, strand)

    def boundary_len(self, rng: random.Random) -> int:
        return rng.choice([2, 3, 4, 5, 8, 9, 10, 11, 20, 21, 100, 101, 1000, 999, 10**4, 10**7, 10**7 + 1])

    def cases(self, rng: random.Random, tier: str, deep: bool) -> Iterator[Dict[str, Any]]:
        maxlen = 7 if (tier == "thorough") else (6 if deep else 5)
        total = 0
        for n in range(1, maxlen + 1):
            for case in self.small_scope(n, rng, full=(deep or n <= 4)):
                total += 1
                yield case
        self.exhaustive_done = True
        self.extra_coverage = {"small_scope_cases": total, "small_scope_max_length": maxlen}
        for _ in range(30000 if deep else 4000):
            yield self.random_case(rng)
        # strings, ordering
        for _ in range(2000 if deep else 300):
            n = self.boundary_len(rng)
            yield {"f": "string", "a": self.rand_loc(rng, n, rng.random() < 0.5), "op": rng.choice(["join", "join", "order"])}
        # connect on a ring at the half-record boundary: two short spans whose direct gap is just below, at and just
        # above half the record, for every residue of the record length mod 4 (rounding of the half)
        for _ in range(1500 if deep else 250):
            n = rng.choice([rng.randrange(8, 60), rng.randrange(60, 3000)])
            la, lb = rng.choice([1, 1, 2, 5]), rng.choice([1, 1, 3])
            gap = n // 2 + rng.choice([-2, -1, 0, 1, 2])
            if la + gap + lb > n or gap < 0:
                continue
            shift = rng.randrange(0, n - (la + gap + lb) + 1)
            first = {"c": False, "parts": [[shift, shift + la, rng.choice([1, -1])]]}
            second = {"c": False, "parts": [[shift + la + gap, shift + la + gap + lb, rng.choice([1, -1])]]}
            ls = [first, second] if rng.random() < 0.5 else [second, first]
            yield {"f": "connect", "ls": ls, "wrap": n}
        # textual form with fuzzy positions: every class at a start and at an end (also the unusual way round)
        for _ in range(2000 if deep else 400):
            n = self.boundary_len(rng)
            a = self.rand_loc(rng, n, rng.random() < 0.5)
            fz = [[rng.choice([0, 0, 1, 2]), rng.choice([0, 0, 1, 2])] for _ in a["parts"]]
            yield {"f": "fstring", "a": a, "fz": fz, "op": rng.choice(["join", "join", "order"])}

    def random_case(self, rng: random.Random) -> Dict[str, Any]:
        n = self.boundary_len(rng)
        circular = rng.random() < 0.6
        w = n if circular else 0
        f = rng.choice(["overlap", "contains", "distance", "distance", "connect", "connect", "connect", "extend",
                        "extend", "offset", "offset", "bridges", "split", "forwards", "redundant", "build",
                        "featureLt", "collectionLt"])
        a = self.rand_loc(rng, n, circular, area=f in ("extend",) and rng.random() < 0.5)
        b = self.rand_loc(rng, n, circular)
        if f == "collectionLt":
            return {"f": f, "a": self.rand_loc(rng, n, circular, area=True), "b": self.rand_loc(rng, n, circular, area=True)}
        if f in ("overlap", "contains", "featureLt"):
            return {"f": f, "a": a, "b": b}
        if f == "distance":
            # steer towards the half-record boundary
            if circular and n >= 8 and rng.random() < 0.5:
                half = n // 2
                lo = rng.randrange(0, 2)
                a = simple(lo, lo + 1, 1)
                g = rng.choice([half - 1, half, half + 1])
                b = simple(min(lo + 1 + g, n - 1), min(lo + 2 + g, n), 1)
            # multi-part operands whose nearest parts are closer over the origin than along the line
            if circular and n >= 20 and rng.random() < 0.35:
                j = rng.randrange(0, 3)
                s1 = rng.choice([1, -1])
                pa = [[j, j + 2, s1], [n // 3, n // 3 + 2, s1]]
                pb = [[n // 2, n // 2 + 2, 1], [n - 4 - j, n - 2 - j, 1]]
                if s1 == -1:
                    pa.reverse()
                a, b = compound(pa), compound(pb)
                if rng.random() < 0.5:
                    a, b = b, a
            return {"f": f, "a": a, "b": b, "wrap": w}
        if f == "connect":
            k = rng.choice([1, 2, 2, 3, 3, 4, 6])
            ls = [self.rand_loc(rng, n, circular, area=rng.random() < 0.6) for _ in range(k)]
            if circular and n >= 20 and rng.random() < 0.2:
                # ties in the sort key: locations sharing their start (different ends), and one far beyond
                lo = rng.randrange(0, n // 4)
                e1 = lo + rng.randrange(1, n // 8 + 1)
                e2 = e1 + rng.randrange(1, n // 4 + 1)
                far = min(n - 2, e1 + n // 2 + rng.choice([0, 1, 2, n // 10]))
                ls = [simple(lo, e2, 1), simple(lo, e1, 1), simple(far, min(n, far + rng.randrange(1, 4)), 1)]
                if rng.random() < 0.4:
                    ls.append(self.rand_loc(rng, n, False))
                rng.shuffle(ls)
            case = {"f": f, "ls": ls, "wrap": w}
            if rng.random() < 0.4:
                # through Record.connect_locations: the wrap point is the record length iff the record is circular
                # and wrapping is not disabled
                if w:
                    case["via_record"] = {"max": n, "circ": True, "nowrap": False}
                elif not any(x["c"] for x in ls):
                    case["via_record"] = {"max": n, "circ": rng.random() < 0.5, "nowrap": False}
                    if case["via_record"]["circ"]:
                        case["via_record"]["nowrap"] = True
            return case
        if f == "extend":
            d = rng.choice([0, 1, 2, n // 4, n // 2, n // 2 + 1, n - 1, n, n + 3, rng.randrange(0, n + 1)])
            return {"f": f, "a": a, "d": d, "max": n, "circ": circular}
        if f == "offset":
            k = rng.choice([0, 1, -1, n // 2, -(n // 2), n - 1, 1 - n, n, -n, rng.randrange(-n, n + 1)])
            # target D2: a part end landing exactly on the wrap point
            if circular and rng.random() < 0.3:
                k = n - a["parts"][rng.randrange(len(a["parts"]))][1]
            # D58: runs of abutting exons (each ending where the next starts), also over the origin
            if circular and n >= 8 and rng.random() < 0.15:
                m = rng.choice([3, 3, 4, 5])
                width = rng.randrange(m, n)
                cuts = sorted(rng.sample(range(1, width), m - 1))
                lo0 = rng.randrange(0, n)
                bounds = [lo0] + [lo0 + c for c in cuts] + [lo0 + width]
                parts = []
                for x, y in zip(bounds, bounds[1:]):
                    if x < n < y:
                        parts += [[x, n, 1], [0, y - n, 1]]
                    else:
                        parts.append([x % n if x >= n else x, (y - 1) % n + 1, 1])
                if len(parts) >= 2:
                    a = compound(parts)
            return {"f": f, "a": a, "k": k, "wrap": w}
        if f == "build":
            k = rng.choice([1, 2, 3])
            cuts = sorted(rng.sample(range(n + 1), min(2 * k, n + 1) // 2 * 2)) if n >= 2 * k else [0, n]
            ls = []
            for i in range(0, len(cuts) - 1, 2):
                hi = cuts[i + 1]
                ls.append(simple(cuts[i], hi, 1))
                if rng.random() < 0.4 and i + 2 < len(cuts):
                    cuts[i + 2] = hi       # force adjacency
                    if cuts[i + 2] >= cuts[i + 3]:
                        break
            return {"f": f, "ls": ls or [simple(0, n, 1)]}
        return {"f": f, "a": a}

    def small_scope(self, n: int, rng: random.Random, full: bool) -> Iterator[Dict[str, Any]]:
        sim = self.all_simple(n, strands=(1, -1))
        sim1 = self.all_simple(n)
        br = self.all_bridging(n, strands=(1, -1))
        br1 = self.all_bridging(n)
        locs = sim + br
        locs1 = sim1 + br1

        def pick(seq: List[Any], k: int) -> List[Any]:
            return seq if full or len(seq) <= k else rng.sample(seq, k)
        for a in pick(locs1, 40):
            for b in pick(locs1, 40):
                yield {"f": "overlap", "a": a, "b": b}
                yield {"f": "contains", "a": a, "b": b}
                yield {"f": "distance", "a": a, "b": b, "wrap": n}
                if not a["c"] and not b["c"]:
                    yield {"f": "distance", "a": a, "b": b, "wrap": 0}
                yield {"f": "connect", "ls": [a, b], "wrap": n}
                if not a["c"] and not b["c"]:
                    yield {"f": "connect", "ls": [a, b], "wrap": 0}
                yield {"f": "featureLt", "a": a, "b": b}
                yield {"f": "collectionLt", "a": a, "b": b}
        triples = list(itertools.product(sim1, repeat=3)) if n <= 4 else []
        for a, b, c in pick(triples, 3000):
            yield {"f": "connect", "ls": [a, b, c], "wrap": n}
        for a in locs:
            yield {"f": "bridges", "a": a}
            yield {"f": "split", "a": a}
            yield {"f": "forwards", "a": a}
            yield {"f": "string", "a": a}
            if a["c"]:
                yield {"f": "string", "a": a, "op": "order"}
            if n <= 3:
                for klo in (0, 1, 2):
                    for khi in (0, 1, 2):
                        yield {"f": "fstring", "a": a, "fz": [[klo, khi]] + [[khi, klo]] * (len(a["parts"]) - 1)}
            for k in range(-n, n + 1):
                yield {"f": "offset", "a": a, "k": k, "wrap": n}
            for d in range(0, n + 2):
                yield {"f": "extend", "a": a, "d": d, "max": n, "circ": True}
                if not a["c"]:
                    yield {"f": "extend", "a": a, "d": d, "max": n, "circ": False}
        for a in sim:
            for k in range(-a["parts"][0][0], n + 1 - a["parts"][0][1]):
                yield {"f": "offset", "a": a, "k": k, "wrap": 0}

    # ------------------------------------------------------------------ implementation adapter
    def run_impl(self, case: Dict[str, Any]) -> Dict[str, Any]:
        from antismash.common.secmet import locations as loc
        f = case["f"]
        try:
            if f in ("overlap", "contains", "distance", "featureLt", "collectionLt"):
                a = common.make_location(case["a"])
                b = common.make_location(case["b"])
                if f == "overlap":
                    return {"v": bool(loc.locations_overlap(a, b))}
                if f == "contains":
                    return {"v": bool(loc.location_contains_other(a, b))}
                if f == "distance":
                    return {"v": int(loc.get_distance_between_locations(a, b, case["wrap"] or None))}
                if f == "featureLt":
                    from antismash.common.secmet.features import Feature
                    return {"v": bool(Feature(a, feature_type="misc") < Feature(b, feature_type="misc"))}
                from antismash.common.secmet.features import SubRegion
                return {"v": bool(SubRegion(a, tool="t") < SubRegion(b, tool="t"))}
            if f == "connect":
                ls = [common.make_location(x) for x in case["ls"]]
                if case.get("via_record"):
                    from antismash.common.secmet.test.helpers import DummyRecord
                    vr = case["via_record"]
                    rec = DummyRecord(length=vr["max"], circular=vr["circ"])
                    res = rec.connect_locations(ls, disable_wrapping=True) if vr["nowrap"] else rec.connect_locations(ls)
                else:
                    res = loc.connect_locations(ls, case["wrap"] or None)
                out = {"v": common.location_json(res)}
                # metamorphic part of the property: argument order and applying the operation twice
                try:
                    rev = loc.connect_locations([common.make_location(x) for x in reversed(case["ls"])], case["wrap"] or None)
                    out["rev"] = common.location_json(rev)
                    # further argument orders (all of them for up to three inputs, rotations beyond)
                    idx = list(range(len(case["ls"])))
                    orders = list(itertools.permutations(idx)) if len(idx) <= 3 else [idx[i:] + idx[:i] for i in range(1, len(idx))]
                    out["perms"] = [common.location_json(loc.connect_locations(
                        [common.make_location(case["ls"][i]) for i in order], case["wrap"] or None)) for order in orders]
                    out["twice"] = common.location_json(loc.connect_locations([res], case["wrap"] or None))
                except Exception as exc:  # pylint: disable=broad-except
                    out["meta_err"] = err_kind(exc)
                return out
            if f == "build":
                ls = [common.make_location(x) for x in case["ls"]]
                return {"v": common.location_json(loc.build_location_from_others(ls))}
            a = common.make_location(case["a"])
            if f == "bridges":
                return {"v": bool(loc.location_bridges_origin(a))}
            if f == "split":
                lower, upper = loc.split_origin_bridging_location(a)
                return {"v": [[[int(p.start), int(p.end), common.strand_json(p.strand)] for p in sec]
                              for sec in (lower, upper)]}
            if f == "extend":
                from antismash.common.secmet.test.helpers import DummyRecord
                rec = DummyRecord(length=case["max"], circular=case["circ"])
                return {"v": common.location_json(rec.extend_location(a, case["d"]))}
            if f == "offset":
                return {"v": common.location_json(loc.offset_location(a, case["k"], wrap_point=case["wrap"] or None))}
            if f == "forwards":
                return {"v": common.location_json(loc.make_forwards(a))}
            if f == "redundant":
                return {"v": common.location_json(loc.remove_redundant_exons(a))}
            if f == "string":
                if case.get("op", "join") != "join" and case["a"]["c"]:
                    a = loc.CompoundLocation(list(a.parts), operator=case["op"])
                text = str(a)
                back = loc.location_from_string(text)
                return {"v": text, "back": common.location_json(back), "back_op": getattr(back, "operator", None),
                        "equal": bool(back == a)}
            if f == "fstring":
                from Bio.SeqFeature import AfterPosition, BeforePosition, ExactPosition, FeatureLocation
                classes = [ExactPosition, BeforePosition, AfterPosition]
                parts = [FeatureLocation(classes[k[0]](int(part.start)), classes[k[1]](int(part.end)), part.strand)
                         for part, k in zip(a.parts, case["fz"])]
                fuzzy = loc.CompoundLocation(parts, operator=case.get("op", "join")) if case["a"]["c"] else parts[0]
                text = str(fuzzy)
                back = loc.location_from_string(text)
                kinds = [[classes.index(type(q.start)), classes.index(type(q.end))] for q in back.parts]
                return {"v": text, "back": common.location_json(back), "back_op": getattr(back, "operator", None),
                        "back_kinds": kinds}
        except Exception as exc:  # pylint: disable=broad-except
            return {"err": err_kind(exc), "msg": str(exc)[:200]}
        raise ValueError(f)

    def driver_line(self, case: Dict[str, Any], obs: Dict[str, Any]) -> Optional[Dict[str, Any]]:
        line = dict(case)
        if case["f"] in ("connect", "extend", "offset") and "v" in obs:
            line["impl"] = obs["v"]
        return line

    @staticmethod
    def _same_bases(a: Dict[str, Any], b: Dict[str, Any]) -> bool:
        def bases(loc: Dict[str, Any]) -> List[List[int]]:
            ivs = sorted([p[0], p[1]] for p in loc["parts"] if p[0] < p[1])
            out: List[List[int]] = []
            for lo, hi in ivs:
                if out and lo <= out[-1][1]:
                    out[-1][1] = max(out[-1][1], hi)
                else:
                    out.append([lo, hi])
            return out
        return bases(a) == bases(b)

    @staticmethod
    def _model_value(model: Any) -> Any:
        if isinstance(model, dict) and set(model) == {"ok"}:
            return ("ok", model["ok"])
        if isinstance(model, dict) and set(model) == {"err"}:
            return ("err", model["err"])
        return ("ok", model)

    def judge(self, case: Dict[str, Any], obs: Dict[str, Any], drv: Optional[Dict[str, Any]]) -> Judgement:
        assert drv is not None
        if "err" in drv and "model" not in drv:
            return Judgement(False, True, detail=f"driver error {drv['err']}")
        f = case["f"]
        kind, mval = self._model_value(drv["model"])
        scope = bool(drv.get("scope", True))
        # ---- correspondence
        if "err" in obs:
            impl_err = obs["err"].split(":")[0]
            corr = kind == "err" and (mval == impl_err or (mval == "value-error" and impl_err == "value-error"))
        else:
            corr = kind == "ok" and mval == obs["v"]
            if f == "string":
                corr = corr and drv.get("back") == obs["back"] and drv.get("back_op") == obs["back_op"]
            if f == "fstring":
                corr = (corr and drv.get("back") == obs["back"] and drv.get("back_op") == obs["back_op"]
                        and drv.get("back_kinds") == obs["back_kinds"])
        detail = "" if corr else f"model {drv['model']} vs implementation {obs}"
        # ---- spec on the implementation's output
        spec_ok = True
        known_id: Optional[str] = None
        tags = [f, "in-scope" if scope else "out-of-scope"]
        nontrivial = False
        if scope and "err" not in obs:
            v = obs["v"]
            if f == "overlap":
                spec_ok = v == drv["spec"]
                nontrivial = True
            elif f == "contains":
                spec_ok = v == drv["spec"] and (not v or drv["subset"])
                nontrivial = True
            elif f == "distance":
                spec_ok = v == drv["spec"]
                nontrivial = v > 0
            elif f == "connect":
                oi = drv["on_impl"]
                w = case["wrap"]
                spec_ok = bool(oi["covers"])
                if w == 0:
                    spec_ok = spec_ok and v["parts"] == [[drv["hull"][0], drv["hull"][1], v["parts"][0][2]]] \
                        and not v["c"] and oi["strand"] == drv["common_strand"]
                else:
                    spec_ok = spec_ok and oi["wf"] and oi["len"] <= drv["hull_len"]
                    if 2 * drv["shortest"] < w:
                        spec_ok = spec_ok and oi["len"] == drv["shortest"]
                        tags.append("shortest-applies")
                nontrivial = len(case["ls"]) > 1
                if spec_ok and ("meta_err" in obs or not self._same_bases(obs["rev"], v) or not self._same_bases(obs["twice"], v)
                                or not all(self._same_bases(p, v) for p in obs.get("perms", []))):
                    spec_ok = False
                    detail = f"connect depends on argument order or is not idempotent: {obs}"
            elif f == "extend":
                oi = drv["on_impl"]
                if drv["arc"]:
                    # a span stays a well-formed span: one part, or two disjoint parts meeting at the origin
                    spec_ok = oi["canon"] == drv["expected"] and oi["inside"] and oi["disjoint"] and oi["nparts"] <= 2 and (
                        oi["area_wf"] or any(p[2] == -1 for p in case["a"]["parts"]))
                    tags.append("arc")
                else:   # multi-exon input: outer ends only; introns are not filled (by design)
                    spec_ok = oi["covers_input"] and oi["within_expected"] and oi["inside"]
                    if spec_ok and not oi["covers_expected"]:
                        # recorded defect class: some bases within the distance of the outer ends stay uncovered
                        spec_ok = False
                        known_id = "KF-C04-extend-multi-exon-flanks" if case["circ"] else None
                if all(p[2] == 1 for p in case["a"]["parts"]) and len(case["a"]["parts"]) <= 2:
                    tags.append("area")
                nontrivial = case["d"] > 0
            elif f == "offset":
                oi = drv["on_impl"]
                spec_ok = (oi["canon"] == drv["expected"] and oi["len"] == drv["len"]
                           and oi["strand"] == drv["strand"] and oi["inside"] and oi["disjoint"])
                nontrivial = case["k"] != 0
            elif f == "string":
                spec_ok = (obs["back"] == case["a"] and obs["equal"]
                           and obs["back_op"] == (case.get("op", "join") if case["a"]["c"] else None))
                nontrivial = True
            elif f == "fstring":
                # reads back to the same location: same coordinates and strands, every position of the class it was written with
                spec_ok = (obs["back"] == case["a"] and obs["back_kinds"] == [list(k) for k in case["fz"]]
                           and obs["back_op"] == (case.get("op", "join") if case["a"]["c"] else None))
                nontrivial = any(k != [0, 0] for k in case["fz"])
            else:
                nontrivial = True
            if not spec_ok and not detail:
                detail = f"set-of-bases spec fails: implementation {obs}, spec data { {k: drv[k] for k in drv if k not in ('model', 'id')} }"
            elif not spec_ok:
                detail = "set-of-bases spec fails; " + detail
        elif scope and "err" in obs and f in ("distance", "overlap", "contains", "offset", "extend", "string", "fstring"):
            # these are total on well-formed inputs
            if not (f == "offset" and not case["wrap"]):     # linear offsets may legitimately leave the record
                spec_ok = False
                detail = f"implementation raised {obs['err']} on a well-formed input: {obs.get('msg')}"
        if "err" in obs:
            tags.append("err:" + obs["err"])
        if any(x.get("c") for x in ([case.get("a"), case.get("b")] + case.get("ls", [])) if x):
            tags.append("compound-operand")
        return Judgement(corr, spec_ok, in_scope=scope, known=known_id if (not spec_ok and corr) else None,   # the recorded deviation is what the model (= unchanged code) does
                          nontrivial=nontrivial,
                         tags=tuple(tags), detail=detail)

    def shrink(self, case: Dict[str, Any]) -> Iterator[Dict[str, Any]]:
        if "ls" in case and len(case["ls"]) > 1:
            for i in range(len(case["ls"])):
                yield dict(case, ls=case["ls"][:i] + case["ls"][i + 1:])


PROP = C04
