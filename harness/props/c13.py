"""C13 — HMM hit refinement keeps the best non-overlapping hits, order-independently.

Implementation under test (all called in-process on the tree selected by ASV_REPO):
  hmmscan_refinement.refine_hmmscan_results (both modes; every enumeration of the hit set),
  its stages _remove_overlapping / remove_incomplete / _merge_domain_list / _merge_immediate_neigbours,
  hmmer.remove_overlapping, cluster_prediction.filter_results / filter_result_multiple,
  nrps_pks_domains.domain_identification.filter_nonterminal_docking_domains.

Case kinds (plain JSON): refine | remov | incomplete | merge | hmmer | multiple | equiv | dock.
Hits are [prof, start, end, ev, sc]: prof = index into the sorted profile-name table NAMES (so the
integer order is the string order), e-value = ev * 2**-60, bitscore = sc / 10.
"""
from __future__ import annotations

import itertools
import json
import math
import os
import random
import subprocess
import sys
import tempfile
from typing import Any, Dict, Iterator, List, Optional, Tuple

from ..framework import Failure, Judgement, Property, VERIF, err_kind

# sorted by code point; indices 2 and 4 contain "regulator"
NAMES = ["Aaa", "Bbb", "Cc_regulator", "Ddd", "Ee_regulatory", "Fff"]
REG = ["regulator" in n for n in NAMES]
assert NAMES == sorted(NAMES)
# docking kind: real docking names mixed with others (sorted)
DOCK_NAMES = sorted(["NRPS-COM_Nterm", "NRPS-COM_Cterm", "PKS_Docking_Cterm", "PKS_Docking_Nterm",
                     "PKS_KS", "Condensation", "NRPS-COM_Nterm2", "PKS_Docking"])
HM_IDS = ["PF00001", "PF00002", "PF00003", "PF00004"]
# sub-type profiles for find_subtypes; the callback _strip_trailing_numbers turns ST_2 / ST_3 into ST
SUB_NAMES = sorted(["Enediyne-KS", "Iterative-KS", "Modular-KS", "ST", "ST_2", "ST_3", "Trans-AT-KS", "hyb_KS"])


def _strip_name(name: str) -> str:
    parts = name.rsplit("_", 1)
    return parts[0] if len(parts) == 2 and parts[1].isdigit() else name


SUB_STRIP = [SUB_NAMES.index(_strip_name(n)) for n in SUB_NAMES]

KF_OVERLAP = "KF-C13-greedy-overlap"
KF_ORPHAN = "KF-C13-greedy-orphan"


def hit_obj(h: List[int], names: List[str] = NAMES) -> Any:
    from antismash.common.hmmscan_refinement import HMMResult
    return HMMResult(names[h[0]], h[1], h[2], math.ldexp(h[3], -60), h[4] / 10)


def hit_json(r: Any, names: List[str] = NAMES) -> List[int]:
    ev = r.evalue * 2.0 ** 60
    sc = r.bitscore * 10
    assert ev == int(ev) and abs(sc - round(sc)) < 1e-6, (r.evalue, r.bitscore)
    return [names.index(r.hit_id), int(r.query_start), int(r.query_end), int(ev), int(round(sc))]


class _HSP:
    """what gather_by_query reads from a Bio HSP"""
    def __init__(self, query_id: str, h: List[int]) -> None:
        self.query_id = query_id
        self.hit_id = NAMES[h[0]]
        self.query_start = h[1]
        self.query_end = h[2]
        self.evalue = math.ldexp(h[3], -60)
        self.bitscore = h[4] / 10


class _QueryResult:
    def __init__(self, hsps: List[_HSP]) -> None:
        self.hsps = hsps


class _CPHit:
    """HSP as cluster_prediction uses it; identity equality like Bio's HSP"""
    def __init__(self, cds: str, f: List[int]) -> None:
        self.uid = f[0]
        self.query_id = NAMES[f[1]]
        self.hit_id = cds
        self.hit_start = f[2]
        self.hit_end = f[3]
        self.bitscore = f[4] / 10
        self.evalue = 1e-10

    def __repr__(self) -> str:
        return f"CPHit({self.uid})"


class _Translation:
    def __init__(self, n: int) -> None:
        self.translation = "M" * n


class _RecordStub:
    """`filter_nonterminal_docking_domains` only asks the record for name -> feature.translation"""
    def __init__(self, lengths: Dict[str, int]) -> None:
        self._m = {k: _Translation(v) for k, v in lengths.items()}

    def get_cds_name_mapping(self) -> Dict[str, Any]:
        return self._m


class C13(Property):
    ID = "C13"
    USES_TABLES = True
    SHAPE = [("antismash/common/hmmscan_refinement.py", q) for q in (
        "HMMResult.__init__", "HMMResult.__len__", "HMMResult.merge", "HMMResult.__eq__", "HMMResult.__hash__",
        "_remove_overlapping", "remove_incomplete", "_merge_domain_list", "_merge_immediate_neigbours",
        "gather_by_query", "refine_hmmscan_results")] + [
        ("antismash/common/hmmer.py", "HmmerHit"),
        ("antismash/common/hmmer.py", "remove_overlapping"),
        ("antismash/common/hmm_rule_parser/cluster_prediction.py", "hsp_overlap_size"),
        ("antismash/common/hmm_rule_parser/cluster_prediction.py", "filter_results"),
        ("antismash/common/hmm_rule_parser/cluster_prediction.py", "filter_result_multiple"),
        ("antismash/detection/nrps_pks_domains/domain_identification.py", "filter_nonterminal_docking_domains"),
        ("antismash/detection/nrps_pks_domains/domain_identification.py", "find_domains"),
        ("antismash/detection/nrps_pks_domains/domain_identification.py", "find_ab_motifs"),
        ("antismash/detection/nrps_pks_domains/domain_identification.py", "find_subtypes"),
        ("antismash/detection/nrps_pks_domains/domain_identification.py", "_strip_trailing_numbers"),
        ("antismash/common/hmmscan_refinement.py", "HMMResult.overlaps_with"),
        ("antismash/common/hmmscan_refinement.py", "HMMResult.add_internal_hits"),
        ("antismash/common/hmm_rule_parser/cluster_prediction.py", "find_hmmer_hits"),
        ("antismash/common/hmmer.py", "build_hits"),
        ("antismash/common/hmmer.py", "run_hmmer"),
    ]
    RULE = ("hit multisets on one protein: 1-7 hits over 1-4 profiles with hmm lengths from {5,6,9,10,15,20,30,100} "
            "(multiples of 5/2/3 so the 0.2/0.5/1.5/(1/3) thresholds are hit exactly), intervals on a small grid or "
            "placed at threshold-1/threshold/threshold+1 relative to an earlier hit (equal starts, nested, chained), "
            "scores from a 4-value set (ties), e-values from a 4-value set; refine: both modes, every permutation of "
            "the enumeration (<= 4 hits) or 12 shuffles; the stage functions on position-sorted lists (ties in random "
            "order) and a share of unsorted/empty ones; hmmer.remove_overlapping with limits {0,1,5,10,20}, scores and "
            "cut-offs in quarter units, shuffles; cluster_prediction filters with identity-compared HSPs, 0-2 "
            "equivalence groups; docking filter around the 50-residue bounds.  thorough/deep adds the exhaustive small "
            "scope (protein length 12, profiles {A,B} of hmm lengths {5,10}, scores {1,2}, e-value fixed, both modes: every "
            "pair of hits over all intervals of 7 lengths, every triple over the even-start intervals of 4 lengths, 20000 "
            "sampled quadruples).  non-trivial = the function dropped or merged at least one hit")
    TRUSTED = [
        "Python floats: bitscores are generated as decimal tenths, e-values as k*2^-60, hmmer scores/cut-offs as "
        "quarter units; the thresholds 0.20*M, 0.5*M, 1.5*M, len/M > 1/3, len1/M1 > len2/M2, cutoff/score are modelled "
        "by exact cross-multiplication (hmm lengths, scores and cut-offs positive)",
        "profile names enter the model as their rank in the sorted name table (string order = integer order); "
        "'regulator' substring and docking-domain membership as per-profile flags (the docking set is regenerated "
        "from the source on every run)",
        "set enumeration order of gather_by_query's result is simulated by handing refine_hmmscan_results an explicit "
        "enumeration (gather_by_query patched to return the list) in addition to the unpatched call",
        "hmmer: hits equal in (identifier, start, end, score) are generated equal in every other field (the code's "
        "own docstring treats them as the same hit)",
        "filter_results: HSPs are distinct objects (identity equality), modelled by a unique uid per hit; the "
        "executable closure/position functions linkedB/prefersB run by the driver are unverified twins of the "
        "Props Linked/Prefers the theorems use",
        "Python sorted() is a stable sort; dict/defaultdict keep insertion order",
    ]

    # ------------------------------------------------------------------ generators
    LENS = [5, 6, 9, 10, 15, 20, 30, 100]
    SCORES = [10, 20, 25, 30]
    EVS = [1, 2, 3, 5]

    def rand_lens(self, rng: random.Random) -> List[int]:
        if rng.random() < 0.3:
            v = rng.choice(self.LENS)
            return [v] * len(NAMES)
        return [rng.choice(self.LENS) for _ in NAMES]

    def rand_hits(self, rng: random.Random, lens: List[int], nmax: int = 7) -> List[List[int]]:
        nprof = rng.choice([1, 2, 2, 3, 4])
        profs = rng.sample(range(len(NAMES)), nprof)
        n = rng.choice([1, 2, 2, 3, 3, 4, 4, 5, 6, 7][:max(1, min(10, nmax + 3))])
        n = min(n, nmax)
        scale = rng.choice([1, 1, 2, 5])
        hits: List[List[int]] = []
        for _ in range(n):
            p = rng.choice(profs)
            length = lens[p]
            r = rng.random()
            if hits and r < 0.45:
                # relative to an earlier hit: start at its end minus the margin (+-1), or same start, or nested
                o = rng.choice(hits)
                m = max(lens[o[0]], length)
                mode = rng.random()
                if mode < 0.5:
                    start = o[2] - (m // 5) + rng.choice([-1, 0, 0, 1])
                elif mode < 0.7:
                    start = o[1]
                elif mode < 0.85:
                    start = o[1] + rng.choice([1, 2])
                else:
                    start = o[2] + rng.choice([0, 1, 3])
                start = max(0, start)
            else:
                start = rng.randrange(0, 14) * scale
            r = rng.random()
            if r < 0.35:
                ln = rng.choice([length // 2 - 1, length // 2, length // 2 + 1, length // 3, length // 3 + 1,
                                 (length + 1) // 2, length])
            elif r < 0.5 and hits:
                # end at the 1.5 x span threshold relative to an earlier start
                o = rng.choice(hits)
                ln = o[1] + (3 * length) // 2 + rng.choice([-1, 0, 1]) - start
            else:
                ln = rng.randrange(1, 12) * scale
            ln = max(1, ln)
            hits.append([p, start, start + ln, rng.choice(self.EVS), rng.choice(self.SCORES)])
        return hits

    @staticmethod
    def by_start(rng: random.Random, hits: List[List[int]]) -> List[List[int]]:
        hits = list(hits)
        rng.shuffle(hits)
        return sorted(hits, key=lambda h: h[1])

    def cases(self, rng: random.Random, tier: str, deep: bool) -> Iterator[Dict[str, Any]]:
        mult = 10 if deep else 1
        for _ in range(6000 * mult):
            lens = self.rand_lens(rng)
            hits = self.rand_hits(rng, lens)
            if rng.random() < 0.1:
                pa, pb = rng.sample(range(len(NAMES)), 2)
                hits = self.split_fragment(rng, lens, pa, pb, rng.choice([0, 7])) + hits[:2]
            yield {"kind": "refine", "lens": lens, "nb": rng.random() < 0.5, "hits": hits,
                   "pseed": rng.randrange(1 << 30)}
        for _ in range(3000 * mult):
            lens = self.rand_lens(rng)
            hits = self.rand_hits(rng, lens)
            r = rng.random()
            if r < 0.85:
                hits = self.by_start(rng, hits)
            elif r < 0.88:
                hits = []
            yield {"kind": "remov", "lens": lens, "hits": hits}
        for _ in range(2500 * mult):
            lens = self.rand_lens(rng)
            hits = self.rand_hits(rng, lens, nmax=5)
            if rng.random() < 0.05:
                hits = []
            yield {"kind": "incomplete", "lens": lens, "hits": hits}
        for _ in range(1500 * mult):
            lens = self.rand_lens(rng)
            hits = self.rand_hits(rng, lens)
            r = rng.random()
            if r < 0.85:
                hits = self.by_start(rng, hits)
            elif r < 0.88:
                hits = []
            yield {"kind": "merge", "lens": lens, "nb": rng.random() < 0.5, "hits": hits}
        for _ in range(5000 * mult):
            yield self.rand_hmmer(rng)
        for _ in range(1500 * mult):
            yield self.rand_multiple(rng)
        for _ in range(3000 * mult):
            yield self.rand_equiv(rng)
        for _ in range(500 * mult):
            yield self.rand_dock(rng)
        for _ in range(1200 * mult):
            yield self.rand_cp(rng)
        for _ in range(800 * mult):
            yield self.rand_refinerec(rng)
        for _ in range(1000 * mult):
            yield self.rand_runhmmer(rng)
        for _ in range(800 * mult):
            yield self.rand_domains(rng)
        for _ in range(800 * mult):
            yield self.rand_subtypes(rng)
        if deep:
            yield from self.small_scope(rng, full=(tier == "thorough"))

    def rand_hmmer(self, rng: random.Random) -> Dict[str, Any]:
        limit = rng.choice([0, 1, 5, 10, 10, 20])
        n = rng.choice([0, 1, 2, 2, 3, 3, 4, 5, 6, 8]) if rng.random() < 0.97 else 0
        cut: List[Optional[int]] = [rng.choice([4, 8, 10, 20, 40]) for _ in HM_IDS]
        r = rng.random()
        if r < 0.03:
            cut[rng.randrange(len(cut))] = None
        scale = rng.choice([1, 1, 3])
        hits: List[List[int]] = []
        for _ in range(n):
            ident = rng.randrange(len(HM_IDS))
            if hits and rng.random() < 0.5:
                o = rng.choice(hits)
                mode = rng.random()
                if mode < 0.5:
                    start = o[2] - limit + rng.choice([-1, 0, 1])
                elif mode < 0.75:
                    start = o[1]
                else:
                    start = o[1] + rng.choice([1, 2, limit])
                start = max(0, start)
            else:
                start = rng.randrange(0, 15) * scale
            ln = rng.choice([1, 2, limit - 1, limit, limit + 1, 2 * limit, rng.randrange(1, 14) * scale])
            ln = max(1, ln)
            c = cut[ident] or 8
            sc = rng.choice([c, 2 * c, c + 4, 12, 20, 40, 80])
            if rng.random() < 0.01:
                sc = 0
            hits.append([ident, start, start + ln, sc])
        if hits and rng.random() < 0.15:
            hits.append(list(rng.choice(hits)))
        return {"kind": "hmmer", "cut": cut, "limit": limit, "hits": hits, "pseed": rng.randrange(1 << 30)}

    def rand_fhits(self, rng: random.Random, n: int, uid0: int = 0, distinct: bool = False) -> List[List[int]]:
        hits = []
        nprof = rng.choice([1, 2, 3, 4])
        profs = rng.sample(range(len(NAMES)), nprof)
        scores = [-20, -10, -5, 0, 100, 150, 200, 250, 300, 350, 400, 450]
        if distinct:
            pool = rng.sample([100, 150, 200, 250, 300, 350, 400, 450, 500, 550], n)
        for i in range(n):
            if hits and rng.random() < 0.6:
                o = rng.choice(hits)
                start = max(0, o[3] - 20 + rng.choice([-30, -1, 0, 1, 5]))
            else:
                start = rng.randrange(0, 12) * 10
            ln = rng.choice([10, 20, 21, 22, 30, 45, 60, 100])
            sc = pool[i] if distinct else rng.choice(scores)
            hits.append([uid0 + i, rng.choice(profs), start, start + ln, sc])
        return hits

    def rand_multiple(self, rng: random.Random) -> Dict[str, Any]:
        genes = []
        uid = 0
        for _ in range(rng.choice([1, 2, 3])):
            n = rng.choice([1, 2, 3, 4, 5, 6])
            genes.append(self.rand_fhits(rng, n, uid))
            uid += n
        return {"kind": "multiple", "genes": genes}

    def rand_equiv(self, rng: random.Random) -> Dict[str, Any]:
        n = rng.choice([1, 2, 3, 3, 4, 4, 5, 6])
        hits = self.rand_fhits(rng, n, 0, distinct=rng.random() < 0.8)
        eq = []
        for _ in range(rng.choice([0, 1, 1, 1, 2])):
            eq.append(sorted(rng.sample(range(len(NAMES)), rng.choice([2, 3, 4]))))
        case = {"kind": "equiv", "eq": eq, "hits": hits}
        if rng.random() < 0.4:
            # further genes of the record: each gene competes on its own hits only
            others, uid = [], 100
            for _ in range(rng.choice([1, 2, 3])):
                k = rng.choice([1, 2, 2, 3, 4])
                g = self.rand_fhits(rng, k, uid, distinct=True)
                if eq and rng.random() < 0.6:       # profiles of one equivalence group spread over the other genes
                    for f, prof in zip(g, rng.sample(eq[0], min(len(eq[0]), len(g)))):
                        f[1] = prof
                others.append(g)
                uid += 100
            case["others"] = others
        return case

    def rand_dock(self, rng: random.Random) -> Dict[str, Any]:
        length = rng.choice([40, 60, 99, 100, 101, 150, 300])
        hits = []
        for _ in range(rng.choice([1, 2, 3, 5])):
            p = rng.randrange(len(DOCK_NAMES))
            start = rng.choice([0, 10, 48, 49, 50, 51, max(0, length - 70), max(0, length - 60)])
            end = rng.choice([start + 1, start + 10, length - 51, length - 50, length - 49, length])
            if end <= start:
                end = start + 1
            hits.append([p, start, end, 1, 10])
        return {"kind": "dock", "L": length, "hits": hits}

    # callers ------------------------------------------------------------------------------------
    def rand_cp(self, rng: random.Random) -> Dict[str, Any]:
        """raw hmmsearch HSPs of a record: [gene, uid, prof, start, end, sc] in hmmsearch order"""
        cut = [rng.choice([0, 100, 150, 200, 300]) for _ in NAMES]
        ngenes = rng.choice([1, 2, 3])
        raw: List[List[int]] = []
        uid = 0
        for g in range(ngenes):
            n = rng.choice([1, 2, 3, 4, 5, 6])
            for f in self.rand_fhits(rng, n, 0, distinct=rng.random() < 0.6):
                sc = f[4]
                if rng.random() < 0.3:
                    sc = cut[f[1]] + rng.choice([-1, 0, 1])     # around the signature's cut-off
                raw.append([g, uid, f[1], f[2], f[3], sc])
                uid += 1
        eq = []
        for _ in range(rng.choice([0, 1, 1, 2])):
            eq.append(sorted(rng.sample(range(len(NAMES)), rng.choice([2, 3, 4]))))
        if rng.random() < 0.35:
            # a multi-domain gene: profile P twice, its better copy overlapped by a still better hit of an
            # equivalent profile Q, its weaker copy elsewhere (uncontested, or contested by a weaker hit)
            p, q = rng.sample(range(len(NAMES)), 2)
            if not eq:
                eq.append(sorted({p, q}))
            elif rng.random() < 0.8:
                eq[0] = sorted(set(eq[0]) | {p, q})
            g = rng.randrange(ngenes)
            base = rng.choice([0, 300, 600])
            top = max(cut[p], cut[q]) + rng.choice([50, 100])
            raw.append([g, uid, p, base, base + 100, top + 20]); uid += 1
            raw.append([g, uid, q, base + rng.choice([10, 50, 79, 80]), base + 160, top + rng.choice([10, 20, 30])]); uid += 1
            far = base + rng.choice([200, 400])
            raw.append([g, uid, p, far, far + 100, top + rng.choice([0, 10, 20])]); uid += 1
            if rng.random() < 0.4:
                raw.append([g, uid, rng.choice([q, rng.randrange(len(NAMES))]), far + 30, far + 130,
                            top + rng.choice([-10, 0, 5, 40])]); uid += 1
        rng.shuffle(raw)
        return {"kind": "cp", "cut": cut, "eq": eq, "raw": raw, "ngenes": ngenes, "pseed": rng.randrange(1 << 30)}

    def rand_refinerec(self, rng: random.Random) -> Dict[str, Any]:
        """a whole hmmscan output: HSPs [gene, hit] of several genes, interleaved"""
        lens = self.rand_lens(rng)
        ngenes = rng.choice([1, 2, 3, 4])
        raw = []
        for g in range(ngenes):
            if rng.random() < 0.15:
                continue                                   # a gene without any hit
            hits = self.rand_hits(rng, lens, nmax=5) if rng.random() < 0.7 else self.rand_tie_rich(rng)["hits"]
            if rng.random() < 0.2:                         # only fragments that the incomplete rule removes
                hits = [[h[0], h[1], h[1] + 1, h[3], h[4]] for h in hits[:2]]
            raw.extend([g, h] for h in hits)
        rng.shuffle(raw)
        return {"kind": "refinerec", "lens": lens, "nb": rng.random() < 0.5, "raw": raw, "ngenes": ngenes,
                "pseed": rng.randrange(1 << 30)}

    def rand_runhmmer(self, rng: random.Random) -> Dict[str, Any]:
        """raw hmmscan HSPs: [gene, ident, start, end, sc (quarters), ev] + the score / e-value cuts"""
        base = self.rand_hmmer(rng)
        cut = [c or 8 for c in base["cut"]]
        min_score = rng.choice([0, 8, 12, 20])
        max_ev = rng.choice([2, 3, 5])
        raw = []
        for g in range(rng.choice([1, 2, 3])):
            hits = self.rand_hmmer(rng)["hits"]
            for h in hits:
                sc = h[3] if h[3] > 0 else 8
                if rng.random() < 0.3:
                    sc = max(1, min_score + rng.choice([-1, 0, 1]))
                # the e-value is a function of the modelled fields (equal hits are equal objects)
                raw.append([g, h[0], h[1], h[2], sc, [1, 2, 3, 5][(h[0] + h[1] + 3 * h[2] + sc) % 4]])
        rng.shuffle(raw)
        return {"kind": "runhmmer", "cut": cut, "min": min_score, "maxev": max_ev, "raw": raw,
                "filter": rng.random() < 0.8, "pseed": rng.randrange(1 << 30)}

    @staticmethod
    def split_fragment(rng: random.Random, lens: List[int], pa: int, pb: int, base: int) -> List[List[int]]:
        """profile A complete at `base`, a better hit of profile B after it, a weak fragment of A underneath B,
        all within 1.5 profile lengths of A's start (what separates neighbour mode from the generic mode)"""
        la, lb = lens[pa], lens[pb]
        a_len = rng.choice([la // 2 + 1, (2 * la) // 3 + 1])
        a1 = [pa, base, base + a_len, rng.choice([1, 2]), 30]
        b_start = a1[2] + rng.choice([0, 1, la // 10])
        b_len = max(lb // 2 + 1, min(lb, la // 2))
        b1 = [pb, b_start, b_start + b_len, 1, rng.choice([30, 40, 50])]
        f_len = max(1, min(la // 5, b_len - 2))
        f_start = b_start + rng.choice([1, 2, max(1, (b_len - f_len) // 2)])
        a2 = [pa, f_start, min(f_start + f_len, base + (3 * la) // 2 - 1), rng.choice([2, 3]), rng.choice([10, 20])]
        if a2[2] <= a2[1]:
            a2[2] = a2[1] + 1
        return [a1, b1, a2]

    def rand_domains(self, rng: random.Random) -> Dict[str, Any]:
        lens = [rng.choice(self.LENS) for _ in DOCK_NAMES]
        genes, lengths = [], []
        for _ in range(rng.choice([1, 2, 3])):
            hits = [h[:] for h in self.rand_hits(rng, lens + [10] * 8, nmax=6)]
            for h in hits:
                h[0] = h[0] % len(DOCK_NAMES) if rng.random() < 0.5 else rng.randrange(len(DOCK_NAMES))
            top = max(h[2] for h in hits)
            lengths.append(top + rng.choice([0, 1, 30, 49, 50, 51, 80]))
            if rng.random() < 0.5:      # push a hit to the 50-residue bounds
                h = rng.choice(hits)
                ln = h[2] - h[1]
                h[1] = rng.choice([48, 49, 50, 51])
                h[2] = h[1] + ln
                lengths[-1] = max(lengths[-1], h[2] + rng.choice([49, 50, 51]))
            if rng.random() < 0.3:
                pa, pb = rng.sample(range(len(DOCK_NAMES)), 2)
                extra = self.split_fragment(rng, lens, pa, pb, rng.choice([0, 60]))
                hits = extra + [h for h in hits if rng.random() < 0.3]
                lengths[-1] = max(lengths[-1], max(h[2] for h in hits) + 1)
            genes.append(hits)
        return {"kind": "domains", "lens": lens, "genes": genes, "L": lengths, "pseed": rng.randrange(1 << 30)}

    def rand_subtypes(self, rng: random.Random) -> Dict[str, Any]:
        target = DOCK_NAMES.index("PKS_KS")
        lens = [rng.choice([10, 20, 30, 100]) for _ in SUB_NAMES]
        existing, genes = [], []
        for _ in range(rng.choice([1, 2, 3])):
            doms = []
            pos = rng.choice([0, 5, 20])
            for _ in range(rng.choice([0, 1, 2, 3])):
                ln = rng.choice([20, 40, 60])
                doms.append([target if rng.random() < 0.7 else rng.randrange(len(DOCK_NAMES)), pos, pos + ln, 1, 300])
                pos += ln + rng.choice([-5, 0, 10, 40])
            raw = []
            for _ in range(rng.choice([0, 1, 2, 3, 4])):
                p = rng.randrange(len(SUB_NAMES))
                if doms and rng.random() < 0.8:
                    d = rng.choice(doms)
                    start = max(0, rng.choice([d[1] - 10, d[1], d[1] + 5, d[2] - 1, d[2], d[2] + 1]))
                else:
                    start = rng.randrange(0, 200)
                ln = rng.choice([1, lens[p] // 2 + 1, lens[p], 2 * lens[p]])
                raw.append([p, start, start + max(1, ln), rng.choice(self.EVS), rng.choice(self.SCORES)])
            if rng.random() < 0.35:
                pa, pb = rng.sample(range(len(SUB_NAMES)), 2)
                base = doms[0][1] if doms else 0
                frag = self.split_fragment(rng, lens, pa, pb, base)
                raw = frag + [h for h in raw if rng.random() < 0.3]
                if not doms or rng.random() < 0.7:
                    doms = [[target, base, max(h[2] for h in frag) + 5, 1, 300]] + doms[1:]
            existing.append(doms)
            genes.append(raw)
        return {"kind": "subtypes", "lens": lens, "target": target, "callback": rng.random() < 0.6,
                "existing": existing, "genes": genes, "pseed": rng.randrange(1 << 30)}

    # hash-seed matrix ---------------------------------------------------------------------------
    HASH_SEEDS = ["0", "1", "2", "3"]

    def rand_tie_rich(self, rng: random.Random) -> Dict[str, Any]:
        """equal starts across profiles, equal scores, at least one profile with several fragments"""
        length = rng.choice([10, 20, 30])
        lens = [length] * len(NAMES) if rng.random() < 0.6 else [rng.choice([10, 20, 30]) for _ in NAMES]
        profs = rng.sample(range(len(NAMES)), rng.choice([2, 3, 4]))
        starts = [rng.choice([0, 5, 40]) for _ in range(2)]
        hits = []
        for p in profs:
            for _ in range(rng.choice([1, 1, 2, 3])):
                start = rng.choice(starts + [starts[0] + lens[p] // 2, starts[0] + lens[p]])
                ln = rng.choice([lens[p] // 2 + 1, lens[p], lens[p] - 1])
                hits.append([p, start, start + max(1, ln), rng.choice([1, 1, 2]), rng.choice([20, 20, 30])])
        return {"kind": "hashseed", "lens": lens, "nb": rng.random() < 0.3, "hits": hits}

    def run_children(self, cases: List[Dict[str, Any]], seeds: List[str]) -> List[List[Any]]:
        """every case in one interpreter per hash seed; result[k][i] = output of case i under seeds[k]"""
        with tempfile.NamedTemporaryFile("w", suffix=".jsonl", delete=False) as handle:
            for case in cases:
                handle.write(json.dumps(case) + "\n")
            path = handle.name
        procs = []
        try:
            for seed in seeds:
                env = dict(os.environ, PYTHONHASHSEED=seed)
                procs.append(subprocess.Popen([sys.executable, "-m", "harness.props.c13_child", path], cwd=str(VERIF),
                                              env=env, stdout=subprocess.PIPE, stderr=subprocess.PIPE, text=True))
            outs = []
            for proc in procs:
                out, err = proc.communicate(timeout=600)
                lines = [json.loads(line) for line in out.splitlines() if line.strip()]
                if proc.returncode != 0 or len(lines) != len(cases):
                    from ..framework import Infra
                    raise Infra(f"hash-seed child failed: {err[-300:]}")
                outs.append(lines)
            return outs
        finally:
            os.unlink(path)

    def extra_checks(self, rng: random.Random, tier: str, deep: bool) -> List[Failure]:
        """the real entry points in fresh interpreters with different PYTHONHASHSEED: identical results required"""
        n = 2500 if deep else 400
        cases: List[Dict[str, Any]] = [self.rand_tie_rich(rng) for _ in range(n)]
        for _ in range(n // 4):
            lens = self.rand_lens(rng)
            cases.append({"kind": "hashseed", "lens": lens, "nb": rng.random() < 0.5, "hits": self.rand_hits(rng, lens)})
        for _ in range(n // 4):
            c = self.rand_tie_rich(rng)
            cases.append(dict(c, kind="mergedl"))
        for _ in range(n // 4):
            c = self.rand_hmmer(rng)
            if c["hits"]:
                cases.append(c)
        seeds = self.HASH_SEEDS + (["4", "5", "6", "7"] if deep else [])
        outs = self.run_children(cases, seeds)
        self.extra_evaluations = len(cases) * len(seeds)
        self.extra_coverage = dict(getattr(self, "extra_coverage", None) or {},
                                   hash_seed_cases=len(cases), hash_seeds=seeds)
        failures: List[Failure] = []
        for i, case in enumerate(cases):
            results = [o[i] for o in outs]
            if any(r != results[0] for r in results[1:]):
                k = next(j for j, r in enumerate(results) if r != results[0])
                failures.append(Failure("spec", case, {"outs": {seeds[0]: results[0], seeds[k]: results[k]}}, None,
                                        f"result depends on the hash seed: PYTHONHASHSEED={seeds[0]} gives {results[0]}, "
                                        f"PYTHONHASHSEED={seeds[k]} gives {results[k]}"))
                if len(failures) >= 3:
                    break
        return failures

    def impl_hashseed(self, case: Dict[str, Any]) -> Dict[str, Any]:
        seeds = self.HASH_SEEDS + ["4", "5"]
        outs = self.run_children([case], seeds)
        return {"outs": {s: o[0] for s, o in zip(seeds, outs)}}

    impl_mergedl = impl_hashseed

    # exhaustive family -----------------------------------------------------------------------
    def small_scope(self, rng: random.Random, full: bool) -> Iterator[Dict[str, Any]]:
        plen = 12
        lens = [5, 10] + [10] * (len(NAMES) - 2)
        intervals = [(s, e) for s in range(0, plen) for e in range(s + 1, plen + 1) if (e - s) in (1, 2, 3, 5, 6, 8, 11)]
        singles = [[p, s, e, 1, sc] for p in (0, 1) for (s, e) in intervals for sc in (10, 20)]
        total = 0
        # every pair; every triple over a thinned interval set; sampled quadruples
        for a, b in itertools.combinations_with_replacement(singles, 2):
            if not full and rng.random() > 0.15:
                continue
            for nb in (False, True):
                total += 1
                yield {"kind": "refine", "lens": lens, "nb": nb, "hits": [a, b], "pseed": 1}
        thin = [h for h in singles if (h[1] % 2 == 0 and h[2] - h[1] in (2, 3, 6, 8))]
        for trio in itertools.combinations(thin, 3):
            if not full and rng.random() > 0.01:
                continue
            for nb in (False, True):
                total += 1
                yield {"kind": "refine", "lens": lens, "nb": nb, "hits": [list(h) for h in trio], "pseed": 1}
        for _ in range(20000 if full else 2000):
            quad = [list(rng.choice(singles)) for _ in range(4)]
            total += 1
            yield {"kind": "refine", "lens": lens, "nb": rng.random() < 0.5, "hits": quad, "pseed": rng.randrange(1 << 30)}
        self.exhaustive_done = full
        self.extra_coverage = {"small_scope_cases": total, "small_scope_pairs_exhaustive": full}

    # ------------------------------------------------------------------ implementation adapter
    def run_impl(self, case: Dict[str, Any]) -> Dict[str, Any]:
        kind = case["kind"]
        try:
            return getattr(self, "impl_" + kind)(case)
        except Exception as exc:  # pylint: disable=broad-except
            return {"err": err_kind(exc), "msg": str(exc)[:200]}

    @staticmethod
    def _lens(case: Dict[str, Any]) -> Dict[str, int]:
        return dict(zip(NAMES, case["lens"]))

    def impl_refine(self, case: Dict[str, Any]) -> Dict[str, Any]:
        from antismash.common import hmmscan_refinement as ref
        lens = self._lens(case)
        hits = case["hits"]
        # 1. the unpatched entry point (real gather_by_query builds the set)
        res = ref.refine_hmmscan_results([_QueryResult([_HSP("cds", h)]) for h in hits], lens, neighbour_mode=case["nb"])
        base = [hit_json(r) for r in res.get("cds", [])]
        assert set(res) <= {"cds"}
        # 2. explicit enumerations of the set
        uniq = [list(t) for t in dict.fromkeys(tuple(h) for h in hits)]
        if not uniq:
            orders = []    # no hit, no entry for the gene: nothing to enumerate
        elif len(uniq) <= 4:
            orders = [list(p) for p in itertools.permutations(uniq)]
        else:
            prng = random.Random(case.get("pseed", 0))
            orders = [uniq, uniq[::-1]]
            for _ in range(10):
                o = list(uniq)
                prng.shuffle(o)
                orders.append(o)
        bad = None
        real_gather = ref.gather_by_query
        try:
            for order in orders:
                ref.gather_by_query = lambda _r, order=order: {"cds": [hit_obj(h) for h in order]}
                out = ref.refine_hmmscan_results([], lens, neighbour_mode=case["nb"])
                got = [hit_json(r) for r in out.get("cds", [])]
                if got != base:
                    bad = {"order": order, "out": got}
                    break
        finally:
            ref.gather_by_query = real_gather
        return {"out": base, "perms": len(orders), "perm_bad": bad}

    def impl_remov(self, case: Dict[str, Any]) -> Dict[str, Any]:
        from antismash.common import hmmscan_refinement as ref
        try:
            out = ref._remove_overlapping([hit_obj(h) for h in case["hits"]], self._lens(case))
        except IndexError:
            return {"out": None}
        return {"out": [hit_json(r) for r in out]}

    def impl_incomplete(self, case: Dict[str, Any]) -> Dict[str, Any]:
        from antismash.common import hmmscan_refinement as ref
        out = ref.remove_incomplete([hit_obj(h) for h in case["hits"]], self._lens(case))
        return {"out": [hit_json(r) for r in out]}

    def impl_merge(self, case: Dict[str, Any]) -> Dict[str, Any]:
        from antismash.common import hmmscan_refinement as ref
        fn = ref._merge_immediate_neigbours if case["nb"] else ref._merge_domain_list
        try:
            out = fn([hit_obj(h) for h in case["hits"]], self._lens(case))
        except IndexError:
            return {"out": None}
        return {"out": [hit_json(r) for r in out]}

    def impl_dock(self, case: Dict[str, Any]) -> Dict[str, Any]:
        from antismash.detection.nrps_pks_domains import domain_identification as di
        rec = _RecordStub({"cds": case["L"], "other": 500})
        from antismash.common.hmmscan_refinement import HMMResult
        far = HMMResult("PKS_Docking_Nterm", 200, 220, 1e-5, 10.)   # a gene that loses everything disappears
        res = di.filter_nonterminal_docking_domains(rec, {"cds": [hit_obj(h, DOCK_NAMES) for h in case["hits"]],
                                                          "other": [far]})
        return {"out": [hit_json(r, DOCK_NAMES) for r in res.get("cds", [])], "keys": sorted(res)}

    @staticmethod
    def _hmmer_hit(h: List[int]) -> Any:
        from antismash.common.hmmer import HmmerHit
        return HmmerHit(location=f"[{h[1]}:{h[2]}]", label="l", locus_tag="cds", domain=f"d{h[0]}", evalue=1e-5,
                        score=h[3] / 4, identifier=HM_IDS[h[0]], description="", protein_start=h[1],
                        protein_end=h[2], translation="M" * (h[2] - h[1]))

    def impl_hmmer(self, case: Dict[str, Any]) -> Dict[str, Any]:
        from antismash.common import hmmer
        cutoffs = {HM_IDS[i]: c / 4 for i, c in enumerate(case["cut"]) if c is not None}

        def one(order: List[List[int]]) -> Any:
            try:
                out = hmmer.remove_overlapping([self._hmmer_hit(h) for h in order], cutoffs, overlap_limit=case["limit"])
            except Exception as exc:  # pylint: disable=broad-except
                return {"err": err_kind(exc)}
            return [[HM_IDS.index(h.identifier), h.protein_start, h.protein_end, int(round(h.score * 4))] for h in out]
        base = one(case["hits"])
        prng = random.Random(case.get("pseed", 0))
        bad = None
        orders = [case["hits"][::-1]]
        for _ in range(6):
            o = list(case["hits"])
            prng.shuffle(o)
            orders.append(o)
        for o in orders:
            got = one(o)
            if isinstance(base, dict) and isinstance(got, dict):
                continue   # which of two input errors is reported first is not part of the property
            if got != base:
                bad = {"order": o, "out": got}
                break
        if isinstance(base, dict):
            return {"out": None, "err_out": base["err"], "perm_bad": bad}
        return {"out": base, "perm_bad": bad}

    def impl_multiple(self, case: Dict[str, Any]) -> Dict[str, Any]:
        from antismash.common.hmm_rule_parser import cluster_prediction as cp
        by_id = {f"g{i}": [_CPHit(f"g{i}", f) for f in g] for i, g in enumerate(case["genes"])}
        results = [h for g in by_id.values() for h in g]
        results.reverse()
        res, rid = cp.filter_result_multiple(results, by_id)
        return {"genes": [[h.uid for h in rid[f"g{i}"]] for i in range(len(case["genes"]))],
                "results": [h.uid for h in res]}

    def impl_equiv(self, case: Dict[str, Any]) -> Dict[str, Any]:
        from antismash.common.hmm_rule_parser import cluster_prediction as cp
        eq = [set(NAMES[p] for p in g) for g in case["eq"]]
        genes = [case["hits"]] + case.get("others", [])

        def run(gene_hits: List[List[List[int]]]) -> Optional[List[List[int]]]:
            by_id = {f"g{i}": [_CPHit(f"g{i}", f) for f in g] for i, g in enumerate(gene_hits)}
            results = [h for g in by_id.values() for h in g]
            try:
                res, rid = cp.filter_results(results, by_id, eq)
            except AssertionError:
                return None
            outs = [[h.uid for h in rid[f"g{i}"]] for i in range(len(gene_hits))]
            if [h.uid for h in res] != [u for o in outs for u in o]:
                outs.append([-1])           # marks `results` disagreeing with `results_by_id`
            return outs
        outs = run(genes)
        if outs is None:
            return {"out": None}
        obs = {"out": outs[0], "results_same": len(outs) == len(genes)}
        # the survivors of a gene do not depend on the order of its hit list, unless two of its hits tie
        first = case["hits"]
        if len(set(f[4] for f in first)) == len(first) and len(first) > 1:
            prng = random.Random(len(first) * 7919 + first[0][4])
            orders = [first[::-1]]
            for _ in range(4):
                o = list(first)
                prng.shuffle(o)
                orders.append(o)
            for o in orders:
                got = run([o])
                if got is None or sorted(got[0]) != sorted(outs[0]):
                    obs["perm_bad"] = {"order": o, "out": got}
                    break
        if len(genes) > 1:
            obs["genes"] = outs[:len(genes)]
            obs["alone"] = [run([g]) for g in genes]
        return obs

    # callers: the real functions on stubbed raw hit lists ---------------------------------------
    @staticmethod
    def _group(raw: List[List[int]], ngenes: Optional[int] = None) -> List[List[List[int]]]:
        n = (max((r[0] for r in raw), default=-1) + 1) if ngenes is None else ngenes
        genes: List[List[List[int]]] = [[] for _ in range(n)]
        for r in raw:
            genes[r[0]].append(r[1:])
        return genes

    def impl_cp(self, case: Dict[str, Any]) -> Dict[str, Any]:
        from antismash.common.hmm_rule_parser import cluster_prediction as cp

        class Sig:
            def __init__(self, cutoff: float) -> None:
                self.cutoff = cutoff
                self.seed_count = 3
        sigs = {NAMES[i]: Sig(c / 10) for i, c in enumerate(case["cut"])}
        eq = [set(NAMES[p] for p in g) for g in case["eq"]]

        class RunResult:
            def __init__(self, hsp: Any) -> None:
                self.accession = "ACC0000.1"
                self.hsps = [hsp]

        def run(raw: List[List[int]]) -> Any:
            results = []
            for g, uid, prof, start, end, sc in raw:
                hsp = _CPHit(f"g{g}", [uid, prof, start, end, sc])
                hsp.query_start = uid          # carried through HMMerHit.from_hsp: identifies the HSP
                hsp.query_end = uid + 1
                results.append(RunResult(hsp))
            saved = (cp.run_hmmsearch, cp.fasta.get_fasta_from_record)
            cp.run_hmmsearch = lambda *_a, **_k: results
            cp.fasta.get_fasta_from_record = lambda _r: ""
            try:
                out = cp.find_hmmer_hits(None, sigs, "db", eq)
            except AssertionError:
                return None
            finally:
                cp.run_hmmsearch, cp.fasta.get_fasta_from_record = saved
            assert all(out.values())
            return [[h.query_start for h in out.get(f"g{g}", [])] for g in range(case["ngenes"])]
        base = run(case["raw"])
        obs: Dict[str, Any] = {"genes": base, "perm_bad": None}
        if base is not None:
            prng = random.Random(case.get("pseed", 0))
            for _ in range(4):
                o = list(case["raw"])
                prng.shuffle(o)
                got = run(o)
                # a gene without tied bitscores keeps the same hits whatever the order of the raw list
                for g, hits in enumerate(self._group(case["raw"], case["ngenes"])):
                    if len(set(h[4] for h in hits)) == len(hits):
                        if got is None or sorted(got[g]) != sorted(base[g]):
                            obs["perm_bad"] = {"order": o, "gene": g, "out": got}
                if obs["perm_bad"]:
                    break
        return obs

    def impl_refinerec(self, case: Dict[str, Any]) -> Dict[str, Any]:
        from antismash.common import hmmscan_refinement as ref
        lens = self._lens(case)

        def run(raw: List[List[Any]]) -> Any:
            res = ref.refine_hmmscan_results([_QueryResult([_HSP(f"g{g}", h)]) for g, h in raw], lens,
                                             neighbour_mode=case["nb"])
            assert all(res.values())            # a gene without refined hits has no entry
            return ([[hit_json(r) for r in res.get(f"g{g}", [])] for g in range(case["ngenes"])],
                    sorted(int(k[1:]) for k in res))
        genes, keys = run(case["raw"])
        obs: Dict[str, Any] = {"genes": genes, "keys": keys, "perm_bad": None, "alone_bad": None}
        prng = random.Random(case.get("pseed", 0))
        for _ in range(3):
            o = list(case["raw"])
            prng.shuffle(o)
            if run(o) != (genes, keys):
                obs["perm_bad"] = {"order": o, "out": run(o)}
                break
        for g in range(case["ngenes"]):
            alone = run([r for r in case["raw"] if r[0] == g])[0][g]
            if alone != genes[g]:
                obs["alone_bad"] = {"gene": g, "alone": alone}
        return obs

    def impl_runhmmer(self, case: Dict[str, Any]) -> Dict[str, Any]:
        from antismash.common import hmmer
        ngenes = max((r[0] for r in case["raw"]), default=-1) + 1

        class Feature:
            def __init__(self, name: str) -> None:
                self.name = name
                self.translation = "M" * 400

            def get_name(self) -> str:
                return self.name

            def get_sub_location_from_protein_coordinates(self, start: int, end: int) -> str:
                return f"[{start}:{end}]"

        class Record:
            id = "rec"

            def __init__(self) -> None:
                self.m = {f"g{g}": Feature(f"g{g}") for g in range(ngenes)}

            def get_cds_name_mapping(self) -> Dict[str, Any]:
                return self.m

        class HSP:
            def __init__(self, r: List[int]) -> None:
                g, ident, start, end, sc, ev = r
                self.query_id = f"g{g}"
                self.hit_id = HM_IDS[ident]
                self.bitscore = sc / 4
                self.evalue = math.ldexp(ev, -60)
                self.hit_description = "d"
                self.query_start = start
                self.query_end = end

        class Result:
            def __init__(self, hsp: Any) -> None:
                self.id = "q"
                self.hsps = [hsp]
        cutoffs = {HM_IDS[i]: c / 4 for i, c in enumerate(case["cut"])}

        def run(raw: List[List[int]]) -> Any:
            results = [Result(HSP(r)) for r in raw]
            record = Record()
            saved = (hmmer.subprocessing.run_hmmscan, hmmer.pfamdb.get_pfam_id_from_name,
                     hmmer.pfamdb.get_pfam_cutoffs, hmmer.fasta.get_fasta_from_features)
            hmmer.subprocessing.run_hmmscan = lambda *_a, **_k: results
            hmmer.pfamdb.get_pfam_id_from_name = lambda name, _db: name
            hmmer.pfamdb.get_pfam_cutoffs = lambda _db: cutoffs
            hmmer.fasta.get_fasta_from_features = lambda _f: ""
            try:
                res = hmmer.run_hmmer(record, list(record.m.values()), math.ldexp(case["maxev"], -60),
                                      case["min"] / 4, "/", "tool", filter_overlapping=case.get("filter", True))
            finally:
                (hmmer.subprocessing.run_hmmscan, hmmer.pfamdb.get_pfam_id_from_name,
                 hmmer.pfamdb.get_pfam_cutoffs, hmmer.fasta.get_fasta_from_features) = saved
            out: List[List[List[int]]] = [[] for _ in range(ngenes)]
            self._last_record = []
            for h in res.hits:
                hit = [HM_IDS.index(h.identifier), h.protein_start, h.protein_end, int(round(h.score * 4))]
                out[int(h.locus_tag[1:])].append(hit)
                self._last_record.append([int(h.locus_tag[1:]), hit])
            return out
        base = run(case["raw"])
        record = list(self._last_record)      # HmmerResults.hits in the order returned
        prng = random.Random(case.get("pseed", 0))
        bad = None
        for _ in range(4 if case.get("filter", True) else 0):    # unfiltered: hmmscan order is kept by design
            o = list(case["raw"])
            prng.shuffle(o)
            got = run(o)
            if got != base:
                bad = {"order": o, "out": got}
                break
        return {"genes": base, "record": record, "perm_bad": bad}

    @staticmethod
    def _qr(genes: List[List[List[int]]], names: List[str]) -> List[Any]:
        class HSP:
            def __init__(self, query_id: str, h: List[int]) -> None:
                self.query_id = query_id
                self.hit_id = names[h[0]]
                self.query_start = h[1]
                self.query_end = h[2]
                self.evalue = math.ldexp(h[3], -60)
                self.bitscore = h[4] / 10
        return [_QueryResult([HSP(f"g{g}", h)]) for g, hits in enumerate(genes) for h in hits]

    def impl_domains(self, case: Dict[str, Any]) -> Dict[str, Any]:
        from antismash.detection.nrps_pks_domains import domain_identification as di
        lens = dict(zip(DOCK_NAMES, case["lens"]))
        rec = _RecordStub({f"g{g}": length for g, length in enumerate(case["L"])})

        def run(genes: List[List[List[int]]]) -> Any:
            results = self._qr(genes, DOCK_NAMES)
            saved = (di.subprocessing.run_hmmscan, di.utils.get_hmm_lengths)
            di.subprocessing.run_hmmscan = lambda *_a, **_k: results
            di.utils.get_hmm_lengths = lambda _f: lens
            try:
                doms = di.find_domains("fasta", rec)
                motifs = di.find_ab_motifs("fasta")
            finally:
                di.subprocessing.run_hmmscan, di.utils.get_hmm_lengths = saved
            n = len(genes)
            return ([[hit_json(r, DOCK_NAMES) for r in doms.get(f"g{g}", [])] for g in range(n)],
                    [[hit_json(r, DOCK_NAMES) for r in motifs.get(f"g{g}", [])] for g in range(n)])
        base = run(case["genes"])
        prng = random.Random(case.get("pseed", 0))
        bad = None
        for _ in range(3):
            shuffled = []
            for g in case["genes"]:
                o = list(g)
                prng.shuffle(o)
                shuffled.append(o)
            got = run(shuffled)
            if got != base:
                bad = {"order": shuffled, "out": got}
                break
        return {"doms": base[0], "motifs": base[1], "perm_bad": bad}

    def impl_subtypes(self, case: Dict[str, Any]) -> Dict[str, Any]:
        from antismash.detection.nrps_pks_domains import domain_identification as di
        lens = dict(zip(SUB_NAMES, case["lens"]))

        class Rec:
            def get_cds_by_name(self, name: str) -> str:
                return name
        callback = di._strip_trailing_numbers if case["callback"] else None

        def run(genes: List[List[List[int]]]) -> Any:
            existing = {f"g{g}": [hit_obj(d, DOCK_NAMES) for d in doms] for g, doms in enumerate(case["existing"])}
            results = self._qr(genes, SUB_NAMES)
            saved = (di.subprocessing.run_hmmscan, di.utils.get_hmm_lengths, di.get_fasta_from_features)
            di.subprocessing.run_hmmscan = lambda *_a, **_k: results
            di.utils.get_hmm_lengths = lambda _f: lens
            di.get_fasta_from_features = lambda _f: ""
            try:
                out = di.find_subtypes(DOCK_NAMES[case["target"]], "db", existing, Rec(), modifier_callback=callback)
            finally:
                di.subprocessing.run_hmmscan, di.utils.get_hmm_lengths, di.get_fasta_from_features = saved
            n = len(genes)
            res = [[hit_json(r, SUB_NAMES) for r in out.get(f"g{g}", [])] for g in range(n)]
            internal = [[[hit_json(r, SUB_NAMES) for r in d.internal_hits] for d in existing[f"g{g}"]
                         if d.hit_id == DOCK_NAMES[case["target"]]] for g in range(n)]
            return res, internal
        base = run(case["genes"])
        prng = random.Random(case.get("pseed", 0))
        bad = None
        for _ in range(3):
            shuffled = []
            for g in case["genes"]:
                o = list(g)
                prng.shuffle(o)
                shuffled.append(o)
            got = run(shuffled)
            if got != base:
                bad = {"order": shuffled, "out": got}
                break
        return {"out": base[0], "internal": base[1], "perm_bad": bad}

    # ------------------------------------------------------------------ driver + judge
    def driver_line(self, case: Dict[str, Any], obs: Dict[str, Any]) -> Optional[Dict[str, Any]]:
        kind = case["kind"]
        line: Dict[str, Any] = {"kind": kind}
        if kind == "hashseed":
            return {"kind": "refine", "lens": case["lens"], "reg": REG, "hits": case["hits"], "nb": case["nb"],
                    "impl": next(iter(obs.get("outs", {"": []}).values())) or []}
        if kind == "mergedl":
            hits = sorted({tuple(h) for h in case["hits"]}, key=lambda h: (h[1], h[2], NAMES[h[0]], h[3], h[4]))
            return {"kind": "merge", "lens": case["lens"], "reg": REG, "hits": [list(h) for h in hits], "nb": False,
                    "impl": next(iter(obs.get("outs", {"": []}).values()))}
        if kind == "hmmer" and "outs" in obs:
            return {"kind": "hmmer", "cut": case["cut"], "limit": case["limit"], "hits": case["hits"], "impl": None}
        if kind in ("refine", "remov", "incomplete", "merge"):
            line.update({"lens": case["lens"], "reg": REG, "hits": case["hits"]})
            if kind in ("refine", "merge"):
                line["nb"] = case["nb"]
            if kind == "refine":
                line["impl"] = obs.get("out") or []
            elif kind in ("remov", "merge"):
                line["impl"] = obs.get("out")
        elif kind == "dock":
            line.update({"names": DOCK_NAMES, "L": case["L"], "hits": case["hits"]})
        elif kind == "hmmer":
            line.update({"cut": case["cut"], "limit": case["limit"], "hits": case["hits"], "impl": obs.get("out")})
        elif kind == "multiple":
            line.update({"genes": case["genes"]})
        elif kind == "equiv":
            line.update({"eq": case["eq"], "hits": case["hits"], "impl": obs.get("out"), "others": case.get("others", [])})
        elif kind == "cp":
            line.update({"cut": case["cut"], "eq": case["eq"], "genes": self._group(case["raw"], case["ngenes"])})
        elif kind == "runhmmer":
            line.update({"cut": case["cut"], "min": case["min"], "maxev": case["maxev"], "genes": self._group(case["raw"]),
                         "filter": case.get("filter", True), "raw": case["raw"]})
        elif kind == "refinerec":
            line.update({"lens": case["lens"], "reg": REG, "nb": case["nb"], "raw": case["raw"], "ngenes": case["ngenes"]})
        elif kind == "domains":
            line.update({"lens": case["lens"], "names": DOCK_NAMES, "L": case["L"], "genes": case["genes"],
                         "impl_doms": obs.get("doms", []), "impl_motifs": obs.get("motifs", [])})
        elif kind == "subtypes":
            line.update({"lens": case["lens"], "target": case["target"],
                         "strip": SUB_STRIP if case["callback"] else list(range(len(SUB_NAMES))),
                         "existing": case["existing"], "genes": case["genes"],
                         "impl_internal": obs.get("internal", [])})
        return line

    def judge(self, case: Dict[str, Any], obs: Dict[str, Any], drv: Optional[Dict[str, Any]]) -> Judgement:
        assert drv is not None
        kind = case["kind"]
        if "err" in drv:
            return Judgement(False, True, detail=f"driver error {drv['err']}")
        if "err" in obs:
            return Judgement(False, False, tags=(kind,), detail=f"implementation raised {obs['err']}: {obs.get('msg')}")
        if "outs" in obs:
            # hash-seed matrix: one result per PYTHONHASHSEED, all must agree (and agree with the model)
            results = list(obs["outs"].values())
            same = all(r == results[0] for r in results[1:])
            corr = kind == "hmmer" or results[0] == drv["model"]
            detail = "" if same else f"result depends on the hash seed: {obs['outs']}"
            if same and not corr:
                detail = f"model {drv['model']} vs implementation {results[0]}"
            return Judgement(corr, same, nontrivial=True, tags=("hash-seed", kind), detail=detail)
        return getattr(self, "judge_" + kind)(case, obs, drv)

    def judge_refine(self, case: Dict[str, Any], obs: Dict[str, Any], drv: Dict[str, Any]) -> Judgement:
        spec, mspec = drv["spec"], drv["model_spec"]
        corr = obs["out"] == drv["model"]
        detail = ""
        known = None
        spec_ok = True
        if obs["perm_bad"] is not None:
            spec_ok = False
            detail = f"order dependence: base {obs['out']} vs enumeration {obs['perm_bad']}"
        elif not drv["kept"]:
            spec_ok = False
            detail = f"neighbour mode lost a complete raw hit that no raw hit scoring at least as high collides with: {obs['out']}"
        elif not (spec["sorted"] and spec["prov"] and drv["global"]):
            spec_ok = False
            detail = f"spec on implementation output {obs['out']}: {spec} global-margin={drv['global']}"
        elif not spec["overlap"]:
            spec_ok = False
            detail = f"two returned hits overlap by more than 20% of the longer profile: {obs['out']}"
        if not corr and not detail:
            detail = f"model {drv['model']} vs implementation {obs['out']}"
        tags = ("refine", "nb" if case["nb"] else "dl", "n%d" % min(len(case["hits"]), 8),
                "uniform-len" if drv["scope"] else "mixed-len", "clear" if spec["clear"] else "not-clear",
                "out%d" % min(len(obs["out"]), 4))
        return Judgement(corr, spec_ok, in_scope=True, known=known,
                         nontrivial=bool(drv["nontrivial"]), tags=tags, detail=detail)

    def judge_remov(self, case: Dict[str, Any], obs: Dict[str, Any], drv: Dict[str, Any]) -> Judgement:
        corr = obs["out"] == drv["model"]
        spec_ok, known, detail = True, None, ""
        if obs["out"] is None:
            # IndexError on an empty list: the documented precondition (refine never passes one)
            tags = ("remov", "empty")
            return Judgement(corr, True, tags=tags, detail="" if corr else f"model {drv['model']} vs IndexError")
        spec, mspec = drv["spec"], drv["model_spec"]
        if drv["input_sorted"]:
            if not (spec["sub"] and spec["sorted"]):
                spec_ok, detail = False, f"output not a position-ordered selection of the input: {obs['out']}"
            elif not spec["overlap"]:
                spec_ok, detail = False, f"kept hits overlap by more than the margin: {obs['out']}"
            elif not spec["justified"]:
                spec_ok, detail = False, f"a hit was dropped although no kept hit collides with it: {obs['out']}"
        if not corr and not detail:
            detail = f"model {drv['model']} vs implementation {obs['out']}"
        tags = ("remov", "sorted-input" if drv["input_sorted"] else "unsorted-input",
                "uniform-len" if drv["scope"] else "mixed-len")
        return Judgement(corr, spec_ok, in_scope=True, known=known,
                         nontrivial=bool(drv["nontrivial"]), tags=tags, detail=detail)

    def judge_incomplete(self, case: Dict[str, Any], obs: Dict[str, Any], drv: Dict[str, Any]) -> Judgement:
        corr = obs["out"] == drv["model"]
        spec_ok = obs["out"] == drv["spec"]
        detail = "" if corr and spec_ok else f"model {drv['model']} spec {drv['spec']} implementation {obs['out']}"
        stage = "complete" if len(obs["out"]) > 1 else ("one" if obs["out"] else "none")
        return Judgement(corr, spec_ok, nontrivial=bool(drv["nontrivial"]), tags=("incomplete", stage), detail=detail)

    def judge_merge(self, case: Dict[str, Any], obs: Dict[str, Any], drv: Dict[str, Any]) -> Judgement:
        corr = obs["out"] == drv["model"]
        spec_ok, detail = True, ""
        if obs["out"] is not None and drv["input_sorted"] and not drv["prov"]:
            spec_ok, detail = False, f"a merged hit is not the span of close same-profile input hits: {obs['out']}"
        elif obs["out"] is not None and not drv["covered"]:
            spec_ok, detail = False, f"an input fragment is not inside any merged hit of its profile: {obs['out']}"
        if not corr and not detail:
            detail = f"model {drv['model']} vs implementation {obs['out']}"
        return Judgement(corr, spec_ok, nontrivial=bool(drv["nontrivial"]),
                         tags=("merge", "nb" if case["nb"] else "dl"), detail=detail)

    def judge_dock(self, case: Dict[str, Any], obs: Dict[str, Any], drv: Dict[str, Any]) -> Judgement:
        corr = obs["out"] == drv["model"] and obs["keys"] == (["cds"] if obs["out"] else [])
        spec_ok = obs["out"] == drv["spec"]
        detail = "" if corr and spec_ok else f"model {drv['model']} spec {drv['spec']} implementation {obs}"
        return Judgement(corr, spec_ok, nontrivial=bool(drv["nontrivial"]), tags=("dock",), detail=detail)

    def judge_hmmer(self, case: Dict[str, Any], obs: Dict[str, Any], drv: Dict[str, Any]) -> Judgement:
        model = drv["model"]
        if obs["out"] is None:
            corr = model.get("err") == obs["err_out"]
            ok = obs["perm_bad"] is None
            return Judgement(corr, ok, tags=("hmmer", "err:" + obs["err_out"]),
                             detail="" if corr and ok else f"model {model} vs implementation error {obs}")
        corr = model.get("ok") == obs["out"]
        spec_ok, detail = True, ""
        if obs["perm_bad"] is not None:
            spec_ok, detail = False, f"order dependence: base {obs['out']} vs {obs['perm_bad']}"
        elif not drv["spec"]["ok"]:
            spec_ok, detail = False, f"spec on implementation output {obs['out']}: {drv['spec']}"
        if not corr and not detail:
            detail = f"model {model} vs implementation {obs['out']}"
        return Judgement(corr, spec_ok, nontrivial=bool(drv["nontrivial"]),
                         tags=("hmmer", "limit%d" % case["limit"]), detail=detail)

    def judge_multiple(self, case: Dict[str, Any], obs: Dict[str, Any], drv: Dict[str, Any]) -> Judgement:
        corr = obs["genes"] == drv["model_genes"] and obs["results"] == drv["model_results"]
        spec_ok = obs["genes"] == drv["spec_genes"]
        starts = {f[0]: f[2] for g in case["genes"] for f in g}
        res_starts = [starts[u] for u in obs["results"]]
        spec_ok = spec_ok and res_starts == sorted(res_starts) \
            and sorted(obs["results"]) == sorted(u for g in obs["genes"] for u in g)
        detail = "" if corr and spec_ok else f"model {drv['model_genes']} {drv['model_results']} spec {drv['spec_genes']} implementation {obs}"
        return Judgement(corr, spec_ok, nontrivial=bool(drv["nontrivial"]), tags=("multiple",), detail=detail)

    def judge_equiv(self, case: Dict[str, Any], obs: Dict[str, Any], drv: Dict[str, Any]) -> Judgement:
        tie = bool(drv["tie"])
        if obs["out"] is None:
            # the assertion `results_by_id[cds]` fired: impossible (theorem equivalence_never_empties_a_gene)
            return Judgement(drv["model"] is None, False, tags=("equiv", "assertion"),
                             detail=f"the gene lost all its hits (assertion); model {drv['model']}")
        spec_ok = bool(drv["spec"]["ok"]) and obs["results_same"]
        corr = obs["out"] == drv["model"]
        detail = ""
        if "genes" in obs:
            # each gene of a record is filtered on its own hits only (theorem equivalence_filter_is_per_gene)
            alone = [a[0] if a else None for a in obs["alone"]]
            if obs["genes"] != alone:
                spec_ok = False
                detail = f"a gene's result depends on the other genes: together {obs['genes']}, each alone {alone}"
            corr = corr and obs["genes"] == drv["model_genes"]
        if obs.get("perm_bad") is not None:
            spec_ok = False
            detail = f"order dependence: {obs['out']} vs {obs['perm_bad']}"
        if not spec_ok and not detail:
            detail = f"spec on implementation output {obs['out']}: {drv['spec']} results_same={obs['results_same']}"
        elif not corr and not detail:
            detail = f"model {drv['model']} / {drv.get('model_genes')} vs implementation {obs} (groups {drv['groups']})"
        return Judgement(corr, spec_ok, nontrivial=bool(drv["nontrivial"]),
                         tags=("equiv", "tie" if tie else "distinct", "eq%d" % len(case["eq"]),
                               "multi-gene" if "genes" in obs else "one-gene"), detail=detail)

    def judge_cp(self, case: Dict[str, Any], obs: Dict[str, Any], drv: Dict[str, Any]) -> Judgement:
        if obs["genes"] is None:
            return Judgement(False, False, tags=("cp", "assertion"), detail="find_hmmer_hits: a gene lost all its hits")
        corr = obs["genes"] == drv["model"]
        spec_ok, detail = True, ""
        if obs["perm_bad"] is not None:
            spec_ok, detail = False, f"order dependence without score ties: {obs['genes']} vs {obs['perm_bad']}"
        # returned hits: above the signature's cut-off, one per profile, ordered by start
        raw = {r[1]: r for r in case["raw"]}
        for g, uids_ in enumerate(obs["genes"]):
            hits = [raw[u] for u in uids_]
            if any(h[0] != g or not h[5] > case["cut"][h[2]] for h in hits) \
                    or len(set(h[2] for h in hits)) != len(hits) or [h[3] for h in hits] != sorted(h[3] for h in hits):
                spec_ok, detail = False, f"gene {g}: returned {hits}"
        # the documented meaning: competition between equivalent profiles first, then the best of each profile
        # among the survivors (a profile whose best copy lost but has an uncontested copy stays represented)
        for g, (got, want, surv) in enumerate(zip(obs["genes"], drv["spec"], drv["survivors"])):
            if spec_ok and got != want:
                lost = sorted(set(raw[u][2] for u in surv if raw[u][5] > -10) - set(raw[u][2] for u in got))
                spec_ok = False
                detail = (f"gene {g}: returned {got}, documented result {want}"
                          + (f"; profiles {[NAMES[p] for p in lost]} survive the competition but are not represented"
                             if lost else ""))
        if not corr and not detail:
            detail = f"model {drv['model']} vs implementation {obs['genes']}"
        return Judgement(corr, spec_ok, nontrivial=bool(drv["nontrivial"]),
                         tags=("cp", "tie" if any(drv["ties"]) else "distinct", "eq%d" % len(case["eq"])), detail=detail)

    def judge_refinerec(self, case: Dict[str, Any], obs: Dict[str, Any], drv: Dict[str, Any]) -> Judgement:
        corr = obs["genes"] == drv["model"] and obs["keys"] == sorted(drv["keys"])
        spec_ok, detail = True, ""
        if obs["perm_bad"] is not None:
            spec_ok, detail = False, f"order dependence: {obs['genes']} vs {obs['perm_bad']}"
        elif obs["alone_bad"] is not None:
            spec_ok, detail = False, f"a gene's hits depend on the other genes: {obs['genes']} vs {obs['alone_bad']}"
        elif obs["genes"] != drv["alone"]:
            spec_ok, detail = False, f"not the per-gene refinement {drv['alone']}: {obs['genes']}"
        if not corr and not detail:
            detail = f"model {drv['model']} keys {drv['keys']} vs implementation {obs['genes']} keys {obs['keys']}"
        return Judgement(corr, spec_ok, nontrivial=bool(drv["nontrivial"]),
                         tags=("refinerec", "nb" if case["nb"] else "dl"), detail=detail)

    def judge_runhmmer(self, case: Dict[str, Any], obs: Dict[str, Any], drv: Dict[str, Any]) -> Judgement:
        model = [m.get("ok") for m in drv["model"]]
        corr = obs["genes"] == model and obs.get("record", drv["record"]) == drv["record"]
        spec_ok, detail = True, ""
        if obs["perm_bad"] is not None:
            spec_ok, detail = False, f"order dependence: {obs['genes']} vs {obs['perm_bad']}"
        evalue = {tuple(r[:5]): r[5] for r in case["raw"]}
        for g, hits in enumerate(obs["genes"]):
            if any(not (h[3] > case["min"]) for h in hits):
                spec_ok, detail = False, f"a hit at or below the minimum score was returned: {hits}"
            if any(not (evalue.get((g, *h), case["maxev"]) < case["maxev"]) for h in hits):
                spec_ok, detail = False, f"a hit at or above the maximum e-value (or not a raw hit) was returned: {hits}"
        # the returned list is grouped by locus, loci in order of first appearance among the passing hits
        if spec_ok and case.get("filter", True) and "record" in obs:
            loci = [g for g, _ in obs["record"]]
            first = []
            for r in case["raw"]:
                if r[4] > case["min"] and r[5] < case["maxev"] and r[0] not in first:
                    first.append(r[0])
            grouped = [g for i, g in enumerate(loci) if i == 0 or loci[i - 1] != g]
            if grouped != [g for g in first if g in loci]:
                spec_ok, detail = False, f"hits not grouped by locus in order of first appearance {first}: {loci}"
        if not corr and not detail:
            detail = f"model {drv['model']} / {drv['record']} vs implementation {obs['genes']} / {obs.get('record')}"
        return Judgement(corr, spec_ok, nontrivial=bool(drv["nontrivial"]), tags=("runhmmer",), detail=detail)

    def judge_domains(self, case: Dict[str, Any], obs: Dict[str, Any], drv: Dict[str, Any]) -> Judgement:
        corr = obs["doms"] == drv["model"] and obs["motifs"] == drv["motifs"]
        spec_ok, detail = True, ""
        if obs["perm_bad"] is not None:
            spec_ok, detail = False, f"order dependence: {obs['doms']} vs {obs['perm_bad']}"
        if spec_ok and not drv["kept"]:
            spec_ok, detail = False, (f"a complete raw hit that no raw hit scoring at least as high collides with is not "
                                      f"inside any returned hit of its profile: domains {obs['doms']} motifs {obs['motifs']}")
        if not corr and not detail:
            detail = f"model {drv['model']} / {drv['motifs']} vs implementation {obs['doms']} / {obs['motifs']}"
        return Judgement(corr, spec_ok, nontrivial=bool(drv["nontrivial"]), tags=("domains",), detail=detail)

    def judge_subtypes(self, case: Dict[str, Any], obs: Dict[str, Any], drv: Dict[str, Any]) -> Judgement:
        corr = obs["out"] == drv["model"] and obs["internal"] == drv["internal"]
        spec_ok, detail = True, ""
        if obs["perm_bad"] is not None:
            spec_ok, detail = False, f"order dependence: {obs['out']} vs {obs['perm_bad']}"
        # every attached sub-type hit overlaps its target domain
        for g, doms in enumerate(case["existing"]):
            targets = [d for d in doms if d[0] == case["target"]]
            for d, hits in zip(targets, obs["internal"][g]):
                if any(not (d[2] > h[1] and h[2] > d[1]) for h in hits):
                    spec_ok, detail = False, f"sub-type hit outside its domain {d}: {hits}"
        if spec_ok and not drv["kept"]:
            spec_ok, detail = False, (f"a complete sub-type hit overlapping a target domain, with no rival scoring at least "
                                      f"as high, is not attached to the domain: {obs['internal']}")
        if not corr and not detail:
            detail = f"model {drv['model']} / {drv['internal']} vs implementation {obs['out']} / {obs['internal']}"
        return Judgement(corr, spec_ok, nontrivial=bool(drv["nontrivial"]),
                         tags=("subtypes", "callback" if case["callback"] else "plain"), detail=detail)

    # ------------------------------------------------------------------ shrinking
    def shrink(self, case: Dict[str, Any]) -> Iterator[Dict[str, Any]]:
        kind = case["kind"]
        if kind == "multiple":
            for gi, g in enumerate(case["genes"]):
                if len(case["genes"]) > 1:
                    yield dict(case, genes=case["genes"][:gi] + case["genes"][gi + 1:])
                for i in range(len(g)):
                    yield dict(case, genes=case["genes"][:gi] + [g[:i] + g[i + 1:]] + case["genes"][gi + 1:])
            return
        if kind in ("cp", "runhmmer", "refinerec"):
            raw = case["raw"]
            for i in range(len(raw)):
                yield dict(case, raw=raw[:i] + raw[i + 1:])
            return
        if kind in ("domains", "subtypes"):
            for gi, g in enumerate(case["genes"]):
                for i in range(len(g)):
                    yield dict(case, genes=case["genes"][:gi] + [g[:i] + g[i + 1:]] + case["genes"][gi + 1:])
            return
        hits = case["hits"]
        for i in range(len(hits)):
            yield dict(case, hits=hits[:i] + hits[i + 1:])
        if kind == "equiv" and len(case["eq"]) > 1:
            for i in range(len(case["eq"])):
                yield dict(case, eq=case["eq"][:i] + case["eq"][i + 1:])
        # make numbers smaller: shift everything towards 0
        pos = 1 if kind != "equiv" else 2
        if hits:
            lo = min(h[pos] for h in hits)
            if lo > 0:
                yield dict(case, hits=[h[:pos] + [h[pos] - lo, h[pos + 1] - lo] + h[pos + 2:] for h in hits])


PROP = C13
