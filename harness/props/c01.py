"""C01 — rule conditions evaluate to their documented boolean meaning.

Implementation under test: the condition objects of rule_parser.py driven through
`DetectionRule.detect` (or `Conditions.get_satisfied(Details(...))` when the condition has no
positive requirement and therefore cannot be wrapped in a rule).
"""
from __future__ import annotations

import itertools
import random
from typing import Any, Dict, Iterator, List, Optional

from ..framework import Judgement, Property, err_kind
from . import common


class C01(Property):
    ID = "C01"
    SHAPE = [("antismash/common/hmm_rule_parser/rule_parser.py", q) for q in (
        "Details.__init__", "Details.in_range", "Details.just_cds", "ConditionMet.__init__",
        "Conditions.__init__", "Conditions.are_subconditions_satisfied", "Conditions.get_satisfied",
        "Conditions.is_satisfied", "AndCondition.is_satisfied", "MinimumCondition.is_satisfied",
        "CDSCondition.is_satisfied", "SingleCondition.is_satisfied", "ScoreCondition.is_satisfied",
        "DetectionRule.detect")] + [
        ("antismash/common/secmet/locations.py", "get_distance_between_locations"),
        ("antismash/common/secmet/locations.py", "locations_overlap"),
        ("antismash/common/hmm_rule_parser/rule_parser.py", "Parser._parse_single_condition"),
        ("antismash/common/hmm_rule_parser/rule_parser.py", "Parser._parse_conditions"),
        ("antismash/common/hmm_rule_parser/rule_parser.py", "Parser._parse_ands"),
        ("antismash/common/hmm_rule_parser/cluster_prediction.py", "apply_cluster_rules"),
        ("antismash/common/hmm_rule_parser/cluster_prediction.py", "_extend_area_location"),
        ("antismash/common/hmm_rule_parser/structures.py", "ProfileHit.__init__"),
        ("antismash/common/hmm_rule_parser/structures.py", "HMMerHit.__init__"),
        ("antismash/common/hmm_rule_parser/structures.py", "HMMerHit.from_hsp"),
        ("antismash/common/secmet/record.py", "Record.get_cds_features_within_location"),
    ]
    RULE = ("condition trees (random depth<=5 over single/minscore/minimum/cds/group/and/or with negation; "
            "small family over profiles {a,b} in the thorough/deep tier: exhaustive for single-atom conditions, sampled for two-atom combinations) x hit assignments with "
            "bitscores around the minscore threshold x gene gaps in {cutoff-1,cutoff,cutoff+1,far} on a line and "
            "across the origin of a ring, incl. origin-spanning genes; non-trivial = at least one other gene "
            "within the cutoff and a condition with an operator/cds/minimum/minscore node; distinct by canonical input")
    TRUSTED = ["Python set/dict semantics, ProfileHit attribute access",
               "`in_range` is taken from the location model (C04 relates it to bases-between)"]

    # ------------------------------------------------------------------ generators
    PROFS = ["a", "b", "c", "d"]

    def rand_local(self, rng: random.Random, depth: int) -> Any:
        """documented grammar inside cds(...): identifiers, not/and/or, groups"""
        if depth <= 0 or rng.random() < 0.4:
            return ["single", rng.random() < 0.35, rng.choice(self.PROFS)]
        r = rng.random()
        n = rng.choice([2, 2, 3])
        subs = self._distinct([self.rand_local(rng, depth - 1) for _ in range(n)])
        if r < 0.5:
            return ["conj", [s for s in subs if s[0] != "conj"] or subs[:1]] if len(subs) > 1 else subs[0]
        return ["group", rng.random() < 0.3, subs]

    def rand_cond(self, rng: random.Random, depth: int, wf: bool = True) -> Any:
        if depth <= 0 or rng.random() < 0.25:
            r = rng.random()
            if r < 0.5:
                return ["single", rng.random() < 0.3, rng.choice(self.PROFS)]
            if r < 0.7:
                return ["score", rng.random() < 0.3, rng.choice(self.PROFS), rng.choice([0, 4, 5, 6])]
            opts = rng.sample(self.PROFS, rng.choice([1, 2, 3, 4]))
            return ["minimum", rng.random() < 0.3, rng.choice([1, 2, 2, 3, 4]), opts]
        r = rng.random()
        if r < 0.3:
            n = rng.choice([1, 2, 3])
            body = self._distinct([(self.rand_local(rng, depth - 1) if wf or rng.random() < 0.7
                                    else self.rand_cond(rng, depth - 1, wf)) for _ in range(n)])
            return ["cds", rng.random() < 0.4, body]
        if rng.random() < 0.08:
            # parentheses around one lone condition, with negations outside and inside: not (not x), ((not x)), …
            inner = self.rand_cond(rng, 0, wf)
            if inner[0] in ("single", "score", "minimum", "cds"):
                inner = [inner[0], rng.random() < 0.6] + list(inner[2:])
            return ["group", rng.random() < 0.6, [inner]]
        n = rng.choice([2, 2, 3])
        subs = self._distinct([self.rand_cond(rng, depth - 1, wf) for _ in range(n)])
        if r < 0.65 and len(subs) > 1:
            subs = [s for s in subs if s[0] != "conj"]
            if len(subs) > 1:
                return ["conj", subs]
            return subs[0] if subs else ["single", False, "a"]
        return ["group", rng.random() < 0.3, subs]

    @staticmethod
    def _distinct(subs: List[Any]) -> List[Any]:
        seen, out = set(), []
        for s in subs:
            k = common.cond_str(s)
            if k not in seen:
                seen.add(k)
                out.append(s)
        return out

    def rand_layout(self, rng: random.Random, cutoff: int) -> Dict[str, Any]:
        circular = rng.random() < 0.5
        ngenes = rng.choice([1, 2, 3, 3, 4, 5, 8])
        glen = rng.choice([3, 30, 300])
        gaps = [rng.choice([cutoff - 1, cutoff, cutoff + 1, 0, 1, max(cutoff // 2, 1), cutoff * 3, -2])
                for _ in range(ngenes)]
        genes = []
        pos = rng.choice([0, 1, cutoff - 1, cutoff, cutoff + 1, 7])
        for i in range(ngenes):
            lo = max(pos, 0)
            hi = lo + glen + rng.choice([0, 0, 3, 9])
            strand = rng.choice([1, -1])
            genes.append([lo, hi, strand])
            pos = hi + gaps[i]
        last_end = max(g[1] for g in genes)
        tail = rng.choice([0, 1, cutoff - 1, cutoff, cutoff + 1, cutoff * 5])
        length = last_end + tail
        out_genes = []
        for n, (lo, hi, strand) in enumerate(genes):
            loc = {"c": False, "parts": [[lo, hi, strand]]}
            if hi - lo >= 9 and rng.random() < 0.25:
                # a gene with introns (2-3 exons, Biopython part order): distances are measured part by part,
                # also across the origin of a circular record
                k = rng.choice([2, 2, 3])
                cuts = sorted(rng.sample(range(lo + 1, hi), 2 * k - 2))
                bounds = [lo] + cuts + [hi]
                parts = [[bounds[i], bounds[i + 1], strand] for i in range(0, len(bounds), 2)]
                if strand == -1:
                    parts.reverse()
                loc = {"c": True, "parts": parts}
            out_genes.append({"n": n, "loc": loc})
        if circular and rng.random() < 0.4 and genes[0][0] >= 2:
            # an origin-spanning gene: [length-k, length) + [0, m)
            k = rng.choice([1, 3, 10])
            m = rng.choice([1, genes[0][0] - 1, max(genes[0][0] // 2, 1)])
            m = max(1, min(m, genes[0][0]))
            length += k if tail < k + 1 else 0
            if rng.random() < 0.5:
                parts = [[length - k, length, 1], [0, m, 1]]
            else:
                parts = [[0, m, -1], [length - k, length, -1]]
            out_genes.append({"n": len(out_genes), "loc": {"c": True, "parts": parts}})
        circ = 0
        if circular:
            circ = length if rng.random() < 0.8 else 0
        return {"genes": out_genes, "circ": circ, "length": length}

    def assign_hits(self, rng: random.Random, genes: List[Dict[str, Any]]) -> None:
        for g in genes:
            hits = []
            if rng.random() < 0.75:
                for p in rng.sample(self.PROFS, rng.choice([1, 1, 2, 3])):
                    hits.append([p, rng.choice([3.0, 4.0, 4.5, 5.0, 5.5, 6.0, 50.0])])
                    if rng.random() < 0.15:   # a second hit of the same profile with another score
                        hits.append([p, rng.choice([1.0, 5.0, 9.0])])
            g["hits"] = hits
            g["hasres"] = bool(hits) or rng.random() < 0.2

    def cases(self, rng: random.Random, tier: str, deep: bool) -> Iterator[Dict[str, Any]]:
        n_random = 40000 if deep else 6000
        for _ in range(n_random):
            cutoff = rng.choice([5, 10, 20, 1000])
            lay = self.rand_layout(rng, cutoff)
            self.assign_hits(rng, lay["genes"])
            wf = rng.random() < 0.9
            cond = self.rand_cond(rng, rng.choice([1, 2, 3, 4, 5]), wf)
            if cond[0] != "group" or rng.random() < 0.5:
                cond = ["group", False, [cond]] if rng.random() < 0.9 else cond
            case = {"kind": "detect", "genes": lay["genes"], "cutoff": cutoff, "circ": lay["circ"],
                    "g": rng.randrange(len(lay["genes"])), "cond": cond}
            # a third of the cases goes the way a run does: hits built by HMMerHit.from_hsp, the genes in a real
            # Record, apply_cluster_rules collecting each gene's neighbourhood itself
            spanning = any(g["loc"]["c"] and g["loc"]["parts"][0][2] * (g["loc"]["parts"][0][0] - g["loc"]["parts"][-1][0]) > 0
                           for g in lay["genes"])
            # (only conditions of the documented grammar: a minscore/minimum inside cds(...) is evaluated with the
            # neighbour's own neighbourhood, which the window of apply_cluster_rules may cut — see the example next
            # to detect_in_window_eq_detect_on_record)
            if wf and rng.random() < 0.38 and (lay["circ"] or not spanning):
                with_hits = [g["n"] for g in lay["genes"] if g["hasres"]]
                if with_hits:
                    case["g"] = rng.choice(with_hits)
                    case["via"] = "apply"
                    case["len"] = lay["length"]
            # the outcome must depend on the present inputs only: half of the cases evaluate the same rule object
            # first on a different hit assignment (the genes' hit lists rotated) — real runs reuse one rule object
            if len(lay["genes"]) > 1 and rng.random() < 0.5:
                case["warm"] = True
            yield case
        if deep:
            yield from self.small_scope(rng, full=(tier == "thorough"))

    # exhaustive family: every condition of the listed shapes x every hit assignment x every gap triple
    def small_conds(self) -> List[Any]:
        lits = [["single", n, p] for n in (False, True) for p in "ab"]
        leaves = lits + [["score", n, "a", 5] for n in (False, True)] \
            + [["minimum", n, k, ["a", "b"]] for n in (False, True) for k in (1, 2, 3)]
        bodies = [[l] for l in lits] \
            + [[["conj", [x, y]]] for x in lits for y in lits if x[2] < y[2]] \
            + [[x, y] for x in lits for y in lits if x[2] < y[2]]
        cds = [["cds", n, b] for n in (False, True) for b in bodies]
        atoms = leaves + cds
        out = [["group", False, [a]] for a in atoms]
        pairs = [(x, y) for x, y in itertools.combinations(atoms, 2)
                 if common.cond_str(x) != common.cond_str(y)]
        for x, y in pairs:
            out.append(["group", False, [["conj", [x, y]]]])
            out.append(["group", False, [x, y]])
        for x, y in pairs[::7]:
            out.append(["group", False, [["group", True, [x, y]]]])
        return out

    def small_scope(self, rng: random.Random, full: bool) -> Iterator[Dict[str, Any]]:
        cutoff = 10
        per_gene = [[], [["a", 4.0]], [["a", 5.0]], [["b", 5.0]], [["a", 5.0], ["b", 5.0]], [["a", 4.0], ["b", 5.0]]]
        conds = self.small_conds()
        layouts = []
        for g01 in (cutoff - 1, cutoff, cutoff + 1):
            for g12 in (cutoff - 1, cutoff, cutoff + 1):
                # line: g0 [100,110) g1 g2
                a = [100, 110]
                b = [110 + g01, 120 + g01]
                c = [b[1] + g12, b[1] + g12 + 10]
                layouts.append(([a, b, c], 0))
                # ring: g2 sits before the origin, g0 after it: the g2→g0 gap crosses the origin
                length = c[1] + g01 + a[0]
                layouts.append(([[0, 10], [10 + g01, 20 + g01], [20 + g01 + g12, 30 + g01 + g12]],
                                30 + g01 + g12 + g01))
        total = 0
        combos = list(itertools.product(range(len(per_gene)), repeat=3))
        for cond in conds:
            # exhaustive (every hit assignment x every layout x every focus gene) for the conditions with a
            # single atom; sampled for the two-atom combinations (the full product would be 1.6e7 cases)
            single = len(cond[2]) == 1 and cond[2][0][0] != "conj" and cond[2][0][0] != "group"
            exhaustive = full and single
            hit_sets = combos if exhaustive else rng.sample(combos, 12 if not full else 8)
            for hs in hit_sets:
                lays = layouts if exhaustive else rng.sample(layouts, 3 if not full else 6)
                for parts, circ in lays:
                    genes = [{"n": i, "loc": {"c": False, "parts": [[p[0], p[1], 1]]},
                              "hits": per_gene[hs[i]], "hasres": bool(per_gene[hs[i]])} for i, p in enumerate(parts)]
                    for g in ((0, 1, 2) if exhaustive else (rng.randrange(3),)):
                        total += 1
                        yield {"kind": "detect", "genes": genes, "cutoff": cutoff, "circ": circ, "g": g, "cond": cond}
        self.exhaustive_done = full
        self.extra_coverage = {"small_scope_cases": total, "small_scope_conditions": len(conds)}

    # ------------------------------------------------------------------ implementation adapter
    def run_impl(self, case: Dict[str, Any]) -> Dict[str, Any]:
        from antismash.common.hmm_rule_parser import rule_parser as rp
        from antismash.common.hmm_rule_parser.structures import ProfileHit
        feats = {}
        results = {}
        for g in case["genes"]:
            name = f"g{g['n']}"
            feats[name] = common.dummy_cds(g["loc"], name)
            if g["hasres"]:
                results[name] = [ProfileHit(name, p, float(s), 1e-10) for p, s in g["hits"]]
        cond = common.build_cond(case["cond"])
        cds = f"g{case['g']}"
        circ = case["circ"] if case["circ"] else None
        if case.get("via") == "apply":
            out = self.run_apply(case, cond, cds)
            if out is not None:
                return out
        try:
            try:
                top = cond if type(cond) is rp.Conditions else rp.Conditions(False, [cond])
                rule = rp.DetectionRule("r", "cat", case["cutoff"], 0, top)
                if case.get("warm"):
                    try:
                        rule.detect(cds, feats, self._rotated(results, list(feats)), circular_origin=circ)
                    except Exception:  # pylint: disable=broad-except
                        pass
                res = rule.detect(cds, feats, results, circular_origin=circ)
            except ValueError as exc:
                if "positive requirement" not in str(exc):
                    raise
                res = cond.get_satisfied(rp.Details(cds, feats, results, case["cutoff"], circ))
        except Exception as exc:  # pylint: disable=broad-except
            return {"err": err_kind(exc), "msg": str(exc)[:200]}
        anc = sorted([int(k[1:]), p] for k, ps in res.ancillary_hits.items() for p in ps)
        return {"met": bool(res.met), "reasons": sorted(res.matches), "anc": anc}

    @staticmethod
    def _rotated(results: Dict[str, Any], names: List[str]) -> Dict[str, Any]:
        """the same genes with every gene's hit list moved to the next gene (hits re-labelled with their new gene)"""
        import copy
        out: Dict[str, Any] = {}
        for i, name in enumerate(names):
            src = names[(i + 1) % len(names)]
            if src in results:
                moved = []
                for hit in results[src]:
                    clone = copy.copy(hit)
                    clone.hit_id = name
                    moved.append(clone)
                out[name] = moved
        return out

    def run_apply(self, case: Dict[str, Any], cond: Any, cds: str) -> Optional[Dict[str, Any]]:
        """the same question asked the way a run asks it: apply_cluster_rules over a real Record with hits made by
        HMMerHit.from_hsp; what rule.detect returned for the focus gene — evaluated in the neighbourhood the
        real code collected — is the observation.  None when the rule cannot be built (no positive requirement)."""
        import types
        from antismash.common.hmm_rule_parser import cluster_prediction, rule_parser as rp
        from antismash.common.hmm_rule_parser.structures import HMMerHit
        from antismash.common.secmet.test.helpers import DummyCDS, DummyRecord
        try:
            top = cond if type(cond) is rp.Conditions else rp.Conditions(False, [cond])
            rule = rp.DetectionRule("r", "cat", case["cutoff"], 0, top)
        except ValueError as exc:
            if "positive requirement" not in str(exc):
                return {"err": err_kind(exc), "msg": str(exc)[:200]}
            return None
        # the tree a run evaluates is the one the parser builds from the rule text: print the rule and read it back
        # with the real Parser (which refuses a few shapes, e.g. cds(x) with one identifier: keep the hand-built tree)
        try:
            text = f"RULE r CATEGORY cat CUTOFF 1 NEIGHBOURHOOD 0 CONDITIONS {top}"
            parsed = rp.Parser(text, set(self.PROFS), {"cat"}).rules[0]
            parsed.cutoff = case["cutoff"]
            rule = parsed
        except Exception:  # pylint: disable=broad-except
            pass
        seen: Dict[str, Any] = {}
        original = rp.DetectionRule.detect

        def spy(this: Any, cds_name: str, *args: Any, **kwargs: Any) -> Any:
            result = original(this, cds_name, *args, **kwargs)
            seen[cds_name] = result
            return result
        try:
            circular = bool(case["circ"])
            record = DummyRecord(seq="A" * (case["circ"] if circular else case["len"]), circular=circular)
            results: Dict[str, Any] = {}
            for g in case["genes"]:
                name = f"g{g['n']}"
                record.add_cds_feature(DummyCDS(location=common.make_location(g["loc"]), locus_tag=name,
                                                translation="M" * 3))
                if g["hasres"]:
                    results[name] = [HMMerHit.from_hsp(types.SimpleNamespace(
                        hit_id=name, query_id=p, query_start=1, query_end=9, evalue=1e-10, bitscore=float(sc)), 5)
                        for p, sc in g["hits"]]
            if case.get("warm"):
                try:
                    cluster_prediction.apply_cluster_rules(record, self._rotated(results, [f"g{g['n']}" for g in case["genes"]]), [rule])
                except Exception:  # pylint: disable=broad-except
                    pass
            rp.DetectionRule.detect = spy     # type: ignore
            try:
                by_cds, by_rule = cluster_prediction.apply_cluster_rules(record, results, [rule])
            finally:
                rp.DetectionRule.detect = original   # type: ignore
        except Exception as exc:  # pylint: disable=broad-except
            return {"err": err_kind(exc), "msg": str(exc)[:200]}
        if cds not in seen:
            return {"err": "not-evaluated", "msg": f"{cds} has results but apply_cluster_rules never evaluated it"}
        res = seen[cds]
        anc = sorted([int(k[1:]), p] for k, ps in res.ancillary_hits.items() for p in ps)
        reported = bool(res.met and res.matches)
        # what is handed on must contain what was found for the gene (a gene that does not anchor may still be
        # listed, as an ancillary gene of a neighbour)
        if reported and not (cds in by_rule.get("r", set()) and set(res.matches) <= by_cds.get(cds, {}).get("r", set())):
            return {"err": "report-differs", "msg": f"detect gave {res.met}/{sorted(res.matches)}, reported {dict(by_rule)}"}
        return {"met": bool(res.met), "reasons": sorted(res.matches), "anc": anc}

    def driver_line(self, case: Dict[str, Any], obs: Dict[str, Any]) -> Optional[Dict[str, Any]]:
        genes = [{"n": g["n"], "loc": g["loc"], "hasres": g["hasres"],
                  "hits": [[p, int(round(2 * s))] for p, s in g["hits"]]} for g in case["genes"]]
        return {"genes": genes, "cutoff": case["cutoff"], "circ": case["circ"], "g": case["g"],
                "cond": case["cond"], "impl_anc": obs.get("anc", [])}

    def judge(self, case: Dict[str, Any], obs: Dict[str, Any], drv: Optional[Dict[str, Any]]) -> Judgement:
        assert drv is not None
        if "err" in drv:
            return Judgement(False, True, detail=f"driver error {drv['err']}")
        if "err" in obs:
            return Judgement(False, False, detail=f"implementation raised {obs['err']}: {obs.get('msg')}")
        model, spec, scope = drv["model"], drv["spec"], drv["scope"]
        corr = (obs["met"] == model["met"] and obs["reasons"] == model["reasons"] and obs["anc"] == model["anc"])
        anchors = obs["met"] and bool(obs["reasons"])
        spec_ok = True
        detail = ""
        if scope:
            spec_ok = (obs["met"] == spec["sem"] and obs["reasons"] == spec["reasons"]
                       and anchors == spec["anchors"] and spec["anc_sound"])
            if not spec_ok:
                detail = f"documented meaning {spec} vs implementation {obs}"
        if not corr and not detail:
            detail = f"model {model} vs implementation {obs}"
        depth = common.cond_depth(case["cond"])
        tags = ("met" if obs["met"] else "unmet", "anchors" if anchors else "no-anchor",
                "circular" if case["circ"] else "linear", f"depth{min(depth, 6)}",
                "in-scope" if scope else "out-of-scope", "anc" if obs["anc"] else "no-anc",
                "via-apply" if case.get("via") == "apply" else "via-detect")
        return Judgement(corr, spec_ok, in_scope=bool(scope), nontrivial=(drv["near"] > 0 and depth >= 2),
                         tags=tags, detail=detail)

    def shrink(self, case: Dict[str, Any]) -> Iterator[Dict[str, Any]]:
        # drop a gene (not the focus), drop a hit, replace the condition by a sub-condition
        for i, g in enumerate(case["genes"]):
            if g["n"] != case["g"]:
                yield dict(case, genes=case["genes"][:i] + case["genes"][i + 1:])
        for i, g in enumerate(case["genes"]):
            for k in range(len(g["hits"])):
                g2 = dict(g, hits=g["hits"][:k] + g["hits"][k + 1:])
                yield dict(case, genes=case["genes"][:i] + [g2] + case["genes"][i + 1:])
        for sub in common.cond_children(case["cond"]):
            yield dict(case, cond=sub)
        for red in common.cond_drop_operand(case["cond"]):
            yield dict(case, cond=red)


PROP = C01
