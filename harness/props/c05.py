"""C05 — candidate clusters group protoclusters by the documented kinds.

Implementation under test: `create_candidates_from_protoclusters` (formation.py, all helpers) through real
`Protocluster` / `CandidateCluster` objects, plus `Record.create_candidate_clusters` on a real record for
a share of the cases.  Every case is also run with the protoclusters supplied in other orders (all
permutations up to 4 protoclusters, seeded shuffles above) and the results are compared as sets.
"""
from __future__ import annotations

import itertools
import json
import random
from typing import Any, Dict, Iterator, List, Optional, Tuple

from ..framework import Judgement, Property, err_kind
from . import common

F = "antismash/common/secmet/features/candidate_cluster/formation.py"
GENES = [0, 1, 2]
NAMES = ["pd", "pa", "pc", "ph", "pb", "pg", "pe", "pf", "pk", "pi", "pj", "pl"]   # product names, not in index order


def name_products(ps: List[Dict[str, Any]], rng: Optional[random.Random] = None) -> List[Dict[str, Any]]:
    """distinct product names, unrelated to the position in the input"""
    names = rng.sample(NAMES, len(ps)) if rng is not None else NAMES[:len(ps)]
    return [dict(p, product=name) for p, name in zip(ps, names)]


def _factorial(n: int) -> int:
    out = 1
    for i in range(2, n + 1):
        out *= i
    return out


def simple(lo: int, hi: int) -> Dict[str, Any]:
    return {"c": False, "parts": [[lo, hi, 1]]}


def crossing(lo: int, length: int, hi: int) -> Dict[str, Any]:
    return {"c": True, "parts": [[lo, length, 1], [0, hi, 1]]}


def area(lo: int, hi: int, length: int, circular: bool) -> Optional[Dict[str, Any]]:
    """the extent [lo, hi) of a core extended by a neighbourhood, clipped (linear) or wrapped (circular)"""
    if not circular:
        return simple(max(0, lo), min(length, hi))
    if hi - lo >= length:
        return simple(0, length)
    if lo < 0:
        return crossing(lo + length, length, hi)
    if hi > length:
        return crossing(lo, length, hi - length)
    return simple(lo, hi)


def proto(core: Dict[str, Any], loc: Dict[str, Any], defs: List[int]) -> Dict[str, Any]:
    return {"core": core, "loc": loc, "defs": sorted(set(defs))}


class C05(Property):
    ID = "C05"
    SHAPE = [(F, q) for q in (
        "create_candidates_from_protoclusters", "_sorted_protoclusters", "_merge_sets", "_find_hybrids", "_find_interleaved_candidates",
        "_find_cross_origin_interleaved", "_find_interleaved", "_find_neighbouring_candidates",
        "_find_neighbouring_protoclusters", "_find_neighbouring")] + [
        ("antismash/common/secmet/features/candidate_cluster/structures.py", "CandidateCluster.__init__"),
        ("antismash/common/secmet/features/candidate_cluster/structures.py", "CandidateCluster.core_location"),
        ("antismash/common/secmet/features/candidate_cluster/structures.py", "CandidateCluster.core_crosses_origin"),
        ("antismash/common/secmet/features/candidate_cluster/structures.py", "CandidateClusterKind"),
        ("antismash/common/secmet/features/cdscollection.py", "CDSCollection.__init__"),
        ("antismash/common/secmet/features/cdscollection.py", "CDSCollection.__lt__"),
        ("antismash/common/secmet/features/cdscollection.py", "CDSCollection.__contains__"),
        ("antismash/common/secmet/features/cdscollection.py", "CDSCollection.crosses_origin"),
        ("antismash/common/secmet/features/cdscollection.py", "CoredCollectionMixin.core_start"),
        ("antismash/common/secmet/features/protocluster.py", "Protocluster.__init__"),
        ("antismash/common/secmet/features/protocluster.py", "Protocluster.definition_cdses"),
        ("antismash/common/secmet/features/protocluster.py", "Protocluster.add_cds"),
        ("antismash/common/secmet/features/protocluster.py", "SideloadedProtocluster.__init__"),
        ("antismash/common/secmet/features/protocluster.py", "SideloadedProtocluster.definition_cdses"),
        ("antismash/common/secmet/features/cdscollection.py", "CDSCollection.add_cds"),
        ("antismash/common/secmet/record.py", "Record.add_protocluster"),
        ("antismash/common/secmet/qualifiers/gene_functions.py", "GeneFunctionAnnotations.add"),
        ("antismash/common/secmet/qualifiers/gene_functions.py", "GeneFunctionAnnotations.get_by_function"),
        ("antismash/common/secmet/features/feature.py", "Feature.start"),
        ("antismash/common/secmet/features/feature.py", "Feature.end"),
        ("antismash/common/secmet/features/feature.py", "Feature.overlaps_with"),
        ("antismash/common/secmet/features/candidate_cluster/structures.py", "CandidateCluster.kind"),
        ("antismash/common/secmet/features/candidate_cluster/structures.py", "CandidateCluster.protoclusters"),
        ("antismash/common/secmet/features/protocluster.py", "Protocluster.core_location"),
        ("antismash/common/secmet/features/feature.py", "Feature.__init__"),
        ("antismash/common/secmet/features/feature.py", "Feature.is_contained_by"),
        ("antismash/common/secmet/features/feature.py", "Feature.crosses_origin"),
        ("antismash/common/secmet/locations.py", "_LocationMixin.crosses_origin"),
        ("antismash/common/secmet/locations.py", "_LocationMixin.contains"),
        ("antismash/common/secmet/locations.py", "location_bridges_origin"),
        ("antismash/common/secmet/locations.py", "split_origin_bridging_location"),
        ("antismash/common/secmet/record.py", "Record.create_candidate_clusters"),
        ("antismash/common/secmet/locations.py", "connect_locations"),
        ("antismash/common/secmet/locations.py", "locations_overlap"),
        ("antismash/common/secmet/locations.py", "location_contains_other"),
    ]
    RULE = ("multisets of 1..8 protoclusters (core, extent = core + neighbourhood clipped/wrapped, defining genes) on linear "
            "and circular records of length 12..10^6: random layouts with adjacency, 1-base overlaps, nesting, identical "
            "coordinates, gene-sharing chains, origin-spanning cores / neighbourhoods / whole-record extents; directed "
            "families for every repaired defect (chains needing several merge passes, single-single-candidate chains, "
            "long candidates sorting far from what they reach, equal-coordinate groups of one kind, origin-spanning "
            "hybrids); a `record` family on real records: CDS features with CORE gene functions of one or two products (names in substring relation: NRPS / NRPS-like, terpene / terpene-precursor, T1PKS / PKS), rule-"
            "detected protoclusters over them, sideloaded protoclusters (also with the product of a detected one) around their "
            "core genes; exhaustive small scope in the thorough/deep tier (record length 12, cores on a 2-grid, "
            "neighbourhoods {0,2,6}, genes subsets of {x,y}: every multiset of <= 3 protoclusters, sampled 4); every case "
            "is re-run with the protoclusters supplied in every order (<= 4) or in seeded shuffles and must give the identical ordered result; non-trivial = at least "
            "one candidate of a kind other than single; distinct by canonical input")
    TRUSTED = ["Python set/dict semantics (identity sets of protoclusters); the iteration order of a set is arbitrary, the model "
               "uses insertion order; after fix D507 no observable depends on it (candidate order and member order are compared "
               "exactly, and `formation_perm_invariant` proves the model's ordered result independent of the input order)",
               "`sorted()` with CDSCollection.__lt__ is modelled as CPython's list.sort for fewer than 64 elements (count_run + "
               "binary insertion, proved to be a permutation); longer lists are outside the modelled domain",
               "all protocluster locations are forward-strand areas (one part, or two parts meeting at the origin)",
               "definition CDSs: the `record` family builds real Protocluster / SideloadedProtocluster objects on a real record with "
               "real CDS features and CORE gene functions (Record.add_protocluster -> add_cds fills the sets) and compares the "
               "`definition_cdses` property of every protocluster with the model's `mkProto`; the other families set the stored "
               "set of rule-detected protoclusters directly (gene numbers)",
               "`CDSCollection.parent` setter (the containment assert it runs is modelled in mkCand / buildOne, the setter itself "
               "is not in SHAPE because the guard cannot address the second `def parent`)"]

    # ------------------------------------------------------------------ generators
    def rand_proto(self, rng: random.Random, length: int, circular: bool, others: List[Dict[str, Any]]) -> Dict[str, Any]:
        if others and rng.random() < 0.15:      # identical coordinates, other genes
            q = rng.choice(others)
            return proto(q["core"], q["loc"], self.rand_defs(rng))
        unit = max(1, length // 24)
        nbs = [0, 2 * unit, 6 * unit, 12 * unit]
        if circular and rng.random() < 0.25 and length >= 12:
            k = max(1, min(6 * unit, length // 3))
            a = length - rng.randrange(1, k + 1)
            b = rng.randrange(1, k + 1)
            nb = rng.choice(nbs[:3])
            nb = max(0, min(nb, (a - b - 1) // 2))
            return proto(crossing(a, length, b), crossing(a - nb, length, b + nb), self.rand_defs(rng))
        if others and rng.random() < 0.3:       # boundary-directed: touch / overlap by one base / nest
            q = rng.choice(others)
            lo, hi = q["core"]["parts"][-1][0], q["core"]["parts"][-1][1]
            qlo, qhi = q["loc"]["parts"][-1][0], q["loc"]["parts"][-1][1]
            a = rng.choice([hi, hi - 1, qhi, qhi - 1, lo, lo + 1, max(0, qlo - unit), qlo])
            a = max(0, min(a, length - 1))
        else:
            a = rng.randrange(0, length)
        b = min(length, a + rng.choice([1, 2, 3, 4, 6, 10]) * unit)
        nb = rng.choice(nbs)
        loc = area(a - nb, b + nb, length, circular)
        return proto(simple(a, b), loc, self.rand_defs(rng))

    @staticmethod
    def rand_defs(rng: random.Random) -> List[int]:
        if rng.random() < 0.4:
            return []
        return [rng.choice(GENES) for _ in range(rng.choice([1, 1, 2]))]

    def random_case(self, rng: random.Random, nmax: int = 8) -> Dict[str, Any]:
        length = rng.choice([12, 24, 24, 40, 40, 100, 1000, 10**6])
        circular = rng.random() < 0.5
        n = rng.choice([1, 2, 2, 3, 3, 3, 4, 4, 4, 5, 5, 6, 7, 8])
        n = min(n, nmax)
        ps: List[Dict[str, Any]] = []
        for _ in range(n):
            ps.append(self.rand_proto(rng, length, circular, ps))
        return {"wrap": length if circular else 0, "len": length, "ps": name_products(ps, rng)}

    def directed_case(self, rng: random.Random) -> Dict[str, Any]:
        """layouts aimed at the repaired defects (D16, D19, D501-D506)"""
        kind = rng.choice(["chain", "single-chain", "window", "same-kind", "cross-hybrid", "cross-single", "cross-span",
                           "nested-cands", "nested-cands", "coords-nonmember", "twin-singles"])
        length = rng.choice([100, 200, 1000])
        circular = kind.startswith("cross") or rng.random() < 0.3
        u = length // 100
        ps: List[Dict[str, Any]] = []

        def add(a: int, b: int, nb: int, defs: List[int]) -> None:
            a = max(0, min(a, 98))          # keep the core inside the record
            b = max(a + 1, min(b, 100))
            ps.append(proto(simple(a * u, b * u), area((a - nb) * u, (b + nb) * u, length, circular), defs))

        def add_cross(a: int, b: int, nb: int, defs: List[int]) -> None:
            ps.append(proto(crossing(a * u, length, b * u), crossing((a - nb) * u, length, (b + nb) * u), defs))
        if kind == "chain":
            # gene-sharing chains whose links are discovered in an unhelpful order
            k = rng.choice([3, 4, 5])
            pos = rng.sample(range(5, 95, 6), k + 1)
            links = list(range(k))
            rng.shuffle(links)
            genes: List[List[int]] = [[] for _ in range(k + 1)]
            for g, i in enumerate(links):
                genes[i].append(10 + g)
                genes[i + 1].append(10 + g)
            for p, gs in zip(pos, genes):
                add(p, p + 2, rng.choice([0, 1]), gs)
        elif kind == "single-chain":
            # hybrid/interleaved candidate - single - single (- single), linked by extents only
            a = rng.randrange(5, 30)
            add(a, a + 3, 2, [1])
            add(a + 6, a + 9, 2, [1] if rng.random() < 0.7 else [])
            if rng.random() < 0.5:
                ps[-1]["core"] = simple((a + 2) * u, (a + 5) * u)
                ps[-1]["loc"] = area(a * u, (a + 7) * u, length, circular)
            x = a + 12
            for _ in range(rng.choice([2, 3])):
                nb = rng.choice([2, 3])
                add(x, x + 2, nb, [])
                x += 2 + 2 * nb - rng.choice([1, 0, -1])
        elif kind == "window":
            # a long candidate that sorts first, short ones in between, a protocluster near its far end
            add(5, 7, 1, [1])
            add(88, 90, 1, [1])
            for s in rng.sample(range(12, 60, 8), rng.choice([1, 2, 3])):
                add(s, s + 2, 0, [20 + s])
                add(s + 3, s + 5, 0, [20 + s])
            t = rng.randrange(62, 86)
            add(t, t + 2, rng.choice([0, 2]), [])
            if rng.random() < 0.5:
                add(t + 1, t + 3, rng.choice([0, 2]), [])
        elif kind == "same-kind":
            # two groups of the same kind with the same coordinates
            a, b = rng.randrange(5, 20), rng.randrange(60, 90)
            g1, g2 = ([1], [2]) if rng.random() < 0.6 else ([], [])
            nb = rng.choice([0, 2])
            add(a, a + 3, nb, g1)
            add(a, a + 3, nb, g2)
            add(b, b + 3, nb, g1)
            add(b, b + 3, nb, g2)
            if not g1:      # interleaved variant: overlapping cores instead of genes
                ps[2]["core"] = simple((a + 1) * u, (a + 4) * u)
                ps[2]["loc"] = area((a - nb) * u, (b + 3 + nb) * u, length, circular)
                ps[3]["core"] = simple((b - 1) * u, (b + 2) * u)
                ps[3]["loc"] = area((a - nb) * u, (b + 3 + nb) * u, length, circular)
        elif kind == "cross-hybrid":
            # origin-spanning hybrids, with members whose cores do / do not span the origin themselves
            add_cross(rng.randrange(94, 99), rng.randrange(1, 5), rng.choice([0, 2]), [1])
            if rng.random() < 0.6:
                add_cross(rng.randrange(94, 99), rng.randrange(1, 5), rng.choice([0, 2]), [1] if rng.random() < 0.7 else [])
            a = rng.randrange(3, 20)
            add(a, a + 3, rng.choice([0, 2, 6]), [1])
            if rng.random() < 0.6:
                b = rng.randrange(80, 95)
                add(b, b + 2, rng.choice([0, 2, 6]), [1] if rng.random() < 0.5 else [])
            c = rng.randrange(30, 70)
            add(c, c + 3, rng.choice([0, 2]), [])
        elif kind == "cross-single":
            # an origin-spanning protocluster next to others (D19)
            add_cross(rng.randrange(94, 99), rng.randrange(1, 5), rng.choice([2, 6, 10]), [])
            a = rng.randrange(6, 18)
            add(a, a + 2, rng.choice([0, 1, 6]), [])
            if rng.random() < 0.5:
                # an unrelated protocluster in between: it sorts right after the origin-spanning one
                c = rng.randrange(30, 60)
                add(c, c + 2, rng.choice([0, 1]), [])
            if rng.random() < 0.6:
                b = rng.randrange(82, 93)
                add(b, b + 2, rng.choice([0, 1, 6]), [])
                if rng.random() < 0.5:      # … and a later one, so that the one above is not the last in sorted order
                    b2 = min(96, b + rng.choice([1, 2, 3]))
                    add(b2, b2 + 2, rng.choice([0, 1, 2]), [])
        elif kind == "nested-cands":
            # several two-member groups (shared gene or overlapping cores) with small cores and wide, nesting
            # extents: candidates that are not neighbours in sorted order can still be related
            k = rng.choice([2, 3, 3, 4])
            if rng.random() < 0.5:
                # outer group (core in the middle, wide extent), a group left of its core but inside its extent,
                # a group whose core meets the outer core: related candidates that are not adjacent when sorted
                k = 0
                m = rng.randrange(40, 48)
                far = 30
                for gi, (c0, c1, nb) in enumerate([(m, m + 2, far), (m + 3, m + 5, far),
                                                   (m - 26, m - 24, 2), (m - 20, m - 18, 2),
                                                   (m + rng.choice([1, 4, 6]), m + 8, 3), (m + 10, m + 12, rng.choice([3, 26])),
                                                   (m + 44, m + 46, 1), (m + 48, m + 50, 1)]):
                    add(c0, c1, nb, [40 + gi // 2])
            for gi in range(k):
                a = rng.randrange(8, 80)
                w = rng.choice([2, 4, 10, 30])
                nb = rng.choice([0, 2, 8, 20, 40])
                by_gene = rng.random() < 0.6
                genes = [30 + gi] if by_gene else []
                add(a, a + 2, nb, genes)
                if by_gene:
                    b = min(96, a + w)
                    add(b, b + 2, rng.choice([0, 2, nb]), genes)
                else:
                    add(a + 1, a + 3 + rng.choice([0, w]), rng.choice([0, 2, nb]), genes)
            for _ in range(rng.choice([0, 1, 2])):
                a = rng.randrange(5, 90)
                add(a, a + rng.choice([1, 3]), rng.choice([0, 2, 8]), [])
        elif kind == "twin-singles":
            # two or three protoclusters with identical extents that stay singles (cores apart, no genes), plus a
            # neighbour that widens the neighbouring candidate: equal-coordinate singles in the result (D507)
            a = rng.randrange(10, 50)
            w = rng.choice([12, 20])
            k = rng.choice([2, 2, 3])
            for i in range(k):
                c0 = a + 2 + 3 * i
                ps.append(proto(simple(c0 * u, (c0 + 2) * u), area(a * u, (a + w) * u, length, circular), []))
            q = a + w + rng.choice([-2, -1])
            add(q, q + 3, rng.choice([0, 2]), [])
            if rng.random() < 0.4:
                ps[0] = dict(ps[0], defs=[5])
                add(a + w + 10, a + w + 12, 0, [5])
        elif kind == "coords-nonmember":
            # a protocluster with exactly the coordinates of a candidate it is not a member of
            a = rng.randrange(10, 40)
            b = a + rng.choice([6, 10, 20])
            nb = rng.choice([2, 3, 5])
            if rng.random() < 0.5:
                add(a, a + 2, nb, [1])
                add(b, b + 2, nb, [1])
            else:
                add(a, a + 3, nb, [])
                add(a + 2, b + 2, nb, [])
                ps[-2]["loc"] = area((a - nb) * u, (b + 2 + nb) * u, length, circular) if rng.random() < 0.3 else ps[-2]["loc"]
            mid = rng.choice([a - nb, a - 1, b + 2, (a + b) // 2])   # mostly outside the group's combined core
            ps.append(proto(simple(mid * u, mid * u + 1), area((a - nb) * u, (b + 2 + nb) * u, length, circular),
                            [] if rng.random() < 0.8 else [1]))
            if rng.random() < 0.8:
                q = b + 2 + nb + rng.choice([-1, 0, 1, 3])
                add(q, q + 2, rng.choice([0, 2]), [])
            if rng.random() < 0.3:
                q = a - nb - rng.choice([1, 2, 4])
                add(max(0, q), max(1, q + 2), rng.choice([0, 2]), [])
        else:
            # a hybrid whose combined core spans the origin although no member's core does
            a, b = rng.randrange(90, 98), rng.randrange(2, 10)
            add(a, a + 2, rng.choice([0, 1]), [1])
            add(b, b + 2, rng.choice([0, 1]), [1])
            add(rng.randrange(30, 60), rng.randrange(61, 65), 1, [] if rng.random() < 0.7 else [1])
            if rng.random() < 0.5:
                add(b + 1, b + 4, 0, [])
        rng.shuffle(ps)
        return {"wrap": length if circular else 0, "len": length, "ps": name_products(ps[:len(NAMES)], rng)}

    def record_case(self, rng: random.Random) -> Dict[str, Any]:
        """protoclusters on a real record: CDS features with CORE gene functions decide the defining genes through
           `add_cds`; rule-detected and sideloaded protoclusters, the latter also with the product of a detected one"""
        length = rng.choice([100, 200, 1000])
        u = length // 100
        circular = rng.random() < 0.3
        # product names in a substring relation: a CORE gene of one must not define a protocluster of the other
        products = rng.choice([["NRPS", "NRPS-like", "terpene", "terpene-precursor"],
                               ["T1PKS", "PKS", "NRPS", "NRPS-like"],
                               ["terpene", "terpene-precursor", "PKS", "T1PKS"],
                               ["NRPS", "NRPS-like", "NRPS", "NRPS-like"]])
        genes: List[Dict[str, Any]] = []
        ps: List[Dict[str, Any]] = []
        used_keys = set()

        def add_gene(a: int, b: int, prods: List[str]) -> None:
            a = max(0, min(a, 98))
            b = max(a + 1, min(b, 100))
            for g in genes:     # one CDS per location
                if g["loc"] == simple(a * u, b * u):
                    g["products"] = sorted(set(g["products"] + prods))
                    return
            genes.append({"loc": simple(a * u, b * u), "products": sorted(set(prods))})

        def add_proto(a: int, b: int, nb: int, product: str, sideloaded: bool) -> None:
            a = max(0, min(a, 98))
            b = max(a + 1, min(b, 100))
            key = (product, a, b)
            if key in used_keys:
                return
            used_keys.add(key)
            ps.append({"core": simple(a * u, b * u), "loc": area((a - nb) * u, (b + nb) * u, length, circular),
                       "product": product, "sideloaded": sideloaded})
        if circular and rng.random() < 0.6:
            # a protocluster whose CORE spans the origin, with core genes on either side, and further genes of the same
            # product inside its neighbourhood but outside its core (they belong to a neighbouring protocluster)
            product = rng.choice(products)
            a, b = rng.randrange(92, 98), rng.randrange(2, 8)
            nb = rng.choice([6, 10, 14])
            key = (product, a, b)
            used_keys.add(key)
            ps.append({"core": crossing(a * u, length, b * u), "loc": crossing((a - nb) * u, length, (b + nb) * u),
                       "product": product, "sideloaded": rng.random() < 0.15})
            add_gene(a, a + 2, [product])
            if rng.random() < 0.6:
                add_gene(0, b, [product])
            for side in rng.sample(["after", "before"], rng.choice([1, 2])):
                q = b + rng.choice([1, 2, 4]) if side == "after" else a - rng.choice([3, 4, 6])
                other = rng.choice([product, product, rng.choice(products)])
                add_gene(q, q + 2, [other])
                if rng.random() < 0.8:
                    add_proto(q - rng.choice([0, 1]), q + 2 + rng.choice([0, 1]), rng.choice([0, 2, 5]), other, False)
        k = rng.choice([1, 2, 2, 3])
        pos = sorted(rng.sample(range(16, 80, 4), k))
        for a in pos:
            product = rng.choice(products)
            w = rng.choice([4, 8, 14])
            add_proto(a, a + w, rng.choice([0, 2, 6]), product, False)
            # its CORE genes, sometimes also carrying another product (a shared defining gene)
            other = rng.choice(products)
            add_gene(a, a + 2, [product] + ([other] if rng.random() < 0.35 else []))
            if rng.random() < 0.6:
                add_gene(a + w - 2, a + w, [product])
            if rng.random() < 0.6:      # a second rule over (part of) the same genes
                add_proto(a + rng.choice([0, 0, 1]), a + w - rng.choice([0, 1, 3]), rng.choice([0, 2, 6]), other, False)
            if rng.random() < 0.7:      # a sideloaded annotation around one of the core genes
                sp = rng.choice([product, product, other, "external"])
                add_proto(a - rng.choice([0, 1, 2]), a + rng.choice([2, 3, w + 1]), rng.choice([0, 2, 5]), sp, True)
        if rng.random() < 0.3:
            g = rng.randrange(5, 90)
            add_gene(g, g + 2, [rng.choice(products)])
        if rng.random() < 0.3:
            a = rng.randrange(5, 90)
            add_proto(a, a + 3, rng.choice([0, 3]), rng.choice(products + ["external"]), rng.random() < 0.5)
        order = list(range(len(ps)))
        rng.shuffle(order)
        return {"wrap": length if circular else 0, "len": length, "genes": genes, "ps": [ps[i] for i in order],
                "record": True}

    def small_protos(self, circular: bool) -> List[Dict[str, Any]]:
        length = 12
        out = []
        for defs in ([], [0], [1], [0, 1]):
            for nb in (0, 2, 6):
                for a in range(0, length, 2):
                    out.append(proto(simple(a, a + 2), area(a - nb, a + 2 + nb, length, circular), defs))
                if circular:
                    nbc = min(nb, 2)
                    out.append(proto(crossing(10, length, 2), crossing(10 - nbc, length, 2 + nbc), defs))
                    out.append(proto(crossing(11, length, 1), crossing(11 - nbc, length, 1 + nbc), defs))
        # de-duplicate (different neighbourhoods can clip to the same extent)
        seen, uniq = set(), []
        for p in out:
            k = json.dumps(p, sort_keys=True)
            if k not in seen:
                seen.add(k)
                uniq.append(p)
        return uniq

    def small_scope(self, rng: random.Random, full: bool) -> Iterator[Dict[str, Any]]:
        total = 0
        for circular in (False, True):
            protos = self.small_protos(circular)
            wrap = 12 if circular else 0
            for n in (1, 2, 3):
                combos = itertools.combinations_with_replacement(range(len(protos)), n)
                for combo in combos:
                    if n == 3 and not full and rng.random() > 0.008:
                        continue
                    if n == 2 and not full and rng.random() > 0.5:
                        continue
                    total += 1
                    yield {"wrap": wrap, "len": 12, "ps": name_products([protos[i] for i in combo])}
            for _ in range(2000 if full else 200):
                combo = sorted(rng.randrange(len(protos)) for _ in range(4))
                total += 1
                yield {"wrap": wrap, "len": 12, "ps": name_products([protos[i] for i in combo])}
        self.exhaustive_done = full
        self.extra_coverage = {"small_scope_cases": total, "small_scope_record_length": 12,
                               "small_scope_complete_up_to": 3 if full else 1}

    def cases(self, rng: random.Random, tier: str, deep: bool) -> Iterator[Dict[str, Any]]:
        n_random = 8000 if deep else 1400
        n_directed = 6000 if deep else 800

        def with_perms(case: Dict[str, Any], small: bool = False) -> Dict[str, Any]:
            n = len(case["ps"])
            if small:       # exhaustive family: every pair in both orders, larger ones in a few orders
                case["perms"] = "all" if n <= 2 else (1 if deep else 2)
            elif deep:
                case["perms"] = "all" if n <= 4 else 10
            else:
                case["perms"] = "all" if n <= 3 else 6
            return case
        for _ in range(2500 if deep else 350):
            yield with_perms(self.record_case(rng))
        for _ in range(n_directed):
            yield with_perms(self.directed_case(rng))
        for _ in range(n_random):
            yield with_perms(self.random_case(rng))
        for case in self.small_scope(rng, full=(deep and tier == "thorough")):
            yield with_perms(case, small=True)

    # ------------------------------------------------------------------ implementation adapter
    _cds: Dict[int, Any] = {}

    def gene(self, g: int) -> Any:
        if g not in self._cds:
            self._cds[g] = common.dummy_cds(simple(0, 3), f"gene{g}")
        return self._cds[g]

    def build(self, case: Dict[str, Any], order: Optional[List[int]] = None) -> List[Any]:
        from antismash.common.secmet.features import Protocluster
        if "genes" in case:
            return self.build_on_record(case, order if order is not None else list(range(len(case["ps"]))))
        out = []
        for i, p in enumerate(case["ps"]):
            pc = Protocluster(common.make_location(p["core"]), common.make_location(p["loc"]), "tool",
                              p.get("product", f"p{i}"), 10, 10, "rule")
            pc._definition_cdses = {self.gene(g) for g in p["defs"]}  # pylint: disable=protected-access
            out.append(pc)
        return out

    def build_on_record(self, case: Dict[str, Any], order: List[int]) -> List[Any]:
        """real Protocluster / SideloadedProtocluster objects on a real record with real CDS features carrying
           CORE gene functions; `Record.add_protocluster` -> `add_cds` fills the definition sets"""
        from antismash.common.secmet.features import Protocluster
        from antismash.common.secmet.features.protocluster import SideloadedProtocluster
        from antismash.common.secmet.qualifiers.gene_functions import GeneFunction
        from antismash.common.secmet.test.helpers import DummyCDS, DummyRecord
        rec = DummyRecord(seq="A" * case["len"], circular=bool(case["wrap"]))
        self._genes_by_id = {}
        for gi, g in enumerate(case["genes"]):
            cds = DummyCDS(location=common.make_location(g["loc"]), locus_tag=f"gene{gi}")
            for product in g["products"]:
                cds.gene_functions.add(GeneFunction.CORE, "rule-based-clusters", "dummy", product)
            rec.add_cds_feature(cds)
            self._genes_by_id[id(cds)] = gi
        out = []
        for i, p in enumerate(case["ps"]):
            core, loc = common.make_location(p["core"]), common.make_location(p["loc"])
            product = p.get("product", f"p{i}")
            if p.get("sideloaded"):
                pc = SideloadedProtocluster(core, loc, "annotations", product, neighbourhood_range=1)
            else:
                pc = Protocluster(core, loc, "rule-based-clusters", product, 10, 10, "rule")
            out.append(pc)
        for i in order:
            rec.add_protocluster(out[i])
        self._last_record = rec
        return out

    @staticmethod
    def canon(cands: List[Any], index: Dict[int, int]) -> List[Any]:
        """candidates in the order returned, members in the order of `candidate.protoclusters`"""
        return [[str(c.kind), [index[id(p)] for p in c.protoclusters], common.location_json(c.location)] for c in cands]

    @staticmethod
    def as_set(cands: List[Any]) -> List[str]:
        return sorted(json.dumps([k, sorted(m), l]) for k, m, l in cands)

    def run_once(self, case: Dict[str, Any], order: List[int], via_record: bool = False) -> Any:
        from antismash.common.secmet.features.candidate_cluster.formation import create_candidates_from_protoclusters
        pcs = self.build(case, order)
        index = {id(p): i for i, p in enumerate(pcs)}
        wrap = case["wrap"] or None
        if via_record:
            from antismash.common.secmet.test.helpers import DummyRecord
            if "genes" in case:
                rec = self._last_record
            else:
                rec = DummyRecord(seq="A" * case["len"], circular=bool(case["wrap"]))
                for i in order:
                    rec.add_protocluster(pcs[i])
            rec.create_candidate_clusters()
            return self.canon(list(rec.get_candidate_clusters()), index)
        return self.canon(create_candidates_from_protoclusters([pcs[i] for i in order], circular_wrap_point=wrap), index)

    def orders(self, case: Dict[str, Any]) -> List[List[int]]:
        """the other supply orders to try: every permutation, or `perms` seeded shuffles (stored in the case)"""
        n = len(case["ps"])
        if n <= 1:
            return []
        perms = case.get("perms", "all" if n <= 4 else 20)
        if perms == "all" or (isinstance(perms, int) and perms >= _factorial(n) - 1):
            return [list(p) for p in itertools.permutations(range(n))][1:]
        prng = random.Random(json.dumps(case["ps"], sort_keys=True))
        return [prng.sample(range(n), n) for _ in range(int(perms))]

    def run_impl(self, case: Dict[str, Any]) -> Dict[str, Any]:
        n = len(case["ps"])
        try:
            base = self.run_once(case, list(range(n)))
        except Exception as exc:  # pylint: disable=broad-except
            return {"err": err_kind(exc), "msg": str(exc)[:200]}
        obs: Dict[str, Any] = {"cands": base, "perm_ok": True}
        if "genes" in case:
            # what the `definition_cdses` property of every protocluster returns (gene numbers)
            pcs = self.build(case)
            obs["defs"] = [sorted(self._genes_by_id[id(c)] for c in pc.definition_cdses) for pc in pcs]
        for order in self.orders(case):
            try:
                other = self.run_once(case, order)
            except Exception as exc:  # pylint: disable=broad-except
                other = {"err": err_kind(exc)}
            if other != base:
                obs.update(perm_ok=False, perm=order, perm_out=other)
                break
        # the record-level entry point must give the same candidates (it sorts protoclusters on insertion)
        if case.get("len", 10**9) <= 1000 and (len(json.dumps(case["ps"])) % 4 == 0 or case.get("record")):
            try:
                rec = self.run_once(case, list(range(n)), via_record=True)
            except Exception as exc:  # pylint: disable=broad-except
                rec = {"err": err_kind(exc), "msg": str(exc)[:200]}
            if isinstance(rec, dict) or self.as_set(rec) != self.as_set(base):
                obs.update(record_ok=False, record_out=rec)
            else:
                obs["record_ok"] = True
        return obs

    def driver_line(self, case: Dict[str, Any], obs: Dict[str, Any]) -> Optional[Dict[str, Any]]:
        line: Dict[str, Any] = {"wrap": case["wrap"], "ps": case["ps"]}
        if "genes" in case:
            line["genes"] = case["genes"]
        if "cands" in obs:
            line["impl"] = [{"kind": k, "members": m, "loc": l} for k, m, l in obs["cands"]]
        return line

    def judge(self, case: Dict[str, Any], obs: Dict[str, Any], drv: Optional[Dict[str, Any]]) -> Judgement:
        assert drv is not None
        if "err" in drv and "model" not in drv:
            return Judgement(False, True, detail=f"driver error {drv['err']}")
        scope = bool(drv["scope"])
        model = drv["model"]
        n = len(case["ps"])
        tags = ["circular" if case["wrap"] else "linear", f"n{min(n, 8)}", "in-scope" if scope else "out-of-scope"]
        if "err" in obs:
            corr = "err" in model and model["err"] == obs["err"].split(":")[0]
            detail = "" if corr else f"model {model} vs implementation {obs}"
            tags.append("err:" + obs["err"])
            # well-formed protoclusters must always yield candidates
            spec_ok = not scope
            if not spec_ok:
                detail = f"implementation raised {obs['err']} on well-formed protoclusters: {obs.get('msg')}; " + detail
            return Judgement(corr, spec_ok, in_scope=scope, nontrivial=False, tags=tuple(tags), detail=detail)
        impl = obs["cands"]
        if "ok" in model:
            # exact: candidates in the returned order, members in `candidate.protoclusters` order
            corr = [[c["kind"], c["members"], c["loc"]] for c in model["ok"]] == impl
        else:
            corr = False
        defs_ok = True
        if "defs" in obs:
            # `definition_cdses` of the real objects (filled by add_cds, empty for sideloaded) = the model's `mkProto`
            defs_ok = obs["defs"] == [sorted(d) for d in drv.get("defs", [])]
            corr = corr and defs_ok
            tags.append("real-record")
            if any(p.get("sideloaded") for p in case["ps"]):
                tags.append("sideloaded")
        detail = "" if corr else f"model {model} vs implementation {impl}"
        spec_ok = True
        if scope:
            oi = drv["on_impl"] or {}
            problems = [k for k in ("covers", "members_ok", "locations_ok", "no_dups", "sizes_ok") if not oi.get(k)]
            problems += ["duplicate member"] if any(len(set(m)) != len(m) for _, m, _ in impl) else []
            spec = drv["spec"]
            if "ok" in spec:
                want = sorted(json.dumps([e["kind"], sorted(e["members"])]) for e in spec["ok"])
                have = sorted(json.dumps([k, sorted(m)]) for k, m, _ in impl)
                if want != have:
                    problems.append(f"kinds/members differ from the documented grouping: expected {want}")
            else:
                problems.append(f"reference failed: {spec}")
            if not obs.get("perm_ok", True):
                problems.append(f"order dependence (candidate order / member order included): supplied as {obs['perm']} "
                                f"gives {obs['perm_out']}")
            if not defs_ok:
                problems.append(f"definition_cdses differ from the documented sets: {obs['defs']} vs {drv.get('defs')}")
            if obs.get("record_ok") is False:
                problems.append(f"Record.create_candidate_clusters differs: {obs['record_out']}")
            if problems:
                spec_ok = False
                detail = "; ".join(problems) + f"; implementation {impl}" + ("; " + detail if detail else "")
        kinds = sorted({k for k, _, _ in impl})
        tags += ["kind:" + k for k in kinds]
        if any(len(p["loc"]["parts"]) > 1 for p in case["ps"]):
            tags.append("origin-spanning")
        singles = {m[0] for k, m, _ in impl if k == "single"}
        strong = {i for k, m, _ in impl if k in ("chemical_hybrid", "interleaved") for i in m}
        if singles & strong:
            tags.append("promoted-single")
        if "record_ok" in obs:
            tags.append("via-record")
        nontrivial = n >= 2 and any(k != "single" for k in kinds)
        return Judgement(corr, spec_ok, in_scope=scope, nontrivial=nontrivial, tags=tuple(tags), detail=detail)

    def shrink(self, case: Dict[str, Any]) -> Iterator[Dict[str, Any]]:
        ps = case["ps"]
        for i in range(len(case.get("genes", []))):
            yield dict(case, genes=case["genes"][:i] + case["genes"][i + 1:])
        for i in range(len(ps)):
            yield dict(case, ps=ps[:i] + ps[i + 1:])
        for i, p in enumerate(ps):
            for g in p.get("defs", []):
                q = dict(p, defs=[x for x in p["defs"] if x != g])
                yield dict(case, ps=ps[:i] + [q] + ps[i + 1:])
        for i, p in enumerate(ps):
            if p["loc"] != p["core"]:
                yield dict(case, ps=ps[:i] + [dict(p, loc=p["core"])] + ps[i + 1:])


PROP = C05
