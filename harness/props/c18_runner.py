"""C18 support: everything that has to live at module level of an importable module (task
functions for real worker processes), the canonical object-graph dump used to compare records
that crossed a process boundary with records processed in-process, record builders, and the
child-process runner (`python -m harness.props.c18_runner`, JSON cases on stdin, one JSON
observation per line on stdout).

Real-pool cases (kinds handled by `run_case`):
  rpf     parallel_function(real_task, …, cpus=k[, timeout]) with per-task delays, a raising
          task, a dying worker or an over-long task; the order in which chunks really completed
          is reconstructed from an O_APPEND log written by the tasks
  rpe     parallel_execute([...real commands...], cpus=k[, timeout]) (real `sh`/`sleep` children)
  rec     Records built from a JSON spec sent through the real pool with `sanitise_sequence`,
          an identity function, or `ensure_cds_info` + a harness gene finder; compared, as object
          graphs, with the same function applied in-process
  prep    the real `pre_process_sequences` with the config's cpus = k vs cpus = 1
"""
from __future__ import annotations

import collections
import collections.abc
import enum
import functools
import json
import os
import sys
import tempfile
import threading
import time
from typing import Any, Dict, List, Optional, Tuple

# --------------------------------------------------------------------------- canonical graph dump

_PRIMS = (int, float, str, bytes, bool, type(None), complex)


def _slots_of(obj: Any) -> List[str]:
    names: List[str] = []
    for cls in type(obj).__mro__:
        slots = cls.__dict__.get("__slots__", ())
        if isinstance(slots, str):
            slots = (slots,)
        for name in slots:
            if name in ("__dict__", "__weakref__"):
                continue
            if name.startswith("__") and not name.endswith("__"):
                name = f"_{cls.__name__.lstrip('_')}{name}"
            names.append(name)
    return names


def canon(root: Any) -> Tuple[Any, List[Any]]:
    """an isomorphism-invariant listing of the object graph below `root`: objects are numbered
       in first-visit order (attribute order fixed by slots / sorted __dict__ / container order),
       sharing and cycles become back references, sets are sorted"""
    ids: Dict[int, int] = {}
    keep: List[Any] = []
    out: List[Any] = []

    def visit(obj: Any) -> Any:
        if isinstance(obj, enum.Enum):
            return ("enum", type(obj).__name__, obj.name)
        if isinstance(obj, _PRIMS):
            return (type(obj).__name__, obj)
        if isinstance(obj, type) or (callable(obj) and hasattr(obj, "__qualname__")
                                     and not hasattr(obj, "__self__")
                                     and not isinstance(obj, collections.abc.Container)):
            return ("callable", getattr(obj, "__module__", "?"), obj.__qualname__)
        if id(obj) in ids:
            return ("ref", ids[id(obj)])
        num = len(ids)
        ids[id(obj)] = num
        keep.append(obj)
        entry: List[Any] = [type(obj).__module__ + "." + type(obj).__qualname__]
        out.append(entry)
        if isinstance(obj, (set, frozenset)):
            entry.append(("set", sorted((detached(x) for x in obj), key=repr)))
            return ("ref", num)
        if isinstance(obj, dict):
            if isinstance(obj, collections.defaultdict):
                entry.append(("factory", visit(obj.default_factory)))
            entry.append(("dict", [(visit(k), visit(v)) for k, v in obj.items()]))
        elif isinstance(obj, (list, tuple)):
            raw = tuple.__iter__(obj) if isinstance(obj, tuple) else list.__iter__(obj)
            entry.append(("seq", [visit(x) for x in raw]))
        elif isinstance(obj, (bytearray, memoryview)):
            entry.append(("bytes", bytes(obj)))
            return ("ref", num)
        fields = []
        for name in _slots_of(obj):
            try:
                val = object.__getattribute__(obj, name)
            except AttributeError:
                fields.append((name, ("unset",)))
                continue
            fields.append((name, visit(val)))
        members = getattr(obj, "__dict__", None)
        if members:
            for key, val in sorted(members.items()):
                fields.append((key, visit(val)))
        if not fields and not isinstance(obj, (dict, list, tuple)):
            try:
                red = obj.__reduce_ex__(4)
                fields.append(("reduce", visit(tuple(red[1:3]))))
            except Exception:  # pylint: disable=broad-except
                fields.append(("opaque", repr(obj)))
        entry.append(("obj", fields))
        return ("ref", num)

    def detached(member: Any) -> Any:
        if isinstance(member, _PRIMS) or isinstance(member, enum.Enum):
            return visit(member)
        return ("setmember", repr(canon(member)))

    top = visit(root)
    return (top, out)


def first_difference(a: Tuple[Any, List[Any]], b: Tuple[Any, List[Any]]) -> str:
    if a[0] != b[0]:
        return f"root {a[0]!r} vs {b[0]!r}"
    for i, (x, y) in enumerate(zip(a[1], b[1])):
        if x != y:
            if x[0] != y[0]:
                return f"object {i}: type {x[0]} vs {y[0]}"
            fx = dict(x[-1][1]) if x[-1][0] == "obj" else {}
            fy = dict(y[-1][1]) if y[-1][0] == "obj" else {}
            for key in fx:
                if fx.get(key) != fy.get(key):
                    return f"object {i} ({x[0]}).{key}: {str(fx.get(key))[:160]} vs {str(fy.get(key))[:160]}"
            return f"object {i} ({x[0]}): {str(x)[:200]} vs {str(y)[:200]}"
    if len(a[1]) != len(b[1]):
        return f"{len(a[1])} vs {len(b[1])} objects"
    return ""


# --------------------------------------------------------------------------- task functions (picklable)

class Unreconstructible(Exception):
    """an exception class whose constructor cannot be re-run on `self.args` (two required
       parameters, one stored argument): pickles in the worker, fails to unpickle in the parent"""
    def __init__(self, code: int, detail: str) -> None:
        super().__init__(f"{code}/{detail}")


ERR_TYPES = {"ValueError": ValueError, "KeyError": KeyError, "RuntimeError": RuntimeError,
             "AntismashInputError": None, "SecmetInvalidInputError": None}


def make_error(kind: str) -> BaseException:
    """`Type:message` -> exception instance (antismash's own error classes included)"""
    tname, _, msg = kind.partition(":")
    if tname == "AntismashInputError":
        from antismash.common.errors import AntismashInputError
        return AntismashInputError(msg)
    if tname == "Unreconstructible":
        code, _, detail = msg.partition("/")
        return Unreconstructible(int(code), detail)
    if tname == "SecmetInvalidInputError":
        from antismash.common.secmet.errors import SecmetInvalidInputError
        return SecmetInvalidInputError(msg)
    return ERR_TYPES[tname](msg)  # type: ignore


def error_text(exc: BaseException) -> str:
    msg = exc.args[0] if exc.args else ""
    return f"{type(exc).__name__}:{msg}"


def _log(path: str, idx: int) -> None:
    fd = os.open(path, os.O_WRONLY | os.O_APPEND | os.O_CREAT, 0o600)
    try:
        os.write(fd, f"{idx} {os.getpid()} {time.monotonic_ns()}\n".encode())
    finally:
        os.close(fd)


def real_task(idx: int, delay_ms: int, mode: str, value: Any, log: str) -> Any:
    """sleeps, records its completion, then returns / raises / kills its worker"""
    time.sleep(delay_ms / 1000)
    _log(log, idx)
    if mode == "ok":
        return value
    if mode == "exit":
        os._exit(3)
    if mode == "sysexit":
        sys.exit(3)
    raise make_error(mode)


def identity(record: Any) -> Any:
    return record


def annotate(record: Any) -> Any:
    """a worker that *changes* the record the way detection does: results must come back intact"""
    from antismash.common.secmet.qualifiers import GeneFunction
    for i, cds in enumerate(record.get_cds_features()):
        if i % 2:
            cds.gene_functions.add(GeneFunction.ADDITIONAL, "c18", f"worker note {i}")
        else:
            cds.gene_functions.add(GeneFunction.CORE, "c18", f"worker note {i}", product="c18-product")
    record.add_annotation("c18", [record.id, str(len(record.seq))])
    return record


def fake_run_on_record(record: Any, options: Any) -> None:
    """stand-in for genefinding.run_on_record (no prodigal in the sandbox): one gene per 300 bases"""
    from antismash.common.secmet.features import CDSFeature
    from antismash.common.secmet.locations import FeatureLocation
    if record.id.startswith("bad"):
        raise ValueError(f"gene finding failed for {record.id}")
    count = 0
    for start in range(30, max(len(record.seq) - 100, 0), 300):
        strand = 1 if count % 2 == 0 else -1
        feature = CDSFeature(FeatureLocation(start, start + 90, strand), locus_tag=f"{record.id}_g{count}",
                             translation="M" + "A" * 29)
        record.add_cds_feature(feature)
        count += 1


class _FakeGenefinding:  # pre_process_sequences only needs `.run_on_record`
    run_on_record = staticmethod(fake_run_on_record)


# --------------------------------------------------------------------------- record builders

def build_record(spec: Dict[str, Any]) -> Any:
    """JSON spec -> secmet Record built with the repo's own Dummy* helpers (deterministic names)"""
    from antismash.common.secmet.features import Gene, Region
    from antismash.common.secmet.locations import CompoundLocation, FeatureLocation
    from antismash.common.secmet.qualifiers import GeneFunction, SecMetQualifier
    from antismash.common.secmet.test import helpers as h

    def loc(parts: List[List[int]]) -> Any:
        built = [FeatureLocation(lo, hi, strand) for lo, hi, strand in parts]
        return built[0] if len(built) == 1 else CompoundLocation(built)

    if spec.get("genbank"):
        # a record as antiSMASH really gets it: parsed from GenBank text (DBLINK lines -> dbxrefs, the
        # wrapped SeqRecord keeps its own feature list), optionally with per-letter annotations
        from io import StringIO
        from Bio import SeqIO
        from antismash.common.secmet import Record
        bio = SeqIO.read(StringIO(spec["genbank"]), "genbank")
        for key, values in (spec.get("letter_annotations") or {}).items():
            bio.letter_annotations[key] = list(values)
        parsed = Record.from_biopython(bio, taxon="bacteria")
        parsed.record_index = spec.get("index")
        if spec.get("skip"):
            parsed.skip = spec["skip"]
        return parsed
    length = spec["length"]
    rec = h.DummyRecord(seq=spec["seq"], circular=spec["circular"], record_id=spec["id"])
    if spec.get("name") is not None:
        rec.name = spec["name"]
    if spec.get("description"):
        rec.description = spec["description"]
    for key, val in spec.get("annotations", {}).items():
        rec.add_annotation(key, val)
    if spec.get("dbxrefs"):
        rec._record.dbxrefs = list(spec["dbxrefs"])  # pylint: disable=protected-access
    for i, (parts, name) in enumerate(spec["cds"]):
        cds = h.DummyCDS(location=loc(parts), locus_tag=name, translation="M" + "A" * 9)
        rec.add_cds_feature(cds)
        if i % 2 == 0:
            rec.add_gene(Gene(loc(parts), locus_tag=name))
        if i % 3 == 0:
            cds.gene_functions.add(GeneFunction.CORE, "tool", f"desc {name}", product="prod")
            cds.sec_met = SecMetQualifier([SecMetQualifier.Domain(f"dom{i}", 1e-10, 50.5, 3, "tool")])
        lo, _, strand = parts[0]
        if i % 2 == 1:
            rec.add_pfam_domain(h.DummyPFAMDomain(location=FeatureLocation(lo, lo + 9, strand), locus_tag=name,
                                                  protein_start=0, protein_end=3, domain_id=f"pf_{name}"))
        if i % 4 == 0:
            rec.add_cds_motif(h.DummyCDSMotif(lo, lo + 9, strand, locus_tag=name, domain_id=f"mo_{name}"))
            rec.add_antismash_domain(h.DummyAntismashDomain(lo + 9, lo + 18, strand, locus_tag=name,
                                                            domain_id=f"ad_{name}"))
    for unit in spec.get("units", []):
        protos = []
        for core_start, core_end, nbhd, product in unit["protoclusters"]:
            kwargs: Dict[str, Any] = {"record_length": length} if core_start > core_end else {}
            proto = h.DummyProtocluster(core_start=core_start, core_end=core_end, neighbourhood_range=nbhd,
                                        product=product, **kwargs)
            rec.add_protocluster(proto)
            protos.append(proto)
        cands = []
        ckw: Dict[str, Any] = {"circular_wrap_point": length} if unit.get("crosses") else {}
        for proto in protos:
            cands.append(h.DummyCandidateCluster([proto], **ckw))
        if len(protos) > 1:
            cands.append(h.DummyCandidateCluster(protos, **ckw))
        for cand in cands:
            rec.add_candidate_cluster(cand)
        subs = []
        if unit.get("subregion"):
            sub = h.DummySubRegion(unit["subregion"][0], unit["subregion"][1], label=unit["subregion"][2])
            rec.add_subregion(sub)
            subs.append(sub)
        region = Region(cands, subs)
        rec.add_region(region)
        _ = region.cds_children      # populate the sectioned CDS caches (the custom-__reduce__ tuples)
        for cand in cands:
            _ = cand.cds_children
    for lo, hi, strand, ftype in spec.get("misc", []):
        rec.add_feature(h.DummyFeature(lo, hi, strand, ftype))
    rec.original_id = spec.get("original_id")
    rec.record_index = spec.get("index")
    if spec.get("skip"):
        rec.skip = spec["skip"]
    return rec


RECORD_FUNCS = {"sanitise": None, "identity": identity, "annotate": annotate, "genefind": None}


def _record_func(name: str) -> Any:
    if name == "sanitise":
        from antismash.common.record_processing import sanitise_sequence
        return sanitise_sequence
    if name == "genefind":
        from antismash.common.record_processing import ensure_cds_info
        return functools.partial(ensure_cds_info, fake_run_on_record, genefinding_tool="fake",
                                 genefinding_gff3="", taxon="bacteria")
    return RECORD_FUNCS[name]


# --------------------------------------------------------------------------- case execution

def chunk_size(n: int, workers: int) -> int:
    if n == 0:
        return 0
    size, extra = divmod(n, workers * 4)
    return size + 1 if extra else size


def classify_error(exc: BaseException) -> Dict[str, Any]:
    """exception raised by parallel_function / parallel_execute -> observable"""
    if isinstance(exc, RuntimeError) and exc.args and isinstance(exc.args[0], str):
        text = exc.args[0]
        if text.startswith("Timeout in parallel function") or "timed out after" in text:
            return {"err": "timeout"}
        if "worker process" in text and "died" in text:
            return {"err": "died"}
    if isinstance(exc, ValueError) and "Number of processes must be at least 1" in str(exc):
        return {"err": "noproc"}
    return {"err": "task", "e": error_text(exc)}


def _guarded(func: Any, limit: float) -> Dict[str, Any]:
    """runs `func` in a thread; a call that does not come back within `limit` s is reported as blocked"""
    box: Dict[str, Any] = {}

    def body() -> None:
        try:
            box["ret"] = func()
        except BaseException as exc:  # pylint: disable=broad-except
            box["exc"] = exc

    thread = threading.Thread(target=body, daemon=True)
    thread.start()
    thread.join(limit)
    if thread.is_alive():
        return {"blocked": True}
    if "exc" in box:
        return classify_error(box["exc"])
    return {"ret": box["ret"]}


def _kill_children() -> None:
    import multiprocessing
    for proc in multiprocessing.active_children():
        try:
            proc.kill()
        except Exception:  # pylint: disable=broad-except
            pass


def run_rpf(case: Dict[str, Any], tmp: str) -> Dict[str, Any]:
    from antismash.common.subprocessing import base
    tasks = case["tasks"]          # [[delay_ms, mode, value], ...]
    cpus = case["cpus"]
    log = os.path.join(tmp, f"log_{case.get('n', 0)}_{time.monotonic_ns()}")
    open(log, "w").close()
    args = [[i, d, mode, val, log] for i, (d, mode, val) in enumerate(tasks)]
    timeout = case.get("timeout")
    start = time.monotonic_ns()
    iterable = (a for a in args) if case.get("generator") else args
    bystander = None
    if case.get("bystander_ms"):
        # an unrelated child process of the caller that ends while the batch is running
        import multiprocessing
        bystander = multiprocessing.Process(target=time.sleep, args=(case["bystander_ms"] / 1000,))
        bystander.start()
    calls_s = sum(d for d, mode, _v in tasks if d < 4000) / 1000
    limit = float(case.get("limit", 10.0 + 3 * calls_s))
    obs = _guarded(lambda: base.parallel_function(real_task, iterable, cpus=cpus, timeout=timeout), limit)
    if obs.get("blocked"):
        obs["limit_s"] = limit
        obs["calls_s"] = calls_s
    if bystander is not None:
        obs["bystander_exited_during_batch"] = not bystander.is_alive()
        bystander.join(5.0)
    if obs.get("blocked"):
        _kill_children()
    # completion order of the chunks, reconstructed from the log
    lines = [l.split() for l in open(log).read().splitlines() if l.strip()]
    os.unlink(log)
    when = {int(i): int(t) for i, _pid, t in lines}
    pids = {int(i): int(p) for i, p, _t in lines}
    n = len(tasks)
    obs["pids"] = len(set(pids.values()))
    obs["own_pid_used"] = os.getpid() in set(pids.values())
    if cpus != 1:
        size = chunk_size(n, cpus)
        events: List[Tuple[int, List[Any]]] = []
        gaps: List[int] = []
        for chunk in range(0 if n == 0 else -(-n // size)):
            members = list(range(chunk * size, min((chunk + 1) * size, n)))
            gate = next((i for i in members if tasks[i][1] != "ok"), members[-1])
            if gate not in when:
                continue
            if tasks[gate][1] in ("exit", "sysexit"):
                events.append((when[gate], ["died", 0]))
            else:
                events.append((when[gate], ["done", chunk]))
                if tasks[gate][1] != "ok":
                    gaps.append(when[gate])
        events.sort()
        obs["events"] = [e for _t, e in events]
        if timeout is not None and obs.get("err") == "timeout":
            obs["events"] = [e for e in obs["events"] if e[0] == "done"] + [["timeout"]]
        gaps.sort()
        obs["min_failure_gap_ms"] = min((b - a for a, b in zip(gaps, gaps[1:])), default=10**12) / 1e6
        obs["elapsed_ms"] = (time.monotonic_ns() - start) / 1e6
    return obs


def run_rpe(case: Dict[str, Any]) -> Dict[str, Any]:
    from unittest import mock
    from antismash.common.subprocessing import base
    commands = [list(c) for c in case["commands"]]
    with mock.patch.object(base.os, "setpgid"):
        obs = _guarded(lambda: base.parallel_execute(commands, cpus=case["cpus"], timeout=case.get("timeout"),
                                                     verbose=case.get("verbose", False)), case.get("limit", 8.0))
    if obs.get("blocked"):
        _kill_children()
    return obs


def field_differences(got: Any, want: Any) -> List[str]:
    """field by field: every slot / attribute of the Record and every attribute of the wrapped Bio
       SeqRecord, each compared (recursively, as its own object graph) on its own, so that the report
       names the field that differs"""
    out: List[str] = []

    def attrs(obj: Any) -> Dict[str, Any]:
        found: Dict[str, Any] = {}
        for name in _slots_of(obj):
            try:
                found[name] = object.__getattribute__(obj, name)
            except AttributeError:
                found[name] = ("<unset>",)
        found.update(getattr(obj, "__dict__", {}) or {})
        return found
    mine, theirs = attrs(got), attrs(want)
    for name in sorted(set(mine) | set(theirs)):
        if name == "_record":
            inner_mine, inner_theirs = attrs(mine.get(name)), attrs(theirs.get(name))
            for inner in sorted(set(inner_mine) | set(inner_theirs)):
                if canon(inner_mine.get(inner, ("<missing>",))) != canon(inner_theirs.get(inner, ("<missing>",))):
                    out.append(f"wrapped SeqRecord.{inner}: {str(inner_mine.get(inner))[:120]!r} vs "
                               f"{str(inner_theirs.get(inner))[:120]!r}")
        elif canon(mine.get(name, ("<missing>",))) != canon(theirs.get(name, ("<missing>",))):
            out.append(f"Record.{name} differs")
    return out


def _compare(results: List[Any], reference: List[Any]) -> List[str]:
    problems = []
    if len(results) != len(reference):
        return [f"{len(results)} results for {len(reference)} records"]
    for i, (got, want) in enumerate(zip(results, reference)):
        diff = first_difference(canon(got), canon(want))
        if diff:
            fields = field_differences(got, want)
            problems.append(f"record {i}: {'; '.join(fields[:4]) or diff}")
    return problems


def run_rec(case: Dict[str, Any]) -> Dict[str, Any]:
    import pickle
    from antismash.common.subprocessing import base
    func = _record_func(case["func"])
    specs = case["records"]

    def in_process() -> Any:
        out = []
        for spec in specs:
            out.append(func(build_record(spec)))
        return out
    reference = _guarded(in_process, 30.0)
    crossing = [build_record(spec) for spec in specs]

    def content(record: Any) -> List[Any]:
        return [str(record.seq), record.skip, len(record.get_cds_features())]

    def finder(record: Any) -> List[Any]:
        if record.id.startswith("bad"):
            return ["fails"]
        return ["finds", len(range(30, max(len(record.seq) - 100, 0), 300))]
    given = [content(r) + [finder(r)] for r in (build_record(spec) for spec in specs)]   # separate copies: reading CDS fills caches
    pickled = []
    for r in crossing:
        copy = pickle.loads(pickle.dumps(r))
        if first_difference(canon(copy), canon(r)):
            pickled.append("; ".join(field_differences(copy, r)[:4]) or first_difference(canon(copy), canon(r)))
    obs = _guarded(lambda: base.parallel_function(func, ([r] for r in crossing), cpus=case["cpus"]),
                   case.get("limit", 30.0))
    if obs.get("blocked"):
        _kill_children()
    out: Dict[str, Any] = {"pickle_problems": [p for p in pickled if p], "given": given}
    if "ret" in reference and "ret" in obs:
        out["problems"] = _compare(obs["ret"], reference["ret"])
        out["same_objects"] = all(a is b for a, b in zip(obs["ret"], crossing))
        out["ids"] = [r.id for r in obs["ret"]]
        out["objects"] = sum(len(canon(r)[1]) for r in obs["ret"])
        out["content"] = [content(r) for r in obs["ret"]]       # after the graph comparison (fills caches)
    else:
        ref_obs = {k: v for k, v in reference.items() if k != "ret"} or {"ok": True}
        got_obs = {k: v for k, v in obs.items() if k != "ret"} or {"ok": True}
        out["problems"] = [] if ref_obs == got_obs else [f"in-process {ref_obs} vs pool {got_obs}"]
        out["error"] = got_obs
    return out


def run_prep(case: Dict[str, Any]) -> Dict[str, Any]:
    from antismash.common import record_processing
    from antismash.config import destroy_config, update_config

    def go(cpus: int) -> Any:
        destroy_config()
        options = update_config({
            "cpus": cpus, "reuse_results": False, "skip_sanitisation": False,
            "allow_long_headers": bool(case.get("allow_long_headers", False)),
            "limit_to_record": case.get("limit_to_record", ""), "minlength": case.get("minlength", 10),
            "limit": case.get("limit", -1), "taxon": "bacteria",
            "genefinding_tool": "fake", "genefinding_gff3": "", "triggered_limit": False})
        try:
            records = [build_record(spec) for spec in case["records"]]
            return record_processing.pre_process_sequences(records, options, _FakeGenefinding)  # type: ignore
        finally:
            destroy_config()
    reference = _guarded(lambda: go(1), 30.0)
    obs = _guarded(lambda: go(case["cpus"]), 30.0)
    if obs.get("blocked"):
        _kill_children()
    out: Dict[str, Any] = {}
    if "ret" in reference and "ret" in obs:
        out["problems"] = _compare(obs["ret"], reference["ret"])
        out["ids"] = [r.id for r in obs["ret"]]
        out["recs"] = [[r.id, r.name, r.original_id] for r in obs["ret"]]
        out["recs_one_cpu"] = [[r.id, r.name, r.original_id] for r in reference["ret"]]
        out["skips"] = [r.skip for r in obs["ret"]]
        out["lens"] = [len(r.seq) for r in obs["ret"]]
        out["real"] = [any(c in "ACGT" for c in str(r.seq)) for r in obs["ret"]]
        out["cds"] = [len(r.get_cds_features()) for r in obs["ret"]]
        if out["recs"] != out["recs_one_cpu"]:
            out["problems"].insert(0, f"identifiers with {case['cpus']} cpus {[r[0] for r in out['recs']]} vs "
                                      f"in-process {[r[0] for r in out['recs_one_cpu']]}")
    else:
        ref_obs = {k: v for k, v in reference.items() if k != "ret"} or {"ok": True}
        got_obs = {k: v for k, v in obs.items() if k != "ret"} or {"ok": True}
        out["problems"] = [] if ref_obs == got_obs else [f"cpus=1 {ref_obs} vs cpus={case['cpus']} {got_obs}"]
        out["error"] = got_obs
    return out


def run_case(case: Dict[str, Any], tmp: str) -> Dict[str, Any]:
    kind = case["kind"]
    if kind == "rpf":
        return run_rpf(case, tmp)
    if kind == "rpe":
        return run_rpe(case)
    if kind == "rec":
        return run_rec(case)
    if kind == "prep":
        return run_prep(case)
    raise ValueError(kind)


def main() -> int:
    import logging
    logging.disable(logging.CRITICAL)
    repo = os.environ.get("ASV_REPO", "/repo")
    if repo not in sys.path:
        sys.path.insert(0, repo)
    cases = [json.loads(line) for line in sys.stdin if line.strip()]
    out = sys.stdout
    devnull = open(os.devnull, "w")
    sys.stderr = devnull          # worker tracebacks / child stderr echoes are not observables
    budget = float(os.environ.get("ASV_C18_BUDGET", "240"))
    begun = time.monotonic()
    stuck = 0
    with tempfile.TemporaryDirectory(prefix="asv_c18_") as tmp:
        for case in cases:
            if stuck and time.monotonic() - begun > budget:
                # something already hung on this tree: do not wait out one limit after another
                out.write(json.dumps({"skipped": True}) + "\n")
                out.flush()
                continue
            try:
                obs = run_case(case, tmp)
                if obs.get("blocked") or (isinstance(obs.get("error"), dict) and obs["error"].get("blocked")):
                    stuck += 1
            except BaseException as exc:  # pylint: disable=broad-except
                import traceback
                obs = {"harness_error": f"{type(exc).__name__}: {exc}", "trace": traceback.format_exc()[-800:]}
            out.write(json.dumps(obs, default=str) + "\n")
            out.flush()
    _kill_children()
    os._exit(0)


if __name__ == "__main__":
    main()
