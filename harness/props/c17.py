"""C17 — same input, same output: results do not depend on the process or hash seed.

Two kinds of evidence are gathered on the tree selected by ASV_REPO:

1. In-process cases, piped through the Lean driver (model = `ASV.Determinism.*`): the real functions
   are run with *explicit enumerations* of the sets they read (`EnumSet`, a `set` subclass whose
   iteration order is chosen by the case) or, where the set is built inside the function, with
   object addresses varied between repetitions; every repetition must give the same output (spec)
   and that output must be the model's (correspondence).
     names     hmm_detection.run_on_record → enabled_types            (model `enabledTypes`)
     defjson   CDSResults.to_json "definition_domains"                 (model `definitionDomainsJson`)
     annotate  CDSResults.annotate → the gene's function annotations   (model `annotate`)
     uniq      Region.get_unique_protoclusters                         (model `uniqueProtoclusters`)
     best      cluster_prediction.filter_results, one gene, score ties (model `filterResultsE`)
     write     Record.to_biopython: feature order, qualifier order     (model `writeRecord`)

2. The child-process matrix (`extra_checks`): tie-rich inputs are handed to child interpreters started
   with PYTHONHASHSEED ∈ {0..k, random} and different allocation histories; each child runs
   refine_hmmscan_results, hmmer.remove_overlapping, filter_results / filter_result_multiple,
   Region.get_unique_protoclusters and the record pipeline (hmm_detection.run_on_record =
   detect_protoclusters_and_signatures + annotate, RuleDetectionResults.to_json, the module JSON,
   create_candidate_clusters, create_regions, gather_record_areas, record_to_json, SeqIO.write) and
   prints the raw stage texts; the texts must be byte-identical across children.  A difference is a
   failing input by itself; it is shrunk against the live children and reported as the replay.

Names travel to Lean as ranks in sorted name tables (order-isomorphic to the string order).
"""
from __future__ import annotations

import itertools
import json
import os
import random
import subprocess
import sys
import threading
from pathlib import Path
from typing import Any, Dict, Iterator, List, Optional, Tuple

from ..framework import Failure, Judgement, Property, REPO, err_kind

CHILD = Path(__file__).resolve().parent / "c17_child.py"
PYTHON = "/venv/bin/python"

DOMS = ["d_a", "d_b", "d_c", "d_d", "d_e", "d_f"]            # domain / profile names (sorted)
PRODS = ["p_a", "p_b", "p_c", "p_d"]                         # product / rule names (sorted)
RULE_NAMES = ["r_a", "r_b", "r_c", "r_d", "r_e", "r_f", "r_g"]
QUAL_KEYS = ["allele", "db_xref", "gene", "note", "product", "standard_name", "zzz"]   # sorted; rank = index - 3
NOTE_RANK = QUAL_KEYS.index("note")
VALS = ["v0", "v1", "v2", "v3", "v4"]
TOOL = "rule-based-clusters"
assert DOMS == sorted(DOMS) and PRODS == sorted(PRODS) and RULE_NAMES == sorted(RULE_NAMES) and QUAL_KEYS == sorted(QUAL_KEYS)

KF_KEY_TIE = "KF-C17-unique-protocluster-key-tie"
KF_JS_CATEGORIES = "KF-C17-js-product-categories"
# stage → open finding: differences confined to that stage text are the listed defect (fix offered in fixes/)
PENDING: Dict[str, str] = {"js_product_categories": KF_JS_CATEGORIES}
KF_TIE_KEY = "KF-C17-formation-tie-key"
MATRIX_KINDS = ("pipeline", "refine", "filter", "hmmer", "region", "ruleset", "formation", "sideload")
PIPELINE_STAGES = ["detect", "annotate", "rule_results_json", "module_json", "candidates", "regions", "areas_json",
                   "record_json", "genbank"]


class EnumSet(set):
    """a set whose iteration order is chosen by the test: what `sorted(s)`, `list(s)` and `for x in s` see"""
    def __init__(self, order: List[Any]) -> None:
        super().__init__(order)
        self._order = list(order)

    def __iter__(self) -> Iterator[Any]:
        return iter(self._order)


def enumerations(items: List[Any], pseed: int, k: int = 4) -> List[List[Any]]:
    """the listed order, its reverse and seeded shuffles (all permutations when there are at most 3 items)"""
    if len(items) <= 3:
        return [list(p) for p in itertools.permutations(items)]
    prng = random.Random(pseed)
    out = [list(items), list(items)[::-1]]
    for _ in range(k):
        o = list(items)
        prng.shuffle(o)
        out.append(o)
    return out


_JUNK: List[Any] = []


def shake_heap(prng: random.Random) -> None:
    """allocate (and partly keep) objects so that the next allocations land on other addresses"""
    n = prng.randrange(0, 40)
    junk = [object() if i % 3 else [i] for i in range(n)]
    if len(_JUNK) > 5000:
        del _JUNK[:]
    _JUNK.extend(junk[::2])


# ----------------------------------------------------------------------------------------------- child pool

class ChildPool:
    """child interpreters with different PYTHONHASHSEED / allocation histories, kept alive"""

    def __init__(self, specs: List[Tuple[str, int]]) -> None:
        self.specs = specs
        self.procs: List[subprocess.Popen] = []
        for seed, alloc in specs:
            env = dict(os.environ)
            env["PYTHONHASHSEED"] = str(seed)
            env["ASV_REPO"] = str(REPO)
            env.pop("PYTHONPATH", None)
            self.procs.append(subprocess.Popen([PYTHON, str(CHILD), str(alloc)], stdin=subprocess.PIPE,
                                               stdout=subprocess.PIPE, stderr=subprocess.DEVNULL, text=True,
                                               env=env, bufsize=1))

    def run(self, cases: List[Dict[str, Any]]) -> List[List[Dict[str, str]]]:
        """per child, the stage texts of every case"""
        lines = [json.dumps({k: v for k, v in c.items() if not k.startswith("_")}) + "\n" for c in cases]
        results: List[Optional[List[Dict[str, str]]]] = [None] * len(self.procs)
        errors: List[str] = []

        def work(i: int) -> None:
            proc = self.procs[i]
            outs = []
            try:
                for line in lines:
                    assert proc.stdin and proc.stdout
                    proc.stdin.write(line)
                    proc.stdin.flush()
                    reply = proc.stdout.readline()
                    if not reply:
                        raise RuntimeError("child closed its output")
                    outs.append(json.loads(reply))
                results[i] = outs
            except Exception as exc:  # pylint: disable=broad-except
                errors.append(f"child {self.specs[i]}: {exc}")

        threads = [threading.Thread(target=work, args=(i,)) for i in range(len(self.procs))]
        for t in threads:
            t.start()
        for t in threads:
            t.join()
        if errors:
            from ..framework import Infra
            raise Infra("C17 child failed: " + "; ".join(errors[:3]))
        return [r for r in results if r is not None]

    def close(self) -> None:
        for proc in self.procs:
            try:
                if proc.stdin:
                    proc.stdin.close()
                proc.wait(timeout=20)
            except Exception:  # pylint: disable=broad-except
                proc.kill()


def first_difference(kind: str, per_child: List[Dict[str, str]]) -> Optional[str]:
    """name of the first stage (in pipeline order) whose text is not the same in every child"""
    keys = list(per_child[0])
    if kind == "pipeline":
        keys = [k for k in PIPELINE_STAGES if any(k in c for c in per_child)] + \
               [k for k in keys if k not in PIPELINE_STAGES]
    for key in keys:
        if len({c.get(key) for c in per_child}) > 1:
            return key
    for c in per_child[1:]:
        if set(c) != set(per_child[0]):
            return "stages"
    return None


def difference_detail(stage: str, specs: List[Tuple[str, int]], per_child: List[Dict[str, str]]) -> str:
    groups: Dict[str, List[str]] = {}
    for spec, out in zip(specs, per_child):
        groups.setdefault(out.get(stage, "<missing>"), []).append(f"{spec[0]}/{spec[1]}")
    texts = list(groups)
    a, b = texts[0], texts[1]
    i = 0
    while i < min(len(a), len(b)) and a[i] == b[i]:
        i += 1
    lo = max(0, i - 60)
    return (f"stage {stage}: {len(groups)} different outputs over {len(specs)} children (seed/alloc "
            f"{groups[a][:4]} vs {groups[b][:4]}); first difference at byte {i}: "
            f"…{a[lo:i + 60]!r} vs …{b[lo:i + 60]!r}")


# ----------------------------------------------------------------------------------------------- the property

class C17(Property):
    ID = "C17"
    SHAPE = [
        ("antismash/detection/hmm_detection/__init__.py", "get_ruleset"),
        ("antismash/detection/hmm_detection/__init__.py", "check_options"),
        ("antismash/common/hmm_rule_parser/cluster_prediction.py", "Ruleset.copy_with_replacements"),
        ("antismash/common/hmmscan_refinement.py", "gather_by_query"),
        ("antismash/common/hmmscan_refinement.py", "refine_hmmscan_results"),
        ("antismash/common/hmmscan_refinement.py", "_merge_domain_list"),
        ("antismash/common/hmmscan_refinement.py", "_remove_overlapping"),
        ("antismash/common/hmmscan_refinement.py", "_merge_immediate_neigbours"),
        ("antismash/common/hmmscan_refinement.py", "remove_incomplete"),
        ("antismash/common/hmmscan_refinement.py", "HMMResult.__hash__"),
        ("antismash/common/hmmscan_refinement.py", "HMMResult.__eq__"),
        ("antismash/common/hmmer.py", "remove_overlapping"),
        ("antismash/common/hmm_rule_parser/cluster_prediction.py", "CDSResults.annotate"),
        ("antismash/common/hmm_rule_parser/cluster_prediction.py", "CDSResults.to_json"),
        ("antismash/common/hmm_rule_parser/cluster_prediction.py", "RuleDetectionResults.to_json"),
        ("antismash/common/hmm_rule_parser/cluster_prediction.py", "filter_results"),
        ("antismash/common/hmm_rule_parser/cluster_prediction.py", "build_results"),
        ("antismash/common/hmm_rule_parser/cluster_prediction.py", "detect_protoclusters_and_signatures"),
        ("antismash/detection/sideloader/general.py", "load_single_record_annotations"),
        ("antismash/detection/sideloader/data_structures.py", "SideloadedResults.to_json"),
        ("antismash/detection/sideloader/data_structures.py", "SideloadedResults.add_to_record"),
        ("antismash/common/hmm_rule_parser/cluster_prediction.py", "Ruleset.get_rule_names"),
        ("antismash/detection/hmm_detection/__init__.py", "run_on_record"),
        ("antismash/common/secmet/features/region/structures.py", "Region.get_unique_protoclusters"),
        ("antismash/common/secmet/qualifiers/gene_functions.py", "GeneFunctionAnnotations.add"),
        ("antismash/common/secmet/qualifiers/secmet.py", "SecMetQualifier.add_domains"),
        ("antismash/common/secmet/features/feature.py", "Feature.to_biopython"),
        ("antismash/common/secmet/features/feature.py", "Feature.__lt__"),
        ("antismash/common/secmet/record.py", "Record.to_biopython"),
        ("antismash/common/secmet/record.py", "Record.all_features"),
        ("antismash/common/serialiser.py", "record_to_json"),
        ("antismash/common/serialiser.py", "gather_record_areas"),
        ("antismash/common/secmet/features/candidate_cluster/formation.py", "_sorted_protoclusters"),
        ("antismash/common/secmet/features/candidate_cluster/formation.py", "create_candidates_from_protoclusters"),
        ("antismash/common/secmet/features/candidate_cluster/formation.py", "_merge_sets"),
        ("antismash/common/secmet/features/candidate_cluster/formation.py", "_find_hybrids"),
        ("antismash/common/secmet/features/candidate_cluster/formation.py", "_find_interleaved"),
        ("antismash/common/secmet/features/candidate_cluster/formation.py", "_find_neighbouring"),
        ("antismash/common/secmet/record.py", "Record.create_candidate_clusters"),
        ("antismash/common/secmet/record.py", "Record.create_regions"),
        ("antismash/common/secmet/record.py", "Record.add_candidate_cluster"),
        ("antismash/common/secmet/record.py", "Record.add_region"),
        ("antismash/common/secmet/features/region/structures.py", "Region.__init__"),
        ("antismash/common/secmet/features/cdscollection.py", "CDSCollection.__lt__"),
    ]
    RULE = ("in-process: sets of 0-5 names / dicts of 1-3 such sets handed to the real functions as explicit enumerations "
            "(all permutations up to 3 members, else listed order, reverse and 4 shuffles); regions of 2-6 protoclusters "
            "with equal starts, equal coordinates and different products (5 % with a same-product tie), on a line and "
            "spanning the origin, rebuilt 4 times at different addresses; filter_results on one gene with 2-6 hits, "
            "scores from 3 values (ties), rebuilt 4 times at different addresses; records with features on equal "
            "coordinates whose qualifier dicts / notes are filled in different orders.  child matrix: 8 (quick) / 50 "
            "(thorough) interpreters with PYTHONHASHSEED 0..k and `random` and seeded allocation histories, on tie-rich "
            "refine / hmmer / filter / region cases and record pipelines (2-7 genes on a 30-base grid, opposite-strand "
            "pairs on equal coordinates, 1-3 profiles per gene with equal scores, 1-3 rules with equal or distinct "
            "cut-off / neighbourhood, linear and circular); byte comparison of every stage text.  non-trivial = a "
            "container with at least two members was enumerated")
    TRUSTED = [
        "hash-seed / address dependence is modelled as dependence on an explicit enumeration of each set; that CPython's "
        "iteration order of a set is *some* permutation of its members is taken as given",
        "`EnumSet` (a set subclass overriding __iter__) stands for a real set in the in-process cases: `sorted(s)`, "
        "`list(s)` and `for x in s` see the chosen order, `set.update(s)` and `x in s` do not depend on it",
        "names (domains, products, rules, qualifier keys) enter the model as ranks in sorted tables",
        "un-modelled modules (rule evaluation, protocluster / candidate / region formation, GenBank and JSON writers) are "
        "covered only by the sampled seeds and allocation histories of the child matrix",
        "filter_results: `uid` = index of the hit in the gene's list; distinct HSP objects (identity equality)",
        "Python sorted() is a stable sort; dict keeps insertion order",
    ]

    extra_evaluations = 0

    # ------------------------------------------------------------------ in-process generators
    def rand_set(self, rng: random.Random, pool: int, nmax: int = 5) -> List[int]:
        n = rng.choice([0, 1, 2, 2, 3, 3, 4, 5][:nmax + 3])
        return rng.sample(range(pool), min(n, pool))

    def rand_defs(self, rng: random.Random) -> List[List[Any]]:
        prods = rng.sample(range(len(PRODS)), rng.choice([1, 1, 2, 2, 3]))
        return [[p, self.rand_set(rng, len(DOMS))] for p in prods]

    def rand_uniq(self, rng: random.Random) -> Dict[str, Any]:
        length = 1000
        cross = rng.random() < 0.4
        protos: List[List[int]] = []
        n = rng.choice([2, 2, 3, 3, 4, 5, 6])
        if cross:
            protos.append([rng.choice([900, 950]), rng.choice([50, 80]), 0])       # spans the origin
        for _ in range(n - len(protos)):
            if protos and rng.random() < 0.5:
                o = rng.choice(protos)
                start, end = o[0], o[1]
                if not cross and rng.random() < 0.3:
                    end += 30
            elif cross:
                side = rng.random()
                if side < 0.35:
                    start, end = rng.choice([500, 501, 850, 900]), rng.choice([960, 990])    # before the origin
                elif side < 0.7:
                    start = rng.choice([10, 20, 499])                                        # after it
                    end = start + rng.choice([50, 80])
                else:
                    start, end = rng.choice([900, 950]), rng.choice([50, 80])
            else:
                start = rng.choice([10, 10, 50, 100])
                end = start + rng.choice([100, 100, 150, 200])
            protos.append([start, end, 0])
        if cross and rng.random() < 0.5:
            # twins after the origin: one product, one area (start < half the record), different cores
            start, end = rng.choice([10, 20]), rng.choice([60, 90])
            protos.append([start, end, 0])
            protos.append([start, end, 0])
        tie = rng.random() < 0.05
        twins = rng.random() < 0.35          # same product on the same coordinates, different cores (D64: in scope)
        for i, p in enumerate(protos):
            same = [q for q in protos[:i] if q[0] == p[0] and q[1] == p[1]]
            free = [k for k in range(len(PRODS)) if k not in [q[2] for q in same]]
            if same and (tie or twins or not free):
                p[2] = same[0][2]
            else:
                p[2] = rng.choice(free)
        # [start, end, product, core offset]: protoclusters of one product on the same coordinates differ in their
        # cores (D64: the core is part of the key) — except in the 5 % `tie` cases, where some share the core as well
        protos = [[p[0], p[1], p[2], i] for i, p in enumerate(protos)]
        if tie:
            for i, p in enumerate(protos):
                for q in protos[:i]:
                    if q[:3] == p[:3] and rng.random() < 0.7:
                        p[3] = q[3]
                        break
        groups = [list(range(len(protos)))]
        if rng.random() < 0.6:
            sub = sorted(rng.sample(range(len(protos)), rng.randrange(1, len(protos) + 1)))
            groups.append(sub)
        return {"kind": "uniq", "L": length, "circ": cross, "protos": protos, "groups": groups,
                "pseed": rng.randrange(1 << 30)}

    def rand_best(self, rng: random.Random) -> Dict[str, Any]:
        n = rng.choice([2, 3, 3, 4, 4, 5, 6])
        profs = rng.sample(range(6), rng.choice([2, 3, 4]))
        hits = []
        for i in range(n):
            if hits and rng.random() < 0.7:
                o = rng.choice(hits)
                start = max(0, o[2] + rng.choice([-5, 0, 5, 10, 30]))
            else:
                start = rng.randrange(0, 12) * 10
            ln = rng.choice([30, 45, 60, 100])
            hits.append([i, rng.choice(profs), start, start + ln, rng.choice([100, 200, 200, 300])])
        eq = [sorted(rng.sample(range(6), rng.choice([2, 3, 4]))) for _ in range(rng.choice([1, 1, 2]))]
        return {"kind": "best", "eq": eq, "hits": hits, "pseed": rng.randrange(1 << 30)}

    def rand_write(self, rng: random.Random) -> Dict[str, Any]:
        feats = []
        n = rng.choice([1, 2, 3, 4, 5])
        for _ in range(n):
            if feats and rng.random() < 0.5:
                o = rng.choice(feats)
                start, end = o["start"], o["end"] if rng.random() < 0.6 else o["end"] + 3
            else:
                start = rng.choice([0, 9, 30])
                end = start + rng.choice([9, 30, 60])
            keys = [k for k in rng.sample(range(len(QUAL_KEYS)), rng.choice([0, 1, 2, 3, 4])) if k != NOTE_RANK]
            quals = [[k - NOTE_RANK, rng.sample(range(len(VALS)), rng.choice([1, 2]))] for k in keys]
            notes = [rng.randrange(len(VALS)) for _ in range(rng.choice([0, 0, 1, 2, 3]))]
            feats.append({"start": start, "end": end, "quals": quals, "notes": notes})
        return {"kind": "write", "source": rng.random() < 0.5, "feats": feats, "pseed": rng.randrange(1 << 30)}

    def cases(self, rng: random.Random, tier: str, deep: bool) -> Iterator[Dict[str, Any]]:
        mult = 10 if deep else 1
        for _ in range(1200 * mult):
            yield {"kind": "names", "enum": self.rand_set(rng, len(RULE_NAMES), 6), "pseed": rng.randrange(1 << 30)}
        for _ in range(1500 * mult):
            yield {"kind": "defjson", "defs": self.rand_defs(rng), "pseed": rng.randrange(1 << 30)}
        for _ in range(1500 * mult):
            prev = None if rng.random() < 0.6 else self.rand_set(rng, len(DOMS), 3)
            defs = self.rand_defs(rng)
            domains = sorted(set(rng.sample(range(len(DOMS)), rng.choice([1, 2, 3, 4])) +
                                 [d for _, ds in defs for d in ds if rng.random() < 0.8]))
            rng.shuffle(domains)
            existing = []
            if rng.random() < 0.3 and defs and defs[0][1]:
                existing.append([True, rng.choice(defs[0][1]), defs[0][0]])
            if rng.random() < 0.2:
                existing.append([False, rng.randrange(len(DOMS)), None])
            yield {"kind": "annotate", "prev": prev, "existing": existing, "defs": defs, "domains": domains,
                   "pseed": rng.randrange(1 << 30)}
        for _ in range(1200 * mult):
            yield self.rand_uniq(rng)
        for _ in range(1200 * mult):
            yield self.rand_best(rng)
        for _ in range(800 * mult):
            yield self.rand_write(rng)
        for _ in range(500 * min(mult, 4)):
            yield self.rand_areas(rng)
        for _ in range(400 * min(mult, 4)):
            yield self.rand_outside(rng)
        for _ in range(400 * mult):
            yield self.rand_bycds(rng)
        for _ in range(20 * mult):
            yield self.rand_ruleopts(rng)
        if deep:
            yield from self.small_scope()

    def small_scope(self) -> Iterator[Dict[str, Any]]:
        """every set of ≤ 4 names out of 4 as a definition-domain set / rule-name set; every region of ≤ 3
           protoclusters over 2 starts × 2 ends × 2 products, on a line (all enumerations are run for each)"""
        total = 0
        for n in range(0, 5):
            for combo in itertools.combinations(range(4), n):
                total += 2
                yield {"kind": "names", "enum": list(combo), "pseed": 1}
                yield {"kind": "defjson", "defs": [[0, list(combo)], [1, list(combo)[::-1]]], "pseed": 1}
        singles = [[s, e, p] for s in (10, 50) for e in (200, 260) for p in (0, 1)]
        for n in (1, 2, 3):
            for combo in itertools.combinations(singles, n):
                total += 1
                protos = [[c[0], c[1], c[2], i] for i, c in enumerate(combo)]
                yield {"kind": "uniq", "L": 1000, "circ": False, "protos": protos, "groups": [list(range(n))], "pseed": 1}
        self.exhaustive_done = True
        self.extra_coverage = dict(getattr(self, "extra_coverage", {}) or {}, small_scope_cases=total)

    # ------------------------------------------------------------------ implementation adapters
    def run_impl(self, case: Dict[str, Any]) -> Dict[str, Any]:
        kind = case["kind"]
        if kind in MATRIX_KINDS:
            return self.impl_matrix(case)
        try:
            return getattr(self, "impl_" + kind)(case)
        except Exception as exc:  # pylint: disable=broad-except
            import traceback
            return {"err": err_kind(exc), "msg": str(exc)[:200], "trace": traceback.format_exc()[-800:]}

    @staticmethod
    def _collect(outs: List[Any]) -> Dict[str, Any]:
        same = all(o == outs[0] for o in outs)
        obs: Dict[str, Any] = {"out": outs[0], "runs": len(outs), "same": same}
        if not same:
            obs["other"] = next(o for o in outs if o != outs[0])
        return obs

    def impl_names(self, case: Dict[str, Any]) -> Dict[str, Any]:
        import types
        from antismash.common.hmm_rule_parser.structures import Multipliers
        from antismash.common.secmet.test.helpers import DummyRecord
        from antismash.detection import hmm_detection
        outs = []
        real = hmm_detection.get_ruleset
        try:
            for order in enumerations([RULE_NAMES[i] for i in case["enum"]], case["pseed"]):
                ruleset = types.SimpleNamespace(tool=TOOL, multipliers=Multipliers(),
                                                get_rule_names=lambda order=order: EnumSet(order))
                hmm_detection.get_ruleset = lambda _options, ruleset=ruleset: ruleset
                res = hmm_detection.run_on_record(DummyRecord(), None, types.SimpleNamespace(
                    hmmdetection_strictness="relaxed", hmmdetection_limit_to_rules=[],
                    hmmdetection_limit_to_categories=[]))
                outs.append([RULE_NAMES.index(n) for n in res.to_json()["enabled_types"]])
        finally:
            hmm_detection.get_ruleset = real
        return self._collect(outs)

    @staticmethod
    def _def_orders(case: Dict[str, Any]) -> List[List[List[Any]]]:
        """enumerations of every set of the dict, varied together"""
        per_set = [enumerations(list(ds), case["pseed"] + i) for i, (_, ds) in enumerate(case["defs"])]
        runs = max((len(p) for p in per_set), default=1)
        return [[[k, per_set[i][r % len(per_set[i])]] for i, (k, _) in enumerate(case["defs"])] for r in range(runs)]

    def impl_defjson(self, case: Dict[str, Any]) -> Dict[str, Any]:
        from antismash.common.hmm_rule_parser.cluster_prediction import CDSResults
        from antismash.common.secmet.qualifiers import SecMetQualifier
        from antismash.common.secmet.test.helpers import DummyCDS
        cds = DummyCDS(locus_tag="g")
        outs = []
        for defs in self._def_orders(case):
            res = CDSResults(cds, [SecMetQualifier.Domain("d_a", 1e-5, 10., 1, TOOL)],
                             {PRODS[k]: EnumSet([DOMS[d] for d in ds]) for k, ds in defs})
            data = json.loads(json.dumps(res.to_json()))["definition_domains"]
            outs.append([[PRODS.index(k), [DOMS.index(d) for d in v]] for k, v in data.items()])
        return self._collect(outs)

    def impl_annotate(self, case: Dict[str, Any]) -> Dict[str, Any]:
        from antismash.common.hmm_rule_parser.cluster_prediction import CDSResults
        from antismash.common.secmet.qualifiers import GeneFunction, SecMetQualifier
        from antismash.common.secmet.test.helpers import DummyCDS

        def dom(i: int) -> Any:
            return SecMetQualifier.Domain(DOMS[i], 1e-5, 10., 1, TOOL)
        outs = []
        after = None
        for defs in self._def_orders(case):
            cds = DummyCDS(locus_tag="g")
            if case["prev"] is not None:
                cds.sec_met = SecMetQualifier([dom(i) for i in case["prev"]])
            for core, d, p in case["existing"]:
                cds.gene_functions.add(GeneFunction.CORE if core else GeneFunction.ADDITIONAL, TOOL, DOMS[d],
                                       PRODS[p] if p is not None else None)
            res = CDSResults(cds, [dom(i) for i in case["domains"]],
                             {PRODS[k]: EnumSet([DOMS[d] for d in ds]) for k, ds in defs})
            res.annotate(TOOL)
            fns = []
            for f in cds.gene_functions:
                assert f.tool == TOOL and f.function in (GeneFunction.CORE, GeneFunction.ADDITIONAL)
                fns.append([f.function == GeneFunction.CORE, DOMS.index(f.description),
                            PRODS.index(f.product) if f.product else None])
            now = [DOMS.index(n) for n in cds.sec_met.domain_ids]
            assert after is None or after == now
            after = now
            outs.append(fns)
        obs = self._collect(outs)
        obs["domains_after"] = after
        return obs

    def impl_uniq(self, case: Dict[str, Any]) -> Dict[str, Any]:
        prng = random.Random(case["pseed"])
        length = case["L"]
        outs = []
        enum = None
        cross = None
        from .c17_child import build_region
        for _ in range(4):
            order = list(range(len(case["protos"])))
            prng.shuffle(order)
            region, objs = build_region(case, order, lambda: shake_heap(prng))
            index = {id(o): i for i, o in objs.items()}
            got = region.get_unique_protoclusters()
            outs.append([[int(p.start), len(p.location), PRODS.index(p.product), int(p.core_location.start),
                          int(p.core_location.end), index[id(p)]] for p in got])
            members = sorted({i for grp in case["groups"] for i in grp})
            enum = [[int(objs[i].start), len(objs[i].location), case["protos"][i][2], int(objs[i].core_location.start),
                     int(objs[i].core_location.end), i] for i in members]
            cross = bool(region.crosses_origin())
        obs = self._collect(outs)
        obs.update({"enum": enum, "cross": cross, "Lkey": length if cross else 0})
        return obs

    def impl_best(self, case: Dict[str, Any]) -> Dict[str, Any]:
        from antismash.common.hmm_rule_parser import cluster_prediction as cp
        from .c17_child import _CPHit, NAMES
        prng = random.Random(case["pseed"])
        outs: List[Any] = []
        for _ in range(4):
            order = list(range(len(case["hits"])))
            prng.shuffle(order)
            objs: Dict[int, Any] = {}
            for i in order:
                shake_heap(prng)
                objs[i] = _CPHit("cds", case["hits"][i])
            hits = [objs[i] for i in range(len(case["hits"]))]
            eq = [frozenset(NAMES[p] for p in grp) for grp in case["eq"]]
            try:
                results, by_id = cp.filter_results(list(hits), {"cds": list(hits)}, eq)
                assert [h.uid for h in results] == [h.uid for h in by_id["cds"]]
                outs.append([h.uid for h in by_id["cds"]])
            except AssertionError:
                outs.append(None)
        return self._collect(outs)

    def impl_write(self, case: Dict[str, Any]) -> Dict[str, Any]:
        from collections import OrderedDict
        from antismash.common.secmet.features import Feature, Source
        from antismash.common.secmet.locations import FeatureLocation
        from antismash.common.secmet.test.helpers import DummyRecord
        outs = []
        prng = random.Random(case["pseed"])
        for rep in range(4):
            rec = DummyRecord(seq="A" * 120)
            if case["source"]:
                rec.add_feature(Source(FeatureLocation(0, 120, 1)))
            for f in case["feats"]:
                quals = list(f["quals"])
                notes = list(f["notes"])
                if rep == 1:
                    quals.reverse()
                    notes.reverse()
                elif rep > 1:
                    prng.shuffle(quals)
                    prng.shuffle(notes)
                feature = Feature(FeatureLocation(f["start"], f["end"], 1), feature_type="misc_feature")
                feature._qualifiers = OrderedDict((QUAL_KEYS[k + NOTE_RANK], [VALS[v] for v in vals]) for k, vals in quals)
                feature.notes = [VALS[v] for v in notes]
                rec.add_feature(feature)
            out = []
            for bio in rec.to_biopython().features:
                if bio.type == "source":
                    assert sorted(bio.qualifiers) == list(bio.qualifiers)
                    out.append([int(bio.location.start), len(bio.location), True, []])
                    continue
                out.append([int(bio.location.start), len(bio.location), False,
                            [[QUAL_KEYS.index(k) - NOTE_RANK, [VALS.index(v) for v in vals]]
                             for k, vals in bio.qualifiers.items()]])
            outs.append(out)
        return self._collect(outs)

    # ------------------------------------------------------------------ area formation (candidates + regions)
    def rand_areas(self, rng: random.Random) -> Dict[str, Any]:
        """records whose protoclusters are given directly.  Three families:
           promoted — a chemical hybrid plus 2-3 protoclusters of different products on identical coordinates
                      whose cores overlap the hybrid's core without lying inside it (kind promotion → `singles` set);
           origin   — circular: an origin-spanning protocluster, an unrelated one in the middle and 2-4 before the
                      origin reaching it (the last section is merged into the first);
           random   — 2-6 protoclusters on a grid with ties, random shared core genes, linear or circular"""
        family = rng.choice(["promoted", "promoted", "origin", "origin", "random"])
        prods = list(range(5))
        rng.shuffle(prods)
        if family == "promoted":
            u = rng.choice([10, 10, 20])             # grid unit
            off = rng.choice([0, 3, 7]) * u
            length = 130 * u + off
            genes = [[off + 30 * u, off + 39 * u, [prods[0]]], [off + 40 * u, off + 50 * u, [prods[0], prods[1]]],
                     [off + 70 * u, off + 80 * u, [prods[1]]]]
            ps = [[prods[0], off + 30 * u, off + 50 * u, 20 * u], [prods[1], off + 40 * u, off + 80 * u, 20 * u]]
            nextra = rng.choice([2, 2, 3])
            lo, hi = off + 60 * u, off + 94 * u       # the common area of the extras, inside the hybrid's area
            for k in range(nextra):
                nb = rng.choice([10, 11, 12, 13]) * u - k * u
                ps.append([prods[2 + k], lo + nb, hi - nb, nb])
            if rng.random() < 0.4:
                ps.append([rng.choice(prods), off + 110 * u, off + 112 * u, 3 * u])
            if rng.random() < 0.3:
                ps[0][3] += u                         # sometimes the hybrid is not the outermost area
            case = {"len": length, "circ": False, "genes": genes, "ps": ps, "subs": []}
        elif family == "origin":
            length = 1000
            ps = [[prods[0], rng.choice([985, 990]), rng.choice([10, 15]), rng.choice([15, 20])],
                  [prods[1], 400, 410, 20]]
            n = rng.choice([2, 3, 3, 4])
            for k in range(n):
                cs = rng.choice([870, 880, 890, 900, 910, 920])
                nb = rng.choice([60, 65, 70, 75, 80])
                ps.append([prods[(2 + k) % 5], cs, cs + 10, nb])
            if rng.random() < 0.3:
                ps.append([rng.choice(prods), 100, 110, 20])
            if rng.random() < 0.45:
                # twins after the origin inside the origin-spanning region: one product, one area, different cores
                twin = rng.choice(prods)
                ps.append([twin, 20, 30, 12])
                ps.append([twin, 22, 28, 14])
            subs = [[930, 975]] if rng.random() < 0.3 else []
            order = list(range(len(ps)))
            if rng.random() < 0.5:
                rng.shuffle(order)
            case = {"len": length, "circ": True, "genes": [], "ps": [ps[i] for i in order], "subs": subs}
        else:
            length = 1000
            circ = rng.random() < 0.4
            genes = [[100 * k + 20, 100 * k + 50, sorted(rng.sample(range(5), rng.choice([0, 1, 2])))] for k in range(1, 8)]
            ps = []
            for _ in range(rng.choice([2, 3, 4, 5, 6])):
                if ps and rng.random() < 0.35:
                    o = rng.choice(ps)
                    other = [k for k in range(5) if k != o[0]]
                    # same coordinates, another product (2 %: the same product — outside the theorems' hypothesis)
                    ps.append([o[0] if rng.random() < 0.02 else rng.choice(other), o[1], o[2], o[3]])
                else:
                    cs = rng.choice([100, 200, 300, 500, 700]) + rng.choice([0, 10, 20])
                    ps.append([rng.randrange(5), cs, cs + rng.choice([40, 100, 140]), rng.choice([20, 50, 90])])
            case = {"len": length, "circ": circ, "genes": genes, "ps": ps, "subs": []}
        case.update({"kind": "areas", "family": family, "pseed": rng.randrange(1 << 30)})
        return case

    def gen_formation(self, rng: random.Random) -> Dict[str, Any]:
        case = self.rand_areas(rng)
        case["kind"] = "formation"
        # keep the child cases inside the theorems' scope: no two protoclusters with the same product and core
        seen = set()
        kept = []
        for p in case["ps"]:
            if (p[0], p[1], p[2]) not in seen:
                seen.add((p[0], p[1], p[2]))
                kept.append(p)
        case["ps"] = kept
        return case

    REBUILDS = 5

    def impl_areas(self, case: Dict[str, Any]) -> Dict[str, Any]:
        from antismash.common.secmet.features.candidate_cluster.formation import create_candidates_from_protoclusters
        from .c17_child import AREA_PRODUCTS, areas_texts, build_areas
        from . import common
        prng = random.Random(case["pseed"])
        outs = []
        keep = []
        first = None
        for _ in range(self.REBUILDS):
            try:
                record, protos, genes = build_areas(case, lambda: shake_heap(prng))
            except Exception as exc:  # pylint: disable=broad-except
                outs.append({"err": f"{err_kind(exc)}: {str(exc)[:120]}"})
                continue
            keep.append(record)
            outs.append(areas_texts(record, protos))
            if first is None:
                first = (record, protos, genes)
        obs = self._collect(outs)
        obs["out"] = {k: (v if len(v) < 300 else v[:300] + "…") for k, v in obs["out"].items()}
        if not obs["same"]:
            a, b = outs[0], obs.pop("other")
            key = next((k for k in a if a.get(k) != b.get(k)), "stages")
            obs["diff_stage"] = key
            obs["detail"] = difference_detail(key, [("rebuild-0", 0), ("rebuild-n", 0)], [a, b])
        if first is None:
            return obs
        # what the Lean models are given: the protoclusters as built, the candidates / subregions as formed
        record, protos, genes = first
        gene_index = {id(g): i for i, g in enumerate(genes)}
        obs["ps"] = [{"loc": common.location_json(p.location), "core": common.location_json(p.core_location),
                      "defs": sorted(gene_index[id(c)] for c in p.definition_cdses), "product": p.product}
                     for p in protos]
        cands = list(record.get_candidate_clusters())
        subs = list(record.get_subregions())
        cand_index = {id(c): i for i, c in enumerate(cands)}
        sub_index = {id(s): 1000 + i for i, s in enumerate(subs)}
        obs["cands"] = [{"id": i, "loc": common.location_json(c.location)} for i, c in enumerate(cands)]
        obs["subs"] = [{"id": 1000 + i, "loc": common.location_json(s.location)} for i, s in enumerate(subs)]
        obs["sections"] = sorted([cand_index[id(c)] for c in r.candidate_clusters] + [sub_index[id(s)] for s in r.subregions]
                                 for r in record.get_regions())
        # the formation function itself (the record re-inserts its result; ties come out mirrored there)
        try:
            fresh, fprotos, _ = build_areas(dict(case, subs=[]), None)
            index = {id(p): i for i, p in enumerate(fprotos)}
            formed = create_candidates_from_protoclusters(list(fresh.get_protoclusters()),
                                                          circular_wrap_point=case["len"] if case["circ"] else None)
            obs["formed"] = [[str(c.kind), [index[id(p)] for p in c.protoclusters]] for c in formed]
        except Exception as exc:  # pylint: disable=broad-except
            obs["formed"] = {"err": err_kind(exc)}
        return obs

    # ------------------------------------------------------------------ build_results / --sideload-by-cds
    def rand_outside(self, rng: random.Random) -> Dict[str, Any]:
        """a record that already has subregions holding several genes with profile hits that end up in no protocluster"""
        length = 600
        genes: List[Dict[str, Any]] = []
        for k in rng.sample(range(0, 18), rng.choice([3, 4, 5, 6, 7])):
            lo = k * 30
            hits = rng.sample(["a", "b", "c"], rng.choice([0, 1, 1, 2]))
            genes.append({"name": f"g{len(genes)}", "loc": {"c": False, "parts": [[lo, lo + 30, rng.choice([1, -1])]]},
                          "hits": [[p, 10] for p in hits]})
        subs = []
        for _ in range(rng.choice([1, 1, 2])):
            lo = rng.choice([0, 30, 90, 150])
            subs.append([lo, min(length, lo + rng.choice([150, 240, 390]))])
        cond = rng.choice(["a", "a and b", "d", "a or c"])
        return {"kind": "outside", "len": length, "circ": False, "profiles": ["a", "b", "c", "d"], "cats": ["cat0"],
                "rules": f"RULE ra CATEGORY cat0 CUTOFF 1 NEIGHBOURHOOD 1 CONDITIONS {cond}\n", "dist": [[rng.choice([10, 40]), 10]],
                "genes": genes, "subs": subs, "pseed": rng.randrange(1 << 30)}

    def impl_outside(self, case: Dict[str, Any]) -> Dict[str, Any]:
        from antismash.common import json as ajson
        from antismash.common.hmm_rule_parser import cluster_prediction as cp
        from .c17_child import build_record, build_ruleset
        prng = random.Random(case["pseed"])
        outs = []
        extra: Dict[str, Any] = {}
        keep = []
        for _ in range(5):
            rec = build_record(case, lambda: shake_heap(prng))
            keep.append(rec)
            res = cp.detect_protoclusters_and_signatures(rec, build_ruleset(case))
            names = [r.cds.get_name() for r in res.cdses_outside_clusters]
            text = ajson.dumps(res.to_json()["outside_protoclusters"])
            outs.append({"outside": [int(n[1:]) for n in names], "json": text if isinstance(text, str) else text.decode()})
            if not extra:
                extra = {"subs": [[int(c.get_name()[1:]) for c in sub.cds_children] for sub in rec.get_subregions()],
                         "annotated": sorted({int(r.cds.get_name()[1:]) for rs in res.cds_by_cluster.values() for r in rs}),
                         "with_domains": [i for i, g in enumerate(case["genes"]) if g["hits"]]}
        obs = self._collect(outs)
        obs.update(extra)
        return obs

    def rand_bycds(self, rng: random.Random) -> Dict[str, Any]:
        length = rng.choice([500, 5000])
        genes = []
        for k in rng.sample(range(1, 9), rng.choice([2, 3, 4])):
            lo = k * (length // 10)
            genes.append([lo, lo + 30, rng.choice([1, -1])])
        tags = [rng.randrange(len(genes) + 1) for _ in range(rng.choice([2, 2, 3, 4]))]     # one unknown tag possible
        return {"kind": "bycds", "len": length, "circ": rng.random() < 0.3, "genes": genes,
                "tags": [f"g{t}" for t in tags], "pad": rng.choice([20, 60, 20000])}

    def impl_bycds(self, case: Dict[str, Any]) -> Dict[str, Any]:
        import logging
        from .c17_child import sideload_by_cds
        logging.disable(logging.CRITICAL)      # an unknown tag is reported with a warning
        try:
            _, results = sideload_by_cds(case)
        finally:
            logging.disable(logging.NOTSET)
        return {"out": [[int(a.start), int(a.end), int(a.label[1:])] for a in results.subregions], "same": True,
                "protoclusters": len(results.protoclusters)}

    def gen_sideload(self, rng: random.Random) -> Dict[str, Any]:
        case = self.rand_bycds(rng)
        case["kind"] = "sideload"
        return case

    # ------------------------------------------------------------------ get_ruleset: rule subset options
    _FULL_RULES: Dict[str, List[Tuple[str, str]]] = {}

    @classmethod
    def full_rules(cls, strictness: str) -> List[Tuple[str, str]]:
        """(name, category) of the shipped rules of a strictness level, in rule-file order (the real get_ruleset)"""
        if strictness not in cls._FULL_RULES:
            from antismash.config import build_config, destroy_config
            from antismash.detection import hmm_detection
            options = build_config(["--hmmdetection-strictness", strictness], isolated=True, modules=[hmm_detection])
            try:
                cls._FULL_RULES[strictness] = [(r.name, r.category) for r in hmm_detection.get_ruleset(options).rules]
            finally:
                destroy_config()
        return cls._FULL_RULES[strictness]

    def rand_ruleopts(self, rng: random.Random) -> Dict[str, Any]:
        strictness = rng.choice(["strict", "relaxed", "loose"])
        rules = self.full_rules(strictness)
        names = rng.sample([n for n, _ in rules], rng.choice([0, 2, 3, 5, 8])) if rng.random() < 0.8 else []
        cats = rng.sample(sorted({c for _, c in rules}), rng.choice([1, 2])) if rng.random() < 0.4 or not names else []
        if names and rng.random() < 0.3:
            names.append(names[0])      # a name given twice
        return {"kind": "ruleopts", "strictness": strictness, "names": names, "cats": cats, "pseed": rng.randrange(1 << 30)}

    def impl_ruleopts(self, case: Dict[str, Any]) -> Dict[str, Any]:
        from antismash.common.secmet.test.helpers import DummyRecord
        from antismash.config import build_config, destroy_config
        from antismash.detection import hmm_detection
        prng = random.Random(case["pseed"])
        outs = []
        for rep in range(3):
            names, cats = list(case["names"]), list(case["cats"])
            if rep == 1:
                names.reverse()
                cats.reverse()
            elif rep == 2:
                prng.shuffle(names)
                prng.shuffle(cats)
            args = ["--hmmdetection-strictness", case["strictness"]]
            if names:
                args += ["--hmmdetection-limit-to-rule-names", ",".join(names)]
            if cats:
                args += ["--hmmdetection-limit-to-rule-categories", ",".join(cats)]
            options = build_config(args, isolated=True, modules=[hmm_detection])
            try:
                problems = hmm_detection.check_options(options)
                if problems:
                    outs.append({"rejected": len(problems)})
                    continue
                ruleset = hmm_detection.get_ruleset(options)
                results = hmm_detection.run_on_record(DummyRecord(), None, options)
                outs.append({"rules": [r.name for r in ruleset.rules], "enabled": list(results.enabled_types)})
            finally:
                destroy_config()
        return self._collect(outs)

    # ------------------------------------------------------------------ child matrix (also used by --replay)
    DEFAULT_SPECS = [("0", 0), ("1", 911), ("2", 3517), ("3", 77), ("4", 1203), ("5", 2600), ("6", 40), ("random", 1999)]

    def impl_matrix(self, case: Dict[str, Any]) -> Dict[str, Any]:
        specs = [tuple(s) for s in case.get("_children", [])] or self.DEFAULT_SPECS
        pool = ChildPool(specs)     # type: ignore[arg-type]
        try:
            per_child = [outs[0] for outs in pool.run([case])]
        finally:
            pool.close()
        return self.matrix_obs(case, specs, per_child)     # type: ignore[arg-type]

    @staticmethod
    def matrix_obs(case: Dict[str, Any], specs: List[Tuple[str, int]], per_child: List[Dict[str, str]]) -> Dict[str, Any]:
        stage = first_difference(case["kind"], per_child)
        obs: Dict[str, Any] = {"children": len(specs), "diff_stage": stage,
                               "stages": {k: (v if len(v) < 400 else v[:400] + "…") for k, v in per_child[0].items()}}
        if stage:
            obs["detail"] = difference_detail(stage, specs, per_child)
            obs["all_differing_stages"] = [k for k in per_child[0] if len({c.get(k) for c in per_child}) > 1]
        return obs

    # ------------------------------------------------------------------ driver + judge
    def driver_line(self, case: Dict[str, Any], obs: Dict[str, Any]) -> Optional[Dict[str, Any]]:
        kind = case["kind"]
        if kind in MATRIX_KINDS or "err" in obs:
            return None
        if kind == "names":
            return {"k": "names", "enum": case["enum"], "impl": obs["out"]}
        if kind == "defjson":
            return {"k": "defjson", "defs": case["defs"], "impl": obs["out"]}
        if kind == "annotate":
            return {"k": "annotate", "existing": case["existing"], "prev": case["prev"] or [], "defs": case["defs"],
                    "domains": case["domains"], "impl_domains_after": obs["domains_after"]}
        if kind == "uniq":
            return {"k": "uniq", "cross": obs["cross"], "L": obs["Lkey"], "enum": obs["enum"], "impl": obs["out"]}
        if kind == "best":
            return {"k": "best", "eq": case["eq"], "hits": case["hits"]}
        if kind == "ruleopts":
            if "rules" not in obs["out"]:
                return None
            rules = self.full_rules(case["strictness"])
            name_rank = {n: i for i, n in enumerate(sorted({n for n, _ in rules}))}
            cat_rank = {c: i for i, c in enumerate(sorted({c for _, c in rules}))}
            return {"k": "ruleopts", "rules": [[name_rank[n], cat_rank[c]] for n, c in rules],
                    "names": [name_rank[n] for n in case["names"]], "cats": [cat_rank[c] for c in case["cats"]]}
        if kind == "outside":
            return {"k": "outside", "subs": obs["subs"], "annotated": obs["annotated"], "with_domains": obs["with_domains"]}
        if kind == "bycds":
            return {"k": "bycds", "circ": case["circ"], "len": case["len"], "pad": case["pad"],
                    "genes": [[g[0], g[1]] for g in case["genes"]], "tags": [int(t[1:]) for t in case["tags"]]}
        if kind == "areas":
            if "ps" not in obs:
                return None
            return {"k": "areas", "wrap": case["len"] if case["circ"] else 0, "ps": obs["ps"], "cands": obs["cands"],
                    "subs": obs["subs"]}
        if kind == "write":
            groups = [[{"start": 0, "len": 120, "source": True, "quals": [], "notes": []}] if case["source"] else [],
                      [{"start": f["start"], "len": f["end"] - f["start"], "source": False, "quals": f["quals"],
                        "notes": f["notes"]} for f in case["feats"]]]
            return {"k": "write", "groups": groups}
        return None

    def judge(self, case: Dict[str, Any], obs: Dict[str, Any], drv: Optional[Dict[str, Any]]) -> Judgement:
        kind = case["kind"]
        if kind in MATRIX_KINDS:
            stage = obs.get("diff_stage")
            return Judgement(True, stage is None, True, PENDING.get(stage) if stage else None, True, (kind,),
                             obs.get("detail", ""))
        if "err" in obs:
            return Judgement(False, False, True, None, False, (kind, "error"), f"{obs['err']}: {obs.get('msg')} {obs.get('trace', '')[-300:]}")
        same = obs["same"]
        if kind == "areas":
            return self.judge_areas(case, obs, drv)
        if kind == "ruleopts":
            if drv is None or "model" not in drv:
                return Judgement(True, same, True, None, False, ("ruleopts", "rejected"), "" if same else str(obs))
            names = sorted({n for n, _ in self.full_rules(case["strictness"])})
            model = [names[i] for i in drv["model"]]
            enabled = [names[i] for i in drv["enabled"]]
            corr = obs["out"]["rules"] == model and obs["out"]["enabled"] == enabled and drv["model"] == drv["model_rev"]
            detail = "" if same and corr else f"impl {obs['out']} other {obs.get('other')} model {model} / {enabled}"
            return Judgement(corr, same, True, None, bool(drv["nontrivial"]), ("ruleopts",), detail)
        if kind == "outside" and drv is not None and "model" in drv:
            corr = obs["out"]["outside"] == drv["model"] and drv["model"] == drv["model_rev"]
            tags = ["outside"] + (["outside:set-walk-would-differ"] if drv["set_walk_differs"] else [])
            detail = "" if same and corr else f"impl {obs['out']['outside']} other {obs.get('other', {}).get('outside')} model {drv['model']}"
            return Judgement(corr, same, True, None, bool(drv["nontrivial"]), tuple(tags), detail)
        if kind == "bycds" and drv is not None and "model" in drv:
            corr = obs["out"] == drv["model"]
            # the subregions follow the order of the tags on the command line (whether a repeated tag gives a second
            # subregion is the model's business — correspondence —, not this property's)
            labels = [a[2] for a in obs["out"]]
            spec = labels == drv["labels"] or labels == list(dict.fromkeys(drv["labels"]))
            detail = "" if corr and spec else f"impl {obs['out']} model {drv['model']} tags {case['tags']}"
            return Judgement(corr, spec, True, None, bool(drv["nontrivial"]), ("bycds",), detail)
        if drv is None or "err" in drv:
            return Judgement(False, same, True, None, False, (kind, "driver-error"), str(drv))
        model = drv["model"]
        corr = obs["out"] == model
        if kind == "annotate" and drv.get("domains_after") != obs.get("domains_after"):
            corr = False       # SecMetQualifier.add_domains: the gene's domain ids after the call
        tags = [kind]
        known = None
        in_scope = bool(drv.get("scope", True))
        spec = same and bool(drv.get("spec", True))
        if kind == "uniq" and drv["tie"]:
            # two members agree on the whole key (start, -len, product, core): outside the theorem's hypothesis,
            # any listing in key order is as good as the model's
            tags.append("key-tie")
            corr = corr or bool(drv["spec"])
            if not same:
                known = KF_KEY_TIE
        elif kind == "uniq" and drv["tie_nocore"]:
            tags.append("same-product-twins")      # decided by the core (D64)
            if case.get("circ"):
                tags.append("same-product-twins-cross-origin")
        if kind == "best":
            if drv["model"] != drv["model_rev"]:
                return Judgement(False, False, True, None, False, (kind, "model-not-invariant"), str(drv))
            if drv["ties"]:
                tags.append("score-tie")
        detail = ""
        if not (corr and spec):
            detail = f"impl {obs['out']} other-enumeration {obs.get('other')} model {model} spec={drv.get('spec')} same={same}"
        return Judgement(corr, spec, in_scope, known, bool(drv.get("nontrivial")), tuple(tags), detail)

    def judge_areas(self, case: Dict[str, Any], obs: Dict[str, Any], drv: Optional[Dict[str, Any]]) -> Judgement:
        same = obs["same"]
        tags = ["areas", "areas:" + case.get("family", "?")]
        detail = "" if same else obs.get("detail", "rebuilds differ")
        if drv is None or "ps" not in obs:
            tags.append("areas:build-error")
            return Judgement(True, same, True, None, False, tuple(tags), detail)
        if "err" in drv and "cands" not in drv:
            return Judgement(False, same, True, None, False, tuple(tags + ["driver-error"]), str(drv))
        corr = True
        # the model's own enumerator variants must agree (theorem formation_singles_enumeration_invariant_partial)
        if drv["scope"] and drv["cands"] != drv["cands_rev"]:
            return Judgement(False, False, True, None, False, tuple(tags + ["model-not-invariant"]), str(drv)[:400])
        if drv["cands_unsorted_differ"]:
            tags.append("areas:promoted-singles-order-matters")
        if drv["sections"] is not None and drv["sections"] != drv["sections_rev"]:
            tags.append("areas:origin-merge-order-matters")
        formed = obs.get("formed")
        if isinstance(formed, list) and drv["cands"] is not None:
            model = [[k, m] for k, m in drv["cands"]]
            if formed != model:
                corr = False
                detail += f" formation: impl {formed} model {model}"
        elif isinstance(formed, list) != (drv["cands"] is not None):
            tags.append("areas:error-mismatch")      # C05's business (error kinds); not an order question
        if drv["sections"] is not None:
            if sorted(drv["sections"]) != obs["sections"]:
                corr = False
                detail += f" regions: impl {obs['sections']} model {sorted(drv['sections'])}"
        known = None
        if not drv["scope"]:
            # two protoclusters with the same product and core: outside the hypothesis (TieInj) of the order theorems
            tags.append("areas:tie-key")
            corr = True
            if not same:
                known = KF_TIE_KEY
        return Judgement(corr, same, bool(drv["scope"]), known, True, tuple(tags), detail.strip())

    # ------------------------------------------------------------------ shrinking (in-process kinds)
    def shrink(self, case: Dict[str, Any]) -> Iterator[Dict[str, Any]]:
        kind = case["kind"]
        if kind in MATRIX_KINDS:
            return
        if kind == "names":
            for i in range(len(case["enum"])):
                yield dict(case, enum=case["enum"][:i] + case["enum"][i + 1:])
        elif kind in ("defjson", "annotate"):
            defs = case["defs"]
            for i in range(len(defs)):
                if len(defs) > 1:
                    yield dict(case, defs=defs[:i] + defs[i + 1:])
                for j in range(len(defs[i][1])):
                    nd = [list(d) for d in defs]
                    nd[i] = [defs[i][0], defs[i][1][:j] + defs[i][1][j + 1:]]
                    yield dict(case, defs=nd)
            if kind == "annotate":
                for i in range(len(case["domains"])):
                    if len(case["domains"]) > 1:
                        yield dict(case, domains=case["domains"][:i] + case["domains"][i + 1:])
                if case["existing"]:
                    yield dict(case, existing=[])
                if case["prev"]:
                    yield dict(case, prev=None)
        elif kind == "uniq":
            n = len(case["protos"])
            if len(case["groups"]) > 1:
                yield dict(case, groups=case["groups"][:1])
            for i in range(n):
                if n <= 1:
                    break
                keep = [k for k in range(n) if k != i]
                remap = {k: j for j, k in enumerate(keep)}
                groups = [[remap[k] for k in g if k in remap] for g in case["groups"]]
                groups = [g for g in groups if g]
                if groups:
                    yield dict(case, protos=[case["protos"][k] for k in keep], groups=groups)
        elif kind == "best":
            for i in range(len(case["hits"])):
                hits = [list(h) for k, h in enumerate(case["hits"]) if k != i]
                for j, h in enumerate(hits):
                    h[0] = j
                if hits:
                    yield dict(case, hits=hits)
            if len(case["eq"]) > 1:
                yield dict(case, eq=case["eq"][:1])
        elif kind == "outside":
            for i in range(len(case["genes"])):
                if len(case["genes"]) > 1:
                    genes = [dict(g, name=f"g{j}") for j, g in enumerate(case["genes"][:i] + case["genes"][i + 1:])]
                    yield dict(case, genes=genes)
            if len(case["subs"]) > 1:
                yield dict(case, subs=case["subs"][:1])
                yield dict(case, subs=case["subs"][1:])
        elif kind == "ruleopts":
            for i in range(len(case["names"])):
                yield dict(case, names=case["names"][:i] + case["names"][i + 1:])
            if case["cats"] and case["names"]:
                yield dict(case, cats=[])
        elif kind == "bycds":
            for i in range(len(case["tags"])):
                if len(case["tags"]) > 1:
                    yield dict(case, tags=case["tags"][:i] + case["tags"][i + 1:])
        elif kind == "areas":
            for i in range(len(case["ps"])):
                if len(case["ps"]) > 1:
                    yield dict(case, ps=case["ps"][:i] + case["ps"][i + 1:])
            if case.get("subs"):
                yield dict(case, subs=[])
            for i in range(len(case["genes"])):
                yield dict(case, genes=case["genes"][:i] + case["genes"][i + 1:])
        elif kind == "write":
            for i in range(len(case["feats"])):
                if len(case["feats"]) > 1:
                    yield dict(case, feats=case["feats"][:i] + case["feats"][i + 1:])

    # ------------------------------------------------------------------ matrix generators
    def gen_pipeline(self, rng: random.Random) -> Dict[str, Any]:
        length = rng.choice([300, 600, 600, 900])
        circ = rng.random() < 0.3
        conds = ["a", "a or b", "a and b", "cds(a and b)", "minimum(2,[a,b,c])", "a or c or d", "b and not d",
                 "cds(a or b) and c", "d", "c or d"]
        nrules = rng.choice([1, 2, 2, 3, 3])
        tied = rng.random() < 0.35
        text = ""
        dist = []
        base_cut, base_nb = rng.choice([15, 30, 45]), rng.choice([10, 20])
        for i in range(nrules):
            text += f"RULE r{'abc'[i]} CATEGORY cat{i % 2} CUTOFF 1 NEIGHBOURHOOD 1 CONDITIONS {rng.choice(conds)}\n"
            if tied:
                dist.append([base_cut, base_nb])
            else:
                dist.append([rng.choice([15, 30, 45]), base_nb + 7 * i])
        genes: List[Dict[str, Any]] = []
        taken = set()
        n = rng.choice([2, 3, 3, 4, 5, 6, 7])
        for _ in range(n):
            if genes and rng.random() < 0.3:
                o = rng.choice(genes)["loc"]["parts"][0]
                lo, hi, strand = o[0], o[1], -o[2]
            else:
                lo = rng.randrange(0, length // 30 - 2) * 30
                hi = lo + rng.choice([30, 30, 60])
                strand = rng.choice([1, -1])
            if hi > length or (lo, hi, strand) in taken:
                continue
            taken.add((lo, hi, strand))
            profs = rng.sample(["a", "b", "c", "d"], rng.choice([1, 1, 2, 3]))
            genes.append({"name": f"g{len(genes)}", "loc": {"c": False, "parts": [[lo, hi, strand]]},
                          "hits": [[p, rng.choice([5, 10])] for p in profs]})
        if circ and rng.random() < 0.3:
            genes.append({"name": f"g{len(genes)}", "loc": {"c": True, "parts": [[length - 15, length, 1], [0, 15, 1]]},
                          "hits": [[rng.choice(["a", "b"]), 10]]})
        return {"kind": "pipeline", "len": length, "circ": circ, "profiles": ["a", "b", "c", "d"], "cats": ["cat0", "cat1"],
                "rules": text, "dist": dist, "genes": genes, "_tied": tied}

    def gen_refine(self, rng: random.Random) -> Dict[str, Any]:
        from .c13 import C13
        c13 = C13()
        lens = c13.rand_lens(rng)
        genes = [c13.rand_hits(rng, lens) for _ in range(rng.choice([1, 2, 3]))]
        if rng.random() < 0.5:
            # D11's shape: several profiles, same interval, same score
            s, e = rng.choice([0, 5]), rng.choice([50, 100])
            profs = rng.sample(range(6), rng.choice([2, 3, 4]))
            gene = [[p, s, e, 1, 300] for p in profs]
            if rng.random() < 0.7:
                # … and one of the profiles hits the gene a second time (a fragment further along, or one that
                # merges with the first): `_merge_domain_list` then really has categories to walk
                far = rng.random() < 0.5
                lo = e + (lens[profs[0]] * 2 if far else 1)
                gene.append([profs[0], lo, lo + rng.choice([5, 10]), 1, rng.choice([100, 300])])
                rng.shuffle(gene)
            genes.append(gene)
        return {"kind": "refine", "lens": lens, "nb": rng.random() < 0.5, "genes": genes}

    def gen_filter(self, rng: random.Random) -> Dict[str, Any]:
        genes = []
        uid = 0
        for _ in range(rng.choice([1, 2, 3])):
            hits = self.rand_best(rng)["hits"]
            for h in hits:
                h[0] = uid
                uid += 1
            genes.append(hits)
        eq = [sorted(rng.sample(range(6), rng.choice([2, 3, 4]))) for _ in range(rng.choice([1, 1, 2]))]
        return {"kind": "filter", "eq": eq, "genes": genes}

    def gen_hmmer(self, rng: random.Random) -> Dict[str, Any]:
        from .c13 import C13
        case = C13().rand_hmmer(rng)
        case = {k: v for k, v in case.items() if k != "pseed"}
        case["kind"] = "hmmer"
        return case

    def gen_region(self, rng: random.Random) -> Dict[str, Any]:
        case = self.rand_uniq(rng)
        case["kind"] = "region"
        # keep the child cases inside the theorem's scope: same-key ties are the in-process class
        # (and, as long as fixes/D64 is not in the tree, same-product protoclusters on the same coordinates too)
        seen = set()
        kept = []
        for orig, p in enumerate(case["protos"]):
            free = [k for k in range(len(PRODS)) if (p[0], p[1], k) not in seen]
            if not free:
                continue
            if (p[0], p[1], p[2]) in seen:
                p[2] = free[0]
            seen.add((p[0], p[1], p[2]))
            kept.append((orig, p))
        remap = {orig: i for i, (orig, _) in enumerate(kept)}
        case["groups"] = [g for g in ([remap[i] for i in grp if i in remap] for grp in case["groups"]) if g]
        case["protos"] = [[p[0], p[1], p[2], i] for i, (_, p) in enumerate(kept)]
        return case

    def matrix_cases(self, rng: random.Random, tier: str, deep: bool) -> List[Dict[str, Any]]:
        scale = 3 if tier == "thorough" else 1
        cases: List[Dict[str, Any]] = []
        for _ in range(70 * scale):
            cases.append(self.gen_pipeline(rng))
        for _ in range(60 * scale):
            cases.append(self.gen_refine(rng))
        for _ in range(60 * scale):
            cases.append(self.gen_filter(rng))
        for _ in range(25 * scale):
            cases.append(self.gen_hmmer(rng))
        for _ in range(50 * scale):
            cases.append(self.gen_region(rng))
        for _ in range(6 * scale):
            cases.append(self.gen_ruleset(rng))
        for _ in range(45 * scale):
            cases.append(self.gen_formation(rng))
        for _ in range(25 * scale):
            case = self.rand_outside(rng)       # record pipelines with pre-existing subregions
            case["kind"] = "pipeline"
            cases.append(case)
        for _ in range(40 * scale):
            cases.append(self.gen_sideload(rng))
        return cases

    RULE_POOL = ["T1PKS", "NRPS", "T3PKS", "terpene", "lanthipeptide-class-i", "lanthipeptide-class-ii", "thiopeptide",
                 "NRPS-like", "transAT-PKS", "PKS-like", "hglE-KS", "T2PKS", "arylpolyene", "siderophore", "betalactone",
                 "RiPP-like", "lassopeptide", "sactipeptide", "ectoine", "butyrolactone"]

    def gen_ruleset(self, rng: random.Random) -> Dict[str, Any]:
        """the shipped rules restricted with --hmmdetection-limit-to-rule-names / -categories"""
        case: Dict[str, Any] = {"kind": "ruleset", "strictness": rng.choice(["strict", "relaxed", "loose"])}
        if rng.random() < 0.8:
            case["names"] = rng.sample(self.RULE_POOL, rng.choice([2, 3, 5, 8]))
        else:
            case["categories"] = rng.sample(["PKS", "NRPS", "RiPP", "terpene", "other"], rng.choice([1, 2, 3]))
        return case

    def shrink_matrix(self, case: Dict[str, Any]) -> Iterator[Dict[str, Any]]:
        kind = case["kind"]
        if kind == "pipeline":
            genes = case["genes"]
            for i in range(len(genes)):
                if len(genes) > 1:
                    yield dict(case, genes=genes[:i] + genes[i + 1:])
            rules = case["rules"].splitlines(keepends=True)
            for i in range(len(rules)):
                if len(rules) > 1:
                    yield dict(case, rules="".join(rules[:i] + rules[i + 1:]), dist=case["dist"][:i] + case["dist"][i + 1:])
            for i, g in enumerate(genes):
                for j in range(len(g["hits"])):
                    if len(g["hits"]) > 1:
                        ng = dict(g, hits=g["hits"][:j] + g["hits"][j + 1:])
                        yield dict(case, genes=genes[:i] + [ng] + genes[i + 1:])
            if case["circ"] and all(not g["loc"]["c"] for g in genes):
                yield dict(case, circ=False)
        elif kind in ("refine", "filter"):
            genes = case["genes"]
            for i in range(len(genes)):
                if len(genes) > 1:
                    yield dict(case, genes=genes[:i] + genes[i + 1:])
                for j in range(len(genes[i])):
                    if len(genes[i]) > 1:
                        yield dict(case, genes=genes[:i] + [genes[i][:j] + genes[i][j + 1:]] + genes[i + 1:])
            if kind == "filter" and len(case["eq"]) > 1:
                yield dict(case, eq=case["eq"][:1])
        elif kind == "hmmer":
            for i in range(len(case["hits"])):
                if len(case["hits"]) > 1:
                    yield dict(case, hits=case["hits"][:i] + case["hits"][i + 1:])
        elif kind == "region":
            for cand in self.shrink(dict(case, kind="uniq")):
                yield dict(cand, kind="region")
        elif kind == "formation":
            for cand in self.shrink(dict(case, kind="areas")):
                yield dict(cand, kind="formation")
        elif kind == "sideload":
            for cand in self.shrink(dict(case, kind="bycds")):
                yield dict(cand, kind="sideload")

    def child_specs(self, rng: random.Random, tier: str) -> List[Tuple[str, int]]:
        k = 48 if tier == "thorough" else 6
        specs = [(str(s), rng.randrange(0, 6000)) for s in range(k + 1)]
        specs.append(("random", rng.randrange(0, 6000)))
        return specs

    def extra_checks(self, rng: random.Random, tier: str, deep: bool) -> List[Failure]:
        specs = self.child_specs(rng, tier)
        cases = self.corpus_matrix() + self.matrix_cases(rng, tier, deep)
        failures: List[Failure] = []
        wave = 16
        per_case: List[List[Dict[str, str]]] = [[] for _ in cases]
        pools: List[ChildPool] = []
        try:
            for lo in range(0, len(specs), wave):
                pool = ChildPool(specs[lo:lo + wave])
                pools.append(pool)
                for child_outs in pool.run(cases):
                    for i, out in enumerate(child_outs):
                        per_case[i].append(out)
                pool.close()
                pools.pop()
            self.extra_evaluations = len(cases) * len(specs)
            tags: Dict[str, int] = {}
            seen_known = set()
            for case, outs in zip(cases, per_case):
                obs = self.matrix_obs(case, specs, outs)
                stage = obs["diff_stage"]
                tags[case["kind"]] = tags.get(case["kind"], 0) + 1
                if not stage:
                    continue
                known = PENDING.get(stage)
                if known and known in seen_known:
                    continue
                if not known and len([f for f in failures if not f.known]) >= 3:
                    continue
                small, small_obs = self.shrink_against(case, stage, specs, outs)
                if "_children" not in small:
                    small = dict(small, _children=[list(s) for s in specs[:12]])
                failures.append(Failure("spec", small, small_obs, None, small_obs.get("detail", ""), known))
                if known:
                    seen_known.add(known)
            self.extra_coverage = dict(getattr(self, "extra_coverage", {}) or {},
                                       child_interpreters=len(specs), child_cases=len(cases),
                                       child_case_kinds=tags,
                                       hash_seeds=[s for s, _ in specs][:8] + (["…"] if len(specs) > 8 else []))
        finally:
            for pool in pools:
                pool.close()
        return failures

    def shrink_against(self, case: Dict[str, Any], stage: str, specs: List[Tuple[str, int]],
                       outs: List[Dict[str, str]]) -> Tuple[Dict[str, Any], Dict[str, Any]]:
        """delta-debug a differing case against a fresh pool of the children that disagreed"""
        # two children from each of two different answers are enough to keep the difference alive
        by_text: Dict[str, List[int]] = {}
        for i, out in enumerate(outs):
            by_text.setdefault(out.get(stage, ""), []).append(i)
        picked: List[int] = []
        for idxs in list(by_text.values())[:4]:
            picked.extend(idxs[:2])
        sub_specs = [specs[i] for i in picked if specs[i][0] != "random"] or [specs[i] for i in picked]
        best = case
        best_obs = self.matrix_obs(case, specs, outs)
        pool = ChildPool(sub_specs)
        try:
            per = [o[0] for o in pool.run([case])]
            if first_difference(case["kind"], per) != stage:
                return best, best_obs      # address-dependent: not reproduced in fresh children, keep the original
            best_obs = self.matrix_obs(case, sub_specs, per)
            steps = 0
            improved = True
            while improved and steps < 200:
                improved = False
                for cand in self.shrink_matrix(best):
                    steps += 1
                    if steps > 200:
                        break
                    per = [o[0] for o in pool.run([cand])]
                    if first_difference(cand["kind"], per) == stage:
                        best, best_obs = cand, self.matrix_obs(cand, sub_specs, per)
                        improved = True
                        break
            best = dict(best, _children=[list(s) for s in sub_specs])
        finally:
            pool.close()
        return best, best_obs

    def corpus_matrix(self) -> List[Dict[str, Any]]:
        return [c for c in Property.corpus(self) if c.get("kind") in MATRIX_KINDS]

    def corpus(self) -> List[Dict[str, Any]]:
        # matrix witnesses are run inside the child matrix (one pool for all of them), not one pool per case
        return [c for c in Property.corpus(self) if c.get("kind") not in MATRIX_KINDS]


PROP = C17
