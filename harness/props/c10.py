"""C10 — annotated records survive GenBank and JSON round trips unchanged.

Implementation under test: the secmet <-> Biopython feature layer (every to_biopython/from_biopython
pair of Feature, CDSCollection, Protocluster (+Sideloaded), SubRegion (+Sideloaded), CandidateCluster,
Region), Record.to_biopython / from_biopython / add_biopython_feature and the add_* bookkeeping,
serialiser.record_to_json / record_from_json / feature_to_json / feature_from_json.

Per case a real Record is built the way the pipeline builds one (input features through
Record.from_biopython, then annotations and areas through the public add_* / create_* calls), its
state is dumped, and the *real* round trips are run:
  GenBank text:  SeqIO.write(record.to_biopython()) -> SeqIO.parse -> Record.from_biopython -> write again
  results JSON:  record_to_json -> orjson dumps/loads -> record_from_json -> record_to_json again
The Lean driver gets the dumped state and answers with the model's written feature list, the model's
re-read state and second write (correspondence), and the executable spec `sameRecord` evaluated on the
implementation's re-read states (spec).
"""
from __future__ import annotations

import io
import json
import logging
import os
import random
from typing import Any, Dict, Iterator, List, Optional, Tuple

from ..framework import Judgement, Property, err_kind
from . import common

logging.disable(logging.CRITICAL)   # antismash logs expected refusals (e.g. overlapping regions) as errors

S = "antismash/common/secmet/"
OPAQUE_TYPES = ("gene", "CDS", "CDS_motif", "aSDomain", "PFAM_domain", "aSModule", "source")
BASE_KEYS = ("note", "tool", "codon_start")
KF_ORDER = "KF-C10-inconsistent-area-order"
KF_PREPEPTIDE = "KF-C10-prepeptide-location-parts"
KF_FUNCTION = "KF-C10-gene-function-colon"
KF_PRE_SEQUENCE = "KF-C10-prepeptide-long-sequence"
KF_PRECISION = "KF-C10-number-precision"
KF_SMILES = "KF-C10-candidate-smiles-wrapped"
KF_SIDE_TOOL = "KF-C10-sideloaded-tool-name-recursion"
WORKERS = max(2, min(8, (os.cpu_count() or 4) // 2))


def simple(lo: int, hi: int, s: Any = 1) -> Dict[str, Any]:
    return {"c": False, "parts": [[lo, hi, s]]}


def compound(parts: List[List[Any]]) -> Dict[str, Any]:
    return {"c": True, "parts": parts}


def qlist(quals: Any) -> List[List[Any]]:
    return [[str(k), [str(x) for x in (v or [])]] for k, v in quals.items()]


# ----------------------------------------------------------------------------- state dump of a real record

def loc_json(location: Any) -> Dict[str, Any]:
    """canonical location incl. the operator of a compound location when it is not the default `join`
    (the Lean model has no operator: it is exercised by the real round trips only)"""
    out = common.location_json(location)
    operator = getattr(location, "operator", "join")
    if out["c"] and operator != "join":
        out["op"] = operator
    return out


# attributes of the base class: compared through the Lean view (`Feat.view`), not through the attribute dump
BASE_SLOTS = {"location", "notes", "type", "_qualifiers", "created_by_antismash", "_original_codon_start"}
# back references and caches of collections / CDS features (areas are compared through their own views)
SKIP_SLOTS = {"_parent_record", "_cdses", "_children", "_parent", "_definition_cdses", "_contig_edge", "unique_id",
              "_protoclusters", "_candidate_clusters", "_subregions", "_core_location", "_wrap_point"}


def _slots(obj: Any) -> List[str]:
    names: List[str] = []
    for cls in type(obj).__mro__:
        for name in getattr(cls, "__slots__", ()) or ():
            if name not in names and name != "__dict__" and name != "__weakref__":
                names.append(name)
    names.extend(k for k in getattr(obj, "__dict__", {}) if k not in names)
    return names


def attr_dump(obj: Any, depth: int = 0) -> Any:
    """every attribute an object carries, canonicalised: numbers/strings as they are, enums as text, locations
    with operator, other features as references (type, location, name), sets sorted, dictionaries sorted by key,
    any other object attribute by attribute"""
    from enum import Enum
    from Bio.Seq import Seq
    from antismash.common.secmet.features import Feature
    if obj is None or isinstance(obj, (bool, int, float, str)):
        return obj
    if isinstance(obj, Enum):
        return str(obj)
    if isinstance(obj, Seq):
        return str(obj)
    if hasattr(obj, "parts") and hasattr(obj, "strand") and hasattr(obj, "start"):
        return loc_json(obj)
    if isinstance(obj, Feature) and depth > 0:
        name = None
        if hasattr(obj, "get_name"):
            try:
                name = obj.get_name()
            except Exception:  # pylint: disable=broad-except
                name = None
        return {"ref": obj.type, "at": loc_json(obj.location), "name": name}
    if isinstance(obj, dict):
        return sorted(([attr_dump(k, depth + 1), attr_dump(v, depth + 1)] for k, v in obj.items()),
                      key=lambda kv: json.dumps(kv[0], sort_keys=True, default=str))
    if isinstance(obj, (set, frozenset)):
        return sorted((attr_dump(x, depth + 1) for x in obj), key=lambda x: json.dumps(x, sort_keys=True, default=str))
    if isinstance(obj, (list, tuple)):
        return [attr_dump(x, depth + 1) for x in obj]
    if depth > 6:
        return "<deep>"
    out: Dict[str, Any] = {"cls": type(obj).__name__}
    for name in _slots(obj):
        if name in SKIP_SLOTS or (depth == 0 and name in BASE_SLOTS):
            continue
        if type(obj).__name__ == "GOQualifier" and name in ("ids", "descriptions"):
            # the keys and values of `go_entries` again, in the order the terms were added (a re-read qualifier has
            # them in the order of the ids): the mapping itself is compared
            continue
        try:
            value = getattr(obj, name)
        except AttributeError:
            continue
        if callable(value) and not isinstance(value, type):
            continue
        out[name] = attr_dump(value, depth + 1)
    if depth == 0 and hasattr(obj, "location"):
        out["@loc"] = loc_json(obj.location)
        out["@type"] = obj.type
    return out


def dump_attrs(rec: Any) -> List[Any]:
    """attribute dumps of every feature of the record that is not an area, as a sorted multiset"""
    features = list(rec.get_sources()) + list(rec.get_generics()) + list(rec.get_genes()) + \
        list(rec.get_cds_features()) + list(rec.get_cds_motifs()) + list(rec.get_antismash_domains()) + \
        list(rec.get_pfam_domains()) + list(rec.get_modules())
    areas = list(rec.get_protoclusters())
    dumps = [attr_dump(f) for f in features] + [{"cls": "t2pks-of-protocluster", "at": loc_json(a.location), "product": a.product,
                                                 "t2pks": attr_dump(a.t2pks, 1)} for a in areas]
    return sorted(dumps, key=lambda d: json.dumps(d, sort_keys=True, default=str))


def dump_feat(feature: Any, opaque: bool = False) -> Dict[str, Any]:
    quals: Dict[str, List[str]] = {k: list(v or []) for k, v in feature._qualifiers.items()}
    if opaque:
        # the class-specific qualifiers, as the class itself prints them (not modelled further); a prepeptide is
        # written as up to three features: the model sees it as one feature with the qualifiers of its core
        bios = feature.to_biopython()
        bio = next((b for b in bios if b.qualifiers.get("prepeptide") == ["core"]), bios[0])
        for key, val in bio.qualifiers.items():
            if key not in BASE_KEYS:
                quals[key] = list(val or [])
    return {"loc": loc_json(feature.location), "type": feature.type,
            "notes": list(feature.notes), "quals": qlist(quals),
            "byAS": bool(feature.created_by_antismash), "codon": feature._original_codon_start}


def t2pks_quals(t2pks: Any) -> List[List[Any]]:
    """the qualifiers a type II PKS annotation stands for, rendered here from its attributes"""
    if t2pks is None:
        return []
    out = [["t2pks_starter_units", list(t2pks.starter_units)]]
    if t2pks.malonyl_elongations:
        out.append(["t2pks_malonyl_elongations", list(t2pks.malonyl_elongations)])
        out.append(["t2pks_molecular_weights", [f"{combo} (Da): {weight:.3f}" for combo, weight in t2pks.molecular_weights.items()]])
    if t2pks.product_classes:
        out.append(["t2pks_product_classes", list(t2pks.product_classes)])
    return out


def dump_proto_feat(proto: Any) -> Dict[str, Any]:
    """to the record model the type II PKS annotation of a protocluster is part of its free qualifiers"""
    out = dump_feat(proto)
    if proto.t2pks is not None:
        # a re-read protocluster holds its leftovers in the (sorted) order of the written feature
        out["quals"] = sorted(out["quals"] + t2pks_quals(proto.t2pks), key=lambda q: q[0])
    return out


def dump_meta(rec: Any) -> Dict[str, Any]:
    """what the record carries besides sequence and features, as it is handed to the writers"""
    bio = rec.to_biopython()
    annotations: Dict[str, Any] = {}
    for key, value in bio.annotations.items():
        if key == "references":
            value = [sorted((k, [str(x) for x in v] if k == "location" else v) for k, v in ref.__dict__.items()) for ref in value]
        annotations[key] = value
    return {"id": bio.id, "name": bio.name, "description": bio.description, "dbxrefs": list(bio.dbxrefs),
            "annotations": annotations, "letter_annotations": dict(bio.letter_annotations),
            "transl_table": rec.transl_table}


def meta_diff(before: Dict[str, Any], after: Dict[str, Any], textual: bool) -> str:
    """'' when the record-level data is unchanged; the GenBank parser adds annotations of its own (accessions,
    sequence_version, data_file_division, …): on that path every key the record had must come back unchanged"""
    out = []
    for key in ("id", "name", "description", "dbxrefs", "letter_annotations", "transl_table"):
        if before[key] != after[key]:
            out.append(f"{key}: {before[key]!r} -> {after[key]!r}")
    keys = set(before["annotations"]) | (set() if textual else set(after["annotations"]))
    for key in sorted(keys):
        a, b = before["annotations"].get(key), after["annotations"].get(key)
        if key == "references":
            # the JSON form always has the key: no references and an empty list of them are the same thing
            a, b = a or [], b or []
        if a != b:
            out.append(f"annotation {key}: {a!r} -> {b!r}")
    return "; ".join(out)


def dump_side(area: Any) -> Any:
    extra = getattr(area, "extra_qualifiers", None)
    return None if extra is None else qlist(extra)


def dump_record(rec: Any) -> Dict[str, Any]:
    protos = list(rec.get_protoclusters())
    cands = list(rec.get_candidate_clusters())
    subs = list(rec.get_subregions())
    from antismash.common.secmet.features import Prepeptide
    plain = list(rec.get_sources()) + list(rec.get_generics()) + list(rec.get_genes()) + \
        list(rec.get_cds_motifs()) + list(rec.get_antismash_domains()) + list(rec.get_pfam_domains()) + \
        list(rec.get_modules())
    pre_locs = {m.locus_tag: {"loc": common.location_json(m.location), "ls": str(m.location)}
                for m in rec.get_cds_motifs() if isinstance(m, Prepeptide)}
    index = {id(p): i for i, p in enumerate(protos)}
    cindex = {id(c): i for i, c in enumerate(cands)}
    sindex = {id(s): i for i, s in enumerate(subs)}

    def coreloc(cand: Any) -> Any:
        try:
            return common.location_json(cand.core_location)
        except Exception as exc:  # pylint: disable=broad-except
            return err_kind(exc)
    return {
        "len": len(rec.seq), "circ": bool(rec.is_circular()),
        "others": [dump_feat(f, opaque=f.type in OPAQUE_TYPES) for f in plain],
        "cdss": [dump_feat(f, opaque=True) for f in rec.get_cds_features()],
        "subs": [{"feat": dump_feat(s), "tool": s.tool, "label": s.label, "side": dump_side(s)} for s in subs],
        "protos": [{"feat": dump_proto_feat(p), "core": common.location_json(p.core_location), "tool": p.tool,
                    "product": p.product, "cutoff": int(p.cutoff), "nbhd": int(p.neighbourhood_range),
                    "rule": p.detection_rule, "category": p.product_category, "side": dump_side(p)} for p in protos],
        "cands": [{"feat": dump_feat(c), "kind": str(c.kind), "children": [index[id(p)] for p in c.protoclusters],
                   "smiles": c.smiles_structure, "polymer": c.polymer, "wrap": c._wrap_point,
                   "coreloc": coreloc(c)} for c in cands],
        "regs": [{"feat": dump_feat(g), "cands": [cindex[id(c)] for c in g.candidate_clusters],
                  "subs": [sindex[id(s)] for s in g.subregions]} for g in rec.get_regions()],
        "attrs": dump_attrs(rec), "pre_locs": pre_locs,
    }


def for_model(obj: Any) -> Any:
    """what the Lean model is compared with: no operators (`order{` reads as `join{`), no attribute dumps"""
    if isinstance(obj, dict):
        out = {k: for_model(v) for k, v in obj.items() if k not in ("op", "attrs", "pre_locs")}
        if isinstance(out.get("ls"), str) and out["ls"].startswith("order{"):
            out["ls"] = "join{" + out["ls"][len("order{"):]
        return out
    if isinstance(obj, list):
        return [for_model(x) for x in obj]
    return obj


def text_strands(obj: Any) -> Any:
    """GenBank text has no strandless locations: `None` reads back as `+1`"""
    if isinstance(obj, dict):
        out = {k: text_strands(v) for k, v in obj.items()}
        if "parts" in out and "c" in out:
            out["parts"] = [[lo, hi, 1 if strand is None else strand] for lo, hi, strand in out["parts"]]
        return out
    if isinstance(obj, list):
        return [text_strands(x) for x in obj]
    return obj


def attrs_diff(before: List[Any], after: List[Any], textual: bool) -> str:
    """'' when the two attribute dumps describe the same features, else the first difference"""
    if textual:
        before, after = text_strands(before), text_strands(after)
    def key(d: Any) -> str:
        return json.dumps(d, sort_keys=True, default=str)
    a, b = sorted(map(key, before)), sorted(map(key, after))
    if a == b:
        return ""
    only_a = [x for x in a if x not in b]
    only_b = [x for x in b if x not in a]
    if only_a and only_b:
        # show the first differing attribute of the closest pair
        x, y = json.loads(only_a[0]), json.loads(only_b[0])
        for k in sorted(set(x) | set(y)):
            if x.get(k) != y.get(k):
                return f"{x.get('cls')} {x.get('@loc')}: attribute {k}: {x.get(k)!r} -> {y.get(k)!r}"
    return f"{len(only_a)} features only before, {len(only_b)} only after: {(only_a or only_b)[0][:300]}"


def modelled_bios(bios: List[Dict[str, Any]], pre_locs: Dict[str, Any]) -> List[Dict[str, Any]]:
    """the written features as the model predicts them: the pieces of a prepeptide (leader, core, tail, written
    one after the other) collapse into one feature at the prepeptide's location with the core's qualifiers"""
    out = []
    for b in bios:
        quals = dict((k, v) for k, v in b["quals"])
        if "prepeptide" in quals:
            if quals["prepeptide"] != ["core"]:
                continue
            where = pre_locs.get(quals["locus_tag"][0].replace(" ", ""), {"loc": b["loc"], "ls": b["ls"]})
            # (the core is written with an empty note list of its own)
            b = dict(b, loc=where["loc"], ls=where["ls"], quals=sorted(q for q in b["quals"] if q != ["note", []]))
        out.append(b)
    return for_model(out)


def dump_bios(bio_record: Any) -> List[Dict[str, Any]]:
    return [{"loc": common.location_json(f.location), "ls": str(f.location), "type": f.type,
             "quals": qlist(f.qualifiers)} for f in bio_record.features]


def canon_state(state: Dict[str, Any]) -> Dict[str, Any]:
    """plain features as a multiset with key-sorted qualifiers (their dictionary order is not modelled)"""
    def canon(f: Dict[str, Any]) -> Dict[str, Any]:
        # the `tool` marker mirrors `byAS` (a re-read module does not keep it among its leftovers)
        return dict(f, quals=sorted(q for q in f["quals"] if q[0] != "tool"))
    out = dict(state)
    out["others"] = sorted((canon(f) for f in state["others"]), key=lambda f: json.dumps(f, sort_keys=True))
    out["cdss"] = [canon(f) for f in state["cdss"]]
    return out


# ----------------------------------------------------------------------------- building a real record

def _bio_location(loc: Dict[str, Any]) -> Any:
    from Bio.SeqFeature import CompoundLocation, SimpleLocation
    parts = [SimpleLocation(lo, hi, strand) for lo, hi, strand in loc["parts"]]
    return CompoundLocation(parts, operator=loc.get("op", "join")) if loc["c"] else parts[0]


def build_record(case: Dict[str, Any]) -> Any:
    from Bio.Seq import Seq
    from Bio.SeqFeature import SeqFeature
    from Bio.SeqRecord import SeqRecord
    from antismash.common.secmet import Record
    from antismash.common.secmet.features import (AntismashDomain, CandidateCluster, CDSMotif, Feature, Module, PFAMDomain,
                                                  Prepeptide, Protocluster, SubRegion)
    from antismash.common.secmet.qualifiers import GOQualifier, SecMetQualifier
    from antismash.common.secmet.qualifiers.nrps_pks import _HMMResultLike
    from antismash.common.secmet.features.candidate_cluster import CandidateClusterKind
    from antismash.common.secmet.features.protocluster import SideloadedProtocluster
    from antismash.common.secmet.features.subregion import SideloadedSubRegion
    from antismash.common.secmet.locations import FeatureLocation
    from antismash.common.secmet.qualifiers import GeneFunction

    n = case["len"]
    srng = random.Random(n)
    seq = Seq("".join(srng.choice("ACGT") for _ in range(n)))
    meta = case.get("meta", {})
    bio = SeqRecord(seq, id="REC1", name=meta.get("name", "REC1"), description=meta.get("description", "generated record"),
                    dbxrefs=list(meta.get("dbxrefs", [])))
    bio.annotations["topology"] = "circular" if case["circ"] else "linear"
    bio.annotations["molecule_type"] = "DNA"
    bio.annotations["source"] = "Streptomyces generatus"
    bio.annotations["organism"] = "Streptomyces generatus"
    bio.annotations["date"] = "01-JAN-2000"
    for key, value in meta.get("annotations", []):
        bio.annotations[key] = list(value) if isinstance(value, list) else value
    if meta.get("references"):
        from Bio.SeqFeature import Reference
        bio.annotations["references"] = []
        for lo, hi, authors, title, journal, pubmed in meta["references"]:
            ref = Reference()
            ref.location = [FeatureLocation(lo, hi)]
            ref.authors, ref.title, ref.journal, ref.pubmed_id = authors, title, journal, pubmed
            bio.annotations["references"].append(ref)
    for f in case.get("input", []):
        bio.features.append(SeqFeature(_bio_location(f["loc"]), type=f["type"],
                                       qualifiers={k: list(v) for k, v in f["quals"]}))
    rec = Record.from_biopython(bio, case.get("taxon", "bacteria"))

    for ann in case.get("annot", []):
        cds = rec.get_cds_by_name(ann["cds"])
        for func, tool, desc, product in ann.get("functions", []):
            cds.gene_functions.add(GeneFunction.from_string(func), tool, desc, product)
        cds.notes.extend(ann.get("notes", []))
        if ann.get("sec_met"):
            cds.sec_met = SecMetQualifier([SecMetQualifier.Domain(*d) for d in ann["sec_met"]])
        for hit_id, start, end, evalue, score, feature_name, subtypes in ann.get("nrps_pks", {}).get("domains", []):
            cds.nrps_pks.add_domain(_HMMResultLike(hit_id, start, end, evalue, score, [hit_id] + subtypes), feature_name)
        if ann.get("nrps_pks", {}).get("type"):
            cds.nrps_pks.type = ann["nrps_pks"]["type"]
    made_domains: Dict[int, Any] = {}
    for dom in case.get("domains", []):
        cds = rec.get_cds_by_name(dom["cds"])
        ploc = FeatureLocation(dom["ps"], dom["pe"])
        loc = cds.get_sub_location_from_protein_coordinates(dom["ps"], dom["pe"])
        if dom["kind"] == "pfam":
            feature: Any = PFAMDomain(loc, "a description", ploc, "PF%05d" % dom["n"], "pfamtool", cds.get_name(),
                                      domain="dom%d" % dom["n"])
            feature.domain_id = "pfam_%s_%d" % (cds.get_name(), dom["n"])
        elif dom["kind"] == "asdom":
            feature = AntismashDomain(loc, "astool", ploc, cds.get_name(), domain="asd%d" % dom["n"])
            feature.domain_id = "asdom_%s_%d" % (cds.get_name(), dom["n"])
        else:
            feature = CDSMotif(loc, cds.get_name(), ploc, "motiftool")
            feature.domain_id = "motif_%s_%d" % (cds.get_name(), dom["n"])
        # everything an AntismashFeature / Domain / PFAMDomain serialises
        if dom.get("score") is not None:
            feature.score = dom["score"]
        if dom.get("evalue") is not None:
            feature.evalue = dom["evalue"]
        for attr in ("label", "database", "detection"):
            if dom.get(attr):
                setattr(feature, attr, dom[attr])
        if dom.get("translation"):
            feature.translation = cds.translation[dom["ps"]:dom["pe"]]
        for hit in dom.get("asf", []):
            feature.asf.add(hit)
        if dom["kind"] == "pfam" and dom.get("version"):
            feature.version = dom["version"]
        if dom["kind"] == "pfam" and dom.get("go"):
            feature.gene_ontologies = GOQualifier(dict(dom["go"]))
        # notes and free (untracked) qualifiers: the generic part of the feature
        feature.notes.extend(dom.get("notes", []))
        for key, values in dom.get("fquals", []):
            feature._qualifiers[key] = list(values)
        rec.add_feature(feature)
        made_domains[dom["n"]] = feature
    for mod in case.get("modules", []):
        doms = [made_domains[n] for n in mod["domains"]]
        cds = rec.get_cds_by_name(doms[0].locus_tag)
        loc = cds.get_sub_location_from_protein_coordinates(min(d.protein_location.start for d in doms),
                                                            max(d.protein_location.end for d in doms))
        module = Module(loc, doms, module_type=Module.types.from_string(mod["type"]), complete=mod["complete"],
                        starter=mod["starter"], final=mod["final"], iterative=mod["iterative"])
        for substrate, monomer in mod.get("monomers", []):
            module.add_monomer(substrate, monomer)
        module.notes.extend(mod.get("notes", []))
        for key, values in mod.get("fquals", []):
            module._qualifiers[key] = list(values)
        rec.add_module(module)
    for pre in case.get("prepeptides", []):
        cds = rec.get_cds_by_name(pre["cds"])
        rec.add_cds_motif(Prepeptide(cds.location, pre["class"], pre["core"], cds.get_name(), pre["tool"], pre["subclass"],
                                     pre["score"], pre["mono"], pre["mw"], pre["alt"], leader=pre["leader"],
                                     tail=pre["tail"]))
    for g in case.get("generics", []):
        feature = Feature(common.make_location(g["loc"]), g["type"], created_by_antismash=True)
        feature.notes.extend(g.get("notes", []))
        rec.add_feature(feature)

    for s in case.get("subs", []):
        loc = common.make_location(s["loc"])
        if s.get("side") is None:
            rec.add_subregion(SubRegion(loc, s["tool"], label=s["label"]))
        else:
            rec.add_subregion(SideloadedSubRegion(loc, s["tool"], label=s["label"],
                                                  extra_qualifiers={k: list(v) for k, v in s["side"]}))
    protos = []
    for p in case.get("protos", []):
        core, loc = common.make_location(p["core"]), common.make_location(p["loc"])
        if p.get("side") is None:
            proto = Protocluster(core, loc, p["tool"], p["product"], p["cutoff"], p["nbhd"], p["rule"],
                                 product_category=p["category"])
        else:
            proto = SideloadedProtocluster(core, loc, p["tool"], p["product"], neighbourhood_range=p["nbhd"],
                                           extra_qualifiers={k: list(v) for k, v in p["side"]})
        proto.notes.extend(p.get("notes", []))
        if p.get("t2pks"):
            from antismash.common.secmet.qualifiers.t2pks import T2PKSQualifier
            t2 = p["t2pks"]
            proto.t2pks = T2PKSQualifier(list(t2["starters"]), list(t2["elongations"]), list(t2["classes"]),
                                         {k: v for k, v in t2["weights"]})
        protos.append(proto)
        rec.add_protocluster(proto)
    cands = case.get("cands", "auto")
    if cands == "auto":
        rec.create_candidate_clusters()
    else:
        wrap = len(rec) if rec.is_circular() else None
        for c in cands:
            children = sorted(protos[i] for i in c["children"])
            cand = CandidateCluster(CandidateClusterKind.from_string(c["kind"]), children,
                                    smiles=c.get("smiles"), polymer=c.get("polymer"), circular_wrap_point=wrap)
            rec.add_candidate_cluster(cand)
    if case.get("regions", True):
        rec.create_regions()
    return rec


def write_text(rec: Any) -> str:
    from Bio import SeqIO
    handle = io.StringIO()
    SeqIO.write([rec.to_biopython()], handle, "genbank")
    return handle.getvalue()


def read_text(text: str, taxon: str = "bacteria") -> Any:
    from Bio import SeqIO
    from antismash.common.secmet import Record
    return Record.from_biopython(list(SeqIO.parse(io.StringIO(text), "genbank"))[0], taxon)


def json_text(rec: Any) -> bytes:
    from antismash.common import json as ajson, serialiser
    return ajson.dumps(serialiser.record_to_json(rec.to_biopython()))


def read_json(text: Any, taxon: str = "bacteria") -> Any:
    from antismash.common import json as ajson, serialiser
    return serialiser.record_from_json(ajson.loads(text), taxon)


# ----------------------------------------------------------------------------- the property

class C10(Property):
    ID = "C10"
    SHAPE = [(S + "features/feature.py", q) for q in ("Feature.to_biopython", "Feature.from_biopython", "Feature.__lt__")] + [
        (S + "locations.py", q) for q in ("_adjust_location_by_offset", "frameshift_location_by_qualifier",
                                          "location_from_string", "connect_locations", "location_bridges_origin",
                                          "remove_redundant_exons")] + [
        (S + "features/cdscollection.py", q) for q in ("CDSCollection.to_biopython", "CDSCollection.from_biopython",
                                                       "CDSCollection.contig_edge", "CDSCollection.__lt__",
                                                       "CDSCollection.__contains__", "CDSCollection.crosses_origin")] + [
        (S + "features/protocluster.py", q) for q in ("Protocluster.to_biopython", "Protocluster.from_biopython",
                                                      "Protocluster.contig_edge", "SideloadedProtocluster.__init__",
                                                      "SideloadedProtocluster.to_biopython",
                                                      "SideloadedProtocluster.from_biopython")] + [
        (S + "features/subregion.py", q) for q in ("SubRegion.to_biopython", "SubRegion.from_biopython",
                                                   "SideloadedSubRegion.to_biopython",
                                                   "SideloadedSubRegion.from_biopython")] + [
        (S + "features/candidate_cluster/structures.py", q) for q in (
            "CandidateCluster.__init__", "CandidateCluster.to_biopython", "CandidateCluster.from_biopython",
            "CandidateCluster.products", "CandidateCluster.detection_rules", "CandidateCluster.core_location")] + [
        (S + "features/region/structures.py", q) for q in ("Region.__init__", "Region.to_biopython", "Region.from_biopython",
                                                           "Region.products", "Region.detection_rules")] + [
        (S + "record.py", q) for q in ("Record.all_features", "Record.to_biopython", "Record.from_biopython",
                                       "Record.add_biopython_feature", "Record.add_feature", "Record.add_protocluster",
                                       "Record.add_candidate_cluster", "Record.add_subregion", "Record.add_region",
                                       "Record.add_cds_feature")] + [
        ("antismash/common/serialiser.py", q) for q in ("record_to_json", "record_from_json", "feature_to_json",
                                                        "feature_from_json")] + [
        # exercised by the real round trips and compared attribute by attribute, not modelled
        (S + "features/feature.py", "pop_locus_qualifier"),
        (S + "features/antismash_feature.py", "AntismashFeature.to_biopython"),
        (S + "features/antismash_feature.py", "AntismashFeature.from_biopython"),
        (S + "features/domain.py", "Domain.to_biopython"), (S + "features/domain.py", "Domain.from_biopython"),
        (S + "features/antismash_domain.py", "AntismashDomain.from_biopython"),
        (S + "features/pfam_domain.py", "PFAMDomain.to_biopython"), (S + "features/pfam_domain.py", "PFAMDomain.from_biopython"),
        (S + "features/cds_motif.py", "CDSMotif.from_biopython"), (S + "features/cds_motif.py", "ExternalCDSMotif.__init__"),
        (S + "features/cds_motif.py", "ExternalCDSMotif.from_biopython"), (S + "features/cds_motif.py", "ExternalCDSMotif.to_biopython"),
        (S + "features/prepeptide.py", "Prepeptide.to_biopython"), (S + "features/prepeptide.py", "Prepeptide.from_biopython"),
        (S + "features/prepeptide.py", "_combine_sections"),   # exists once fixes/D107 is applied ("missing" before)
        (S + "features/module.py", "Module.to_biopython"), (S + "features/module.py", "Module.from_biopython"),
        (S + "features/cds_feature.py", "CDSFeature.to_biopython"), (S + "features/cds_feature.py", "CDSFeature.from_biopython"),
        (S + "features/gene.py", "Gene.to_biopython"), (S + "features/gene.py", "Gene.from_biopython"),
        (S + "qualifiers/gene_functions.py", "_GeneFunctionAnnotation.from_string"),
        (S + "qualifiers/nrps_pks.py", "NRPSPKSQualifier.add_from_qualifier"),
        (S + "qualifiers/secmet.py", "SecMetQualifier.from_biopython"),
        (S + "qualifiers/go.py", "GOQualifier.from_biopython"), (S + "qualifiers/go.py", "GOQualifier.to_biopython"),
        (S + "qualifiers/t2pks.py", "T2PKSQualifier.__init__"), (S + "qualifiers/t2pks.py", "T2PKSQualifier.to_biopython_qualifiers"),
        (S + "qualifiers/t2pks.py", "T2PKSQualifier.from_biopython_qualifiers"),
        (S + "qualifiers/secmet.py", "_parse_format"), (S + "qualifiers/secmet.py", "SecMetQualifier.Domain.from_string"),
        (S + "qualifiers/gene_functions.py", "GeneFunctionAnnotations.add"),
        (S + "qualifiers/gene_functions.py", "GeneFunctionAnnotations.add_from_qualifier"),
        (S + "qualifiers/gene_functions.py", "GeneFunctionAnnotations.get_classification"),
        (S + "features/domain.py", "generate_protein_location_from_qualifiers"),
        (S + "locations.py", "build_location_from_others")]
    RULE = ("generated records built through the public API: input genes/CDS on both strands (single, multi-exon, "
            "origin-spanning, codon_start 1-3, equal sort keys), misc/source features with notes and qualifiers, gene "
            "functions and notes on CDS, PFAM/aSDomain/CDS_motif annotations, protoclusters from a coordinate grid incl. "
            "identical coordinates, origin-spanning cores, sideloaded ones with extra qualifiers, subregions (incl. "
            "sideloaded, origin-spanning), candidate clusters either from create_candidate_clusters or explicit groups "
            "of every kind with SMILES/polymer, regions from create_regions; linear and circular records of length "
            "60..3000; PFAM/aSDomain/CDS_motif features with scores incl. 0.0 and negative, e-values, labels, database, "
            "detection, translation, active-site hits, GO terms, Pfam versions; modules; sec_met and NRPS_PKS qualifiers; "
            "prepeptides (leader/core/tail) incl. on CDS with MAKER-style locus tags long enough to be wrapped; "
            "order(...) locations on genes, CDS and misc features; each case runs the real GenBank text and results-JSON "
            "round trips and compares, besides the Lean views, an attribute-by-attribute dump (every slot of every "
            "non-area feature, location operator included) of the original and both re-read records, and the record's own "
            "data (name, description, dbxrefs, annotations incl. references / taxonomy / keywords / comment, letter "
            "annotations, translation table); origin-spanning and reverse-strand prepeptides; plus, outside records: "
            "every leader/tail split of eight gene shapes on both strands through the real Prepeptide class, "
            "_parse_format / gene function / sec_met texts (rendered with awkward values, damaged, noise) through the real "
            "parsers, aSDomain / CDS_motif objects with every attribute through to_biopython / from_biopython incl. "
            "damaged written features; non-trivial = at least one area or annotated CDS, a non-empty leader or tail, a "
            "text that parses; distinct by canonical input")
    TRUSTED = ["Biopython GenBank writer/parser (text layer, line wrapping, header), orjson; SeqFeature / location classes",
               "CPython list.sort for fewer than 64 elements is modelled (initial run + binary insertion); the merge phase for "
               "longer feature lists is not (generated records stay below 64 features)",
               "inside record cases the class-specific qualifiers of CDS, genes, domains, motifs, modules, sources are opaque "
               "qualifier text to the record model; modelled and proved separately (own driver ops on the real classes): "
               "_parse_format, gene function annotations, sec_met domains, aSDomain / CDS_motif features, the prepeptide "
               "location; executed only: PFAM_domain, aSModule, NRPS_PKS qualifier contents, CDS names / translation, "
               "registered AntismashDomain subtypes, ExternalCDSMotif; T2PKS protocluster qualifiers are not generated",
               "floating point numbers are kept as the text Python writes: float(str(x)) == x and float(f'{x:.2E}') being "
               "the rounded value are CPython's; int(text) is modelled for canonical decimal text only",
               "Python's re module: the matcher's search order for the expressions _parse_format builds is transcribed "
               "(lazy group, greedy digit group, optional space, $ before a final newline) and compared with the real "
               "matcher on every generated format / text; other regular expression features are not modelled; ASCII "
               "white space only in str.split()",
               "constructor validation (feature type length, product syntax, overlapping exons) and CDS name/location "
               "uniqueness checks are not modelled; generated inputs are valid",
               "the taxon: records are built and read back (both paths) with the same taxon, bacteria or fungi; only the "
               "bacterial NCBI clean-up of misc_feature locations and the record-topology test for origin-spanning exons "
               "are in the model; ensure_valid_locations' exon-order convention for input genes is not (non-bacterial cases "
               "carry no gene across the origin)",
               "strandless locations are read back as forward from GenBank text: the spec identifies None and +1 on that path",
               "the operator of compound locations (join/order) is not in the Lean location model: it is compared by the "
               "attribute dump of the real round trips only; a prepeptide is one opaque feature (its core) to the model",
               "attribute dumps walk __slots__/__dict__ generically; back references and caches of collections are skipped; "
               "T2PKS protocluster qualifiers and RiPP detailed_information (module results, not record text) are not generated",
               "areas carry no notes in the pipeline; candidate clusters and regions are generated without notes/qualifiers"]

    # ------------------------------------------------------------------ generators
    PRODUCTS = ["T1PKS", "NRPS", "terpene", "lanthipeptide-class-i", "RiPP_like"]

    def gen_layout(self, rng: random.Random, tier: str) -> Dict[str, Any]:
        n = rng.choice([60, 120, 300, 1000, 3000])
        circ = rng.random() < 0.5
        unit = n // 20
        grid = [i * unit for i in range(21)]
        case: Dict[str, Any] = {"f": "record", "len": n, "circ": circ, "input": [], "annot": [], "domains": [],
                                "modules": [], "prepeptides": [],
                                "generics": [], "subs": [], "protos": [], "cands": "auto", "regions": True}
        # ---- what the record carries besides features (header of the GenBank file, top level of the JSON)
        if rng.random() < 0.6:
            meta: Dict[str, Any] = {"name": rng.choice(["REC1", "NAME_2", "scaffold12"]),
                                    "description": rng.choice(["generated record", "Streptomyces generatus strain X1, complete genome.",
                                                               "a description long enough to be continued on a second line of the "
                                                               "DEFINITION block, with commas; and more", "x"]),
                                    "dbxrefs": rng.choice([[], ["BioProject:PRJNA1"], ["BioProject:PRJNA1", "BioSample:SAMN2"]]),
                                    "annotations": []}
            if rng.random() < 0.5:
                meta["annotations"].append(["taxonomy", rng.choice([["Bacteria", "Actinomycetota"], ["Bacteria", "Actinomycetota", "Streptomyces"]])])   # (a one-word lineage is read as part of the organism by Biopython)
            if rng.random() < 0.4:
                meta["annotations"].append(["keywords", rng.choice([["kw1"], ["kw1", "key word two"], [""]])])
            if rng.random() < 0.4:
                meta["annotations"].append(["comment", rng.choice(["one line", "line one\nline two"])])
            if rng.random() < 0.3:
                meta["annotations"].append(["data_file_division", rng.choice(["BCT", "UNK", "PLN"])])
            if rng.random() < 0.3:
                meta["references"] = [[0, n, "A B, C D", "a title", "J. Irr. Res. 1 (2000)", "12345"]][:rng.choice([1, 1])] + \
                    ([[0, n // 2, "E F", "Direct Submission", "Submitted (01-JAN-2000)", ""]] if rng.random() < 0.5 else [])
            case["meta"] = meta
        # ---- input features (as parsed from a GenBank input file)
        if rng.random() < 0.7:
            case["input"].append({"type": "source", "loc": simple(0, n, 1),
                                  "quals": [["organism", ["Streptomyces generatus"]], ["mol_type", ["genomic DNA"]]]})
        ngenes = rng.choice([0, 1, 2, 3, 4, 6])
        pos = rng.choice([0, 1, 3, unit])
        names: List[Tuple[str, int, Dict[str, Any]]] = []
        # the taxon of the run: the record is built, and read back on both paths, with the same one; a non-bacterial
        # run does not accept input genes across the origin (exon order convention), areas across it are antiSMASH's own
        if rng.random() < 0.3:
            case["taxon"] = "fungi"
        spanning = circ and rng.random() < 0.35 and n >= 120 and "taxon" not in case
        span_b = rng.choice([6, 9, 12]) if spanning else 0
        span_a = rng.choice([6, 9, 12]) if spanning else 0
        pos = max(pos, span_b + rng.choice([0, 1, 5]))
        for i in range(ngenes):
            length = rng.choice([9, 12, 21, 30, 60])
            if n < 120:
                length = rng.choice([9, 12])
            lo = pos
            strand = rng.choice([1, -1])
            name = f"c{i}"
            if rng.random() < 0.2:
                # MAKER-style identifier: long enough for Biopython to wrap the qualifier over two lines
                name = f"maker-scaffold00012-augustus-gene-0.{i}-mRNA-1_cds{i}"
            r = rng.random()
            if r < 0.25 and lo + 2 * length + 8 <= n - span_a:
                gap = rng.choice([1, 4, 7])
                parts = [[lo, lo + length, strand], [lo + length + gap, lo + 2 * length + gap, strand]]
                if rng.random() < 0.3 and lo + 3 * length + 2 * gap <= n - span_a:
                    parts.append([lo + 2 * length + 2 * gap, lo + 3 * length + 2 * gap, strand])
                hi = parts[-1][1]
                total = sum(p[1] - p[0] for p in parts)
                if strand == -1:
                    parts.reverse()
                loc = compound(parts)
                if rng.random() < 0.3:
                    loc["op"] = "order"       # exons whose joining is not asserted
            elif lo + length <= n - span_a:
                hi = lo + length
                total = length
                loc = simple(lo, hi, strand)
            else:
                break
            self._add_gene(rng, case, name, loc, total, names, codon_ok=True)
            if rng.random() < 0.12 and not loc["c"]:
                # another CDS with the same sort key (same coordinates, other strand)
                self._add_gene(rng, case, name + "x", simple(lo, hi, -strand), total, names, codon_ok=False)
            pos = hi + rng.choice([0, 1, 2, unit, 2 * unit, -3])
            pos = max(pos, lo + 1)
        if spanning:
            strand = rng.choice([1, -1])
            parts = [[n - span_a, n, strand], [0, span_b, strand]]
            if strand == -1:
                parts.reverse()
            # codon_start on an origin-spanning gene is accepted since the repair of _adjust_location_by_offset
            self._add_gene(rng, case, "cspan", compound(parts), span_a + span_b, names, codon_ok=True)
        for _ in range(rng.choice([0, 0, 1, 2])):
            lo = rng.randrange(0, n - 3)
            hi = min(n, lo + rng.choice([3, 10, unit]))
            quals = [["note", [rng.choice(["a note", "zeta", "Alpha"])]]]
            if rng.random() < 0.5:
                quals.append(["note", quals.pop()[1] + ["another note"]])
            if rng.random() < 0.25:
                # the same note text twice (two identical /note lines in the input)
                last = quals.pop()
                quals.append(["note", last[1] + [last[1][0]]])
            if rng.random() < 0.5:
                quals.insert(0, ["zzz", ["1"]])
                quals.append(["label", ["lbl"]])
            mloc = simple(lo, hi, rng.choice([1, -1]))
            if hi - lo >= 9 and rng.random() < 0.3:
                strand = rng.choice([1, -1])
                parts = [[lo, lo + 3, strand], [lo + 6, lo + 9, strand]]
                mloc = compound(parts if strand == 1 else parts[::-1])
                mloc["op"] = rng.choice(["order", "join"])
            case["input"].append({"type": rng.choice(["misc_feature", "regulatory", "misc_feature"]),
                                  "loc": mloc, "quals": quals})
        if circ and n >= 120:
            # features across the origin that are not genes, on either strand, two or three exons, as parsed from
            # join(1941..2000,1..150) / complement(join(1941..2000,1..150)): exons in transcription order
            for _ in range(rng.choice([0, 0, 1, 1, 2])):
                strand = rng.choice([1, -1])
                a, b = rng.choice([3, 7, 12]), rng.choice([3, 8, 15])
                parts = [[n - a, n, strand], [0, b, strand]]
                if rng.random() < 0.4:
                    parts = [[n - a - 9, n - a - 4, strand]] + parts if rng.random() < 0.5 else parts + [[b + 4, b + 9, strand]]
                if strand == -1:
                    parts.reverse()
                kind = rng.choice(["misc_feature", "misc_feature", "regulatory"])
                if rng.random() < 0.6 and "taxon" not in case:
                    case["input"].append({"type": kind, "loc": compound(parts), "quals": [["note", ["across the origin"]]]})
                else:
                    case["generics"].append({"type": kind, "loc": compound(parts), "notes": ["made by antiSMASH across the origin"]})
        # CDS_motif features of another tool (no aSTool qualifier): kept as ExternalCDSMotif with their own qualifiers
        for i in range(rng.choice([0, 0, 1, 2])):
            lo = rng.randrange(0, max(1, n - 12))
            quals = [["note", ["motif found by another tool"]]]
            if rng.random() < 0.7:
                quals.append(["locus_tag", [f"extmotif{i}"]])
            if rng.random() < 0.3:
                quals += [["protein_start", ["5"]], ["protein_end", ["9"]]]
            if rng.random() < 0.4:
                quals.append(["custom_key", ["x", "y"]])
            if rng.random() < 0.3:
                quals.append(["label", ["their_label"]])
            rng.shuffle(quals)
            case["input"].append({"type": "CDS_motif", "loc": simple(lo, min(n, lo + rng.choice([6, 9, 12])), rng.choice([1, -1])),
                                  "quals": quals})
        rng.shuffle(case["input"])
        # ---- annotations added by the pipeline
        for name, total, gloc in names:
            short = name if len(name) < 20 else "g" + name[-4:]
            ann: Dict[str, Any] = {"cds": name, "functions": [], "notes": []}
            if rng.random() < 0.5:
                for _ in range(rng.choice([1, 1, 2, 3])):
                    func = rng.choice(["biosynthetic", "biosynthetic-additional", "transport", "regulatory", "resistance",
                                       "other"])
                    ann["functions"].append([func, rng.choice(["rule-based-clusters", "smcogs", "resist", "cluster_hmmer"]),
                                             rng.choice(["desc one", "desc two", "desc three", "PF00005 (E-value 1e-10)", "PF00005 (E-value 1e-10)",
                                                         "transporter", "regulator", "SMCOG1000: thing"]),
                                             rng.choice(self.PRODUCTS) if func == "biosynthetic" else None])
                if rng.random() < 0.4:
                    ann["notes"] = rng.choice([["smCOG tree PNG image: smcogs/x.png"], ["input note"], ["twice", "twice"]])
            if rng.random() < 0.25:
                ann["sec_met"] = [[rng.choice(["PKS_KS", "AMP-binding", "LANC_like"]), rng.choice([1.2e-30, 0.0, 3.5e-07]),
                                   rng.choice([250.5, 0.0, 17.0]), rng.choice([5, 120]), "rule-based-clusters"]
                                  for _ in range(rng.choice([1, 2]))]
            aa = total // 3 - 1
            ndom = 0
            if aa >= 2 and not name.startswith("cspan"):
                ndom = rng.choice([0, 0, 1, 1, 2, 3])
            mine = []
            for _ in range(ndom):
                ps = rng.randrange(0, aa - 1)
                pe = rng.randrange(ps + 1, aa)
                dom = {"kind": rng.choice(["pfam", "asdom", "asdom", "motif"]), "cds": name, "ps": ps, "pe": pe,
                       "n": len(case["domains"]),
                       # a hit score of exactly 0.0 and negative scores are legal (lenient e-value cut-offs)
                       "score": rng.choice([None, 0.0, 0.0, -1.2, 5.3, 250.75]),
                       "evalue": rng.choice([None, 0.0, 0.12, 1.2e-05, 3.4e-30] * 4 + [1.2345e-07]),
                       "label": rng.choice([None, "C1_example", "nrpspksdomains_x_PKS_KS.1"]),
                       "database": rng.choice([None, "abmotifs", "Pfam-A.hmm 31.0"]),
                       "detection": rng.choice([None, "hmmscan"]),
                       "translation": rng.random() < 0.6,
                       "asf": rng.choice([[], [], ["active site found: serine"], ["note one", "note two"]])}
                if dom["kind"] == "pfam":
                    dom["version"] = rng.choice([None, 3, 14])
                    if rng.random() < 0.4:
                        # in the order of the pfam2go mapping, which is not the order of the ids
                        dom["go"] = rng.sample([["GO:0009055", "electron transfer activity"], ["GO:0016491", "oxidoreductase activity"],
                                                ["GO:0016020", "membrane: integral"], ["GO:0004871", "signal transducer activity"],
                                                ["GO:0007165", "signal transduction"]], rng.choice([1, 2, 2, 3]))
                if dom["kind"] == "pfam" and rng.random() < 0.3:
                    dom["notes"] = rng.choice([["a pfam note"], ["note b", "note a"], ["same", "same"]])
                    if rng.random() < 0.5:
                        dom["fquals"] = [["inference", ["protein motif:Pfam"]]]
                case["domains"].append(dom)
                mine.append(dom)
            asdoms = [d for d in mine if d["kind"] == "asdom"]
            if asdoms and rng.random() < 0.6:
                case["modules"].append({"domains": [d["n"] for d in sorted(asdoms, key=lambda d: d["ps"])],
                                        "type": rng.choice(["nrps", "pks", "unknown", "cal"]),
                                        "complete": rng.random() < 0.5, "starter": rng.random() < 0.3,
                                        "final": rng.random() < 0.3, "iterative": rng.random() < 0.2,
                                        "monomers": rng.choice([[], [["mal", "ccmal"]], [["ala", "d-ala"], ["gly", "gly"]]])})
                if rng.random() < 0.35:
                    # the generic part of a module feature: notes and free qualifiers (D71-C10: they were dropped on reading)
                    case["modules"][-1]["notes"] = rng.choice([["a module note"], ["note 2", "note 1"], ["again", "again"]])
                    if rng.random() < 0.5:
                        case["modules"][-1]["fquals"] = [["experiment", ["by hand"]], ["zz_free", ["1", "2"]]]
            if asdoms and rng.random() < 0.5:
                ann["nrps_pks"] = {"type": rng.choice([None, "NRPS", "Type I Modular PKS"]),
                                   "domains": [[rng.choice(["PKS_KS", "PKS_AT", "AMP-binding", "PCP", "Condensation"]), d["ps"], d["pe"],
                                                rng.choice([1.5e-20, 0.0, 0.02]), rng.choice([100.5, 0.0, 7.25]),
                                                "asdom_%s_%d" % (short, d["n"]), rng.choice([[], ["Trans-AT-KS"], ["Condensation_LCL"]])]
                                               for d in sorted(asdoms, key=lambda d: (d["ps"], d["pe"]))]}
            if ann["functions"] or ann["notes"] or ann.get("sec_met") or ann.get("nrps_pks"):
                case["annot"].append(ann)
            # precursor peptides: leader, core and tail written as three features, rebuilt from the core
            total_aa = total // 3
            # (on single-exon, multi-exon and origin-spanning genes of both strands; not on `order` locations)
            if total_aa >= 3 and total % 3 == 0 and gloc.get("op") is None and not name.endswith("x") and \
                    rng.random() < (0.7 if name.startswith("cspan") else 0.3):
                if True:
                    lead = rng.choice([0, 1, total_aa // 3, total_aa // 2])
                    tail = rng.choice([0, 0, 1, (total_aa - lead) // 2]) if total_aa - lead >= 2 else 0
                    core = total_aa - lead - tail
                    case["prepeptides"].append({
                        "cds": name, "class": rng.choice(["lanthipeptide", "sactipeptide", "thiopeptide"]),
                        "subclass": rng.choice(["Class-I", "Type-II", ""]), "tool": rng.choice(["lanthipeptides", "sactipeptides"]),
                        "leader": "M" * lead, "core": "C" * core, "tail": "G" * tail,
                        "score": rng.choice([0.0, 12.5, -3.25, -3.25, 12.345]), "mono": rng.choice([800.1, 0.0, 800.1, 800.123]),
                        "mw": rng.choice([801.2, 2345.6]), "alt": rng.choice([[], [819.2], [819.2, 837.2], [819.25]])})
        for _ in range(rng.choice([0, 0, 1])):
            lo = rng.randrange(0, n - 3)
            case["generics"].append({"type": "misc_feature", "loc": simple(lo, lo + 3, rng.choice([1, -1, None])),
                                     "notes": ["tta leucine codon, possible target for bldA regulation"] * rng.choice([1, 1, 2])})
        # ---- areas
        nprot = rng.choice([0, 1, 2, 2, 3, 4])
        for i in range(nprot):
            case["protos"].append(self._gen_proto(rng, n, circ, grid, i))
        if case["protos"] and rng.random() < 0.3:
            dup = dict(rng.choice(case["protos"]))
            dup["product"] = rng.choice(self.PRODUCTS)
            dup["rule"] = "rule for " + dup["product"]
            case["protos"].insert(rng.randrange(len(case["protos"]) + 1), dup)
        for i in range(rng.choice([0, 0, 1, 2])):
            case["subs"].append(self._gen_sub(rng, n, circ, grid))
        if case["subs"] and rng.random() < 0.25:
            dup = dict(rng.choice(case["subs"]))
            dup["tool"] = "othertool"
            case["subs"].append(dup)
        if case["protos"] and rng.random() < 0.5:
            case["cands"] = self._gen_cands(rng, case["protos"])
        if rng.random() < 0.1:
            case["regions"] = False
        if rng.random() < 0.6:
            self._make_generic(case)
        return case

    @staticmethod
    def _make_generic(case: Dict[str, Any]) -> None:
        """general position: no plain feature starts where an area starts (there `Feature.__lt__` and
        `CDSCollection.__lt__` disagree, so the order of `sorted(all_features)` is not a strict weak order)"""
        def start(loc: Dict[str, Any]) -> int:
            return min(p[0] for p in loc["parts"])
        starts = {start(a["loc"]) for a in case["protos"] + case["subs"]} | \
                 {p[0] for a in case["protos"] + case["subs"] for p in a["loc"]["parts"]}
        dropped = set()
        kept = []
        for f in case["input"]:
            if f["type"] != "source" and (start(f["loc"]) in starts or f["loc"]["parts"][0][0] in starts):
                dropped.update(q[1][0] for q in f["quals"] if q[0] == "locus_tag")
            else:
                kept.append(f)
        kept = [f for f in kept if not any(q[0] == "locus_tag" and q[1][0] in dropped for q in f["quals"])]
        case["input"] = kept
        case["generics"] = [g for g in case["generics"] if start(g["loc"]) not in starts]
        _prune(case)

    def _add_gene(self, rng: random.Random, case: Dict[str, Any], name: str, loc: Dict[str, Any], total: int,
                  names: List[Any], codon_ok: bool) -> None:
        quals: List[List[Any]] = [["locus_tag", [name]]]
        if rng.random() < 0.3:
            quals.append(["gene", ["g" + name]])
        if rng.random() < 0.1:
            quals.append(["pseudo", [""]])             # a valueless qualifier as the GenBank parser delivers it
        gene_quals = [list(q) for q in quals]
        if rng.random() < 0.15:
            gene_quals.append(["note", ["gene note"] * rng.choice([1, 2])])
        case["input"].append({"type": "gene", "loc": loc, "quals": gene_quals})
        cds_quals = [list(q) for q in quals if q[0] != "pseudo"]
        if rng.random() < 0.1:
            cds_quals.append(["ribosomal_slippage", [""]])
        codon = rng.choice([None, None, "1", "2", "3"]) if codon_ok else rng.choice([None, "1"])
        if codon:
            cds_quals.append(["codon_start", [codon]])
        shift = int(codon) - 1 if codon else 0
        aa = (total - shift) // 3
        cds_quals.append(["translation", ["M" + "".join(rng.choice("ACDEFGHIKLMNPQRSTVWY") for _ in range(aa - 1))]])
        if rng.random() < 0.4:
            cds_quals.append(["product", ["a hypothetical protein"]])
        if rng.random() < 0.3:
            cds_quals.append(["note", ["input note"] * rng.choice([1, 1, 2])])
        if rng.random() < 0.3:
            cds_quals.append(["db_xref", ["GI:12345"]])
        case["input"].append({"type": "CDS", "loc": loc, "quals": cds_quals})
        names.append((name, total - shift, loc))

    def _extend(self, rng: random.Random, n: int, circ: bool, lo: int, hi: int, nb: int, strand: Any) -> Dict[str, Any]:
        s, e = lo - nb, hi + nb
        if not circ:
            return simple(max(0, s), min(n, e), strand)
        if (e - s) >= n:
            return simple(0, n, strand)
        if s < 0:
            return compound([[n + s, n, 1], [0, e, 1]]) if e < n + s else simple(0, n, strand)
        if e > n:
            return compound([[s, n, 1], [0, e - n, 1]]) if e - n < s else simple(0, n, strand)
        return simple(s, e, strand)

    def _gen_proto(self, rng: random.Random, n: int, circ: bool, grid: List[int], i: int) -> Dict[str, Any]:
        strand = rng.choice([None, None, 1])
        nb = rng.choice([0, grid[1], grid[2], grid[3]])
        if circ and rng.random() < 0.2:
            a, b = rng.choice([1, 2]), rng.choice([1, 2])
            core = compound([[n - grid[a], n, 1], [0, grid[b], 1]])
            loc = compound([[n - grid[a] - nb, n, 1], [0, grid[b] + nb, 1]])
        else:
            lo = rng.choice(grid[:-2])
            hi = min(n, lo + rng.choice([grid[1], grid[2], grid[4]]))
            core = simple(lo, hi, strand)
            loc = self._extend(rng, n, circ, lo, hi, nb, strand)
        product = rng.choice(self.PRODUCTS)
        out = {"core": core, "loc": loc, "tool": "rule-based-clusters", "product": product,
               "cutoff": rng.choice([0, grid[1], grid[2], 20000]), "nbhd": nb, "rule": f"cds({product} and x)",
               "category": rng.choice(["PKS", "other", "RiPP", ""]), "side": None, "notes": []}
        if rng.random() < 0.12:
            out["side"] = self._gen_side(rng)
            out["tool"] = rng.choice(["sidetool", "my tool: v2"] * 8 + ["externally annotated clusters v2"])
            out["category"] = "other"
            out["cutoff"] = 0
            out["rule"] = "from external annotation"
        if rng.random() < 0.1:
            out["notes"] = ["area note"] * rng.choice([1, 2])
        if out["side"] is None and rng.random() < 0.3:
            # type II PKS analysis annotation: starter units always; elongations with their weights, product classes: each or not
            elong = rng.choice([[], [], ["7 (Score: 120.5; E-value: 1.2e-30)"], ["8|9 (Score: 99.0; E-value: 3e-20)", "7 (Score: 1.0; E-value: 0.5)"]])
            weights = [] if not elong else rng.choice([[["acetyl-CoA_7", 342.347]], [["acetyl-CoA_8", 384.384], ["malonamyl-CoA_9", 455.5]],
                                                      [["acetyl-CoA_7", 300.0], ["acetyl-CoA_8", 342.25]]])
            out["t2pks"] = {"starters": rng.choice([["acetyl-CoA (Score: 0.0; E-value: 0.0)"],
                                                    ["malonamyl-CoA (Score: 530.1; E-value: 1.5e-160)", "acetyl-CoA (Score: 0.0; E-value: 0.0)"]]),
                            "elongations": elong, "weights": weights,
                            "classes": rng.choice([[], ["angucycline"], ["angucycline", "anthracycline"], ["benzoisochromanequinone"]])}
            if rng.random() < 0.5:
                out["product"] = "T2PKS"
                out["rule"] = "cds(T2PKS and x)"
        return out

    def _gen_side(self, rng: random.Random) -> List[List[Any]]:
        pool = [["zz_extra", ["1"]], ["aa_extra", ["2", "3"]], ["score", ["0.5"]]]
        return rng.sample(pool, rng.choice([0, 1, 2]))

    def _gen_sub(self, rng: random.Random, n: int, circ: bool, grid: List[int]) -> Dict[str, Any]:
        if circ and rng.random() < 0.2:
            loc = compound([[n - grid[rng.choice([1, 2])], n, 1], [0, grid[rng.choice([1, 2])], 1]])
        else:
            lo = rng.choice(grid[:-2])
            loc = simple(lo, min(n, lo + rng.choice([grid[1], grid[3], grid[6]])), rng.choice([None, 1]))
        out = {"loc": loc, "tool": rng.choice(["cassis", "clusterfinder"]), "label": rng.choice(["", "anchor1", "a label"]),
               "side": None}
        if rng.random() < 0.15:
            out["side"] = self._gen_side(rng)
            out["tool"] = rng.choice(["sidetool"] * 12 + ["externally annotated regions v2"])
        return out

    def _gen_cands(self, rng: random.Random, protos: List[Dict[str, Any]]) -> List[Dict[str, Any]]:
        idx = list(range(len(protos)))
        out = []
        for _ in range(rng.choice([1, 2, 3])):
            children = sorted(rng.sample(idx, rng.randrange(1, len(idx) + 1)))
            kind = "single" if len(children) == 1 else rng.choice(["interleaved", "neighbouring", "chemical_hybrid"])
            cand: Dict[str, Any] = {"kind": kind, "children": children}
            if rng.random() < 0.3:
                cand["smiles"] = rng.choice(["CC(=O)O", "CC(=O)O", "C" * 30 + "(=O)" * 20 + "N" * 40])
            if rng.random() < 0.3:
                cand["polymer"] = "(mal) + (ccmal)"
            out.append(cand)
        if rng.random() < 0.4:
            out.append(dict(out[0], kind=rng.choice(["interleaved", "neighbouring", "chemical_hybrid"])
                            if len(out[0]["children"]) > 1 else "single"))
        return out

    def cases(self, rng: random.Random, tier: str, deep: bool) -> Iterator[Dict[str, Any]]:
        count = 16000 if deep else 1500
        generated = (self.gen_layout(rng, tier) for _ in range(count))
        yield from self._precomputed(generated)
        yield from self.prepeptide_cases(rng, deep)
        yield from self.qualtext_cases(rng, deep)
        yield from self.dom_cases(rng, deep)
        yield from self.annot_cases(rng, deep)
        yield from self.feat_cases(rng, deep)
        if deep:
            yield from self._precomputed(self.small_scope())
        self.extra_coverage = {"records_generated": count, "worker_processes": WORKERS}

    def prepeptide_cases(self, rng: random.Random, deep: bool) -> Iterator[Dict[str, Any]]:
        """every leader/tail split of small genes of every shape: one exon, two or three exons (apart and
        adjoining), origin-spanning (cut before, at and after the origin), both strands"""
        n = 60
        shapes = [[[9, 27]], [[9, 18], [24, 33]], [[9, 18], [18, 27]], [[9, 15], [20, 26], [30, 36]],
                  [[51, 60], [0, 9]], [[48, 60], [0, 6]], [[57, 60], [0, 15]], [[45, 54], [57, 60], [0, 6]]]
        for shape in shapes:
            for strand in (1, -1):
                parts = [[lo, hi, strand] for lo, hi in shape]
                if strand == -1:
                    parts.reverse()
                loc = compound(parts) if len(parts) > 1 else simple(*parts[0])
                total = sum(hi - lo for lo, hi in shape) // 3
                for ld in range(0, total):
                    for tl in range(0, total - ld):
                        yield {"f": "prepeptide", "loc": loc, "ld": ld, "tl": tl, "len": n}
        for _ in range(3000 if deep else 300):
            strand = rng.choice([1, -1])
            k = rng.choice([1, 2, 2, 3])
            cuts = sorted(rng.sample(range(0, 200), 2 * k))
            parts = [[cuts[2 * i], cuts[2 * i + 1] + 1, strand] for i in range(k)]
            if rng.random() < 0.3 and k >= 2:
                parts = parts[1:] + parts[:1]          # reads as crossing the origin
            if strand == -1:
                parts.reverse()
            total = sum(p[1] - p[0] for p in parts) // 3
            if total < 2:
                continue
            ld = rng.randrange(0, total)
            tl = rng.randrange(0, total - ld)
            yield {"f": "prepeptide", "loc": compound(parts) if k > 1 else simple(*parts[0]), "ld": ld, "tl": tl, "len": 201}

    # ---- the text inside the class-specific qualifiers (ASV/Model/SerialQual.lean)
    FORMATS = ["{} ({}) {}: {}", "{} ({}) {}", "{} (E-value: {}, bitscore: {}, seeds: {}, tool: {})",
               "Domain: {} ({:d}-{:d}). E-value: {}. Score: {}. Matches aSDomain: {}", "type: {}",
               "{} (Da): {:.3f}", "{}: {}", "{} {}", "{}({:d})", "{:d}-{:d}", "a {} b", "{}.{}. {}", "{}"]
    FUNCTIONS = ["other", "biosynthetic", "biosynthetic-additional", "transport", "regulatory", "resistance"]

    def qualtext_cases(self, rng: random.Random, deep: bool) -> Iterator[Dict[str, Any]]:
        alphabet = "ab(:) ,.-0 1"

        def noise(lo: int, hi: int, chars: str = alphabet) -> str:
            return "".join(rng.choice(chars) for _ in range(rng.randint(lo, hi)))

        def word() -> str:
            return rng.choice(["smcogs", "rule-based-clusters", "t", "a.b", "x1", "cluster_definition", "resist"])

        def description() -> str:
            return rng.choice(["thing", "SMCOG1000: thing", "SMCOG1000:thing (Score: 12.5; E-value: 1e-5)", "a b", "x:", ":x",
                               "a (b) c", "a: b: c", " lead", "trail ", "(p) q", "4 (x): y", noise(1, 8)])

        def product() -> Optional[str]:
            # never "": `__str__` treats it as no product while `__eq__` (the de-duplication in add()) does not
            return rng.choice([None, None, "T1PKS", "NRPS-like", "p q", "a:b", "RiPP (x)"])
        # hand-picked first
        for text in ["other (smcogs) SMCOG1000: thing", "other (t) :a", "biosynthetic (t) d", "biosynthetic (t) p: d", "bio (t) d",
                     "other (a b) d", "other ( t) d", "other (t)d", "other(t) d", "other (t) p:d", "other (t) a)b: c", "other (t) ",
                     "other (t) d\n", "other (t) p: d\n", "other (t) a\nb", "other (a)b) d", "other (a) (b) d", "", "other", "other () d",
                     "regulatory (smcogs) SMCOG1057:TetR family transcriptional regulator (Score: 82.6; E-value: 1.6e-25)"]:
            yield {"f": "qualtext", "kind": "genefn", "text": text}
        count = 12000 if deep else 1500
        for i in range(count):
            kind = ("format", "genefn", "genefns", "secmet")[i % 4]
            if kind == "format":
                fmt = rng.choice(self.FORMATS) if rng.random() < 0.8 else noise(1, 3, "ab (.:") + "{}" + noise(0, 3, "ab (.:") + \
                    rng.choice(["", "{}", "{:d}", "{}" + noise(1, 2, " ):")])
                if rng.random() < 0.6:
                    # data rendered from the format with awkward values, then perhaps damaged
                    data = fmt
                    while "{:d}" in data:
                        data = data.replace("{:d}", rng.choice(["0", "12", "345", "x", ""]), 1)
                    while "{}" in data:
                        data = data.replace("{}", rng.choice(["a", "ab", "1.5e-05", "a b", "a(b)", "x: y", "PKS_KS(Iterative-KS)", "",
                                                               noise(1, 4)]), 1)
                    if rng.random() < 0.3:
                        at = rng.randrange(len(data) + 1)
                        data = data[:at] + rng.choice(["", " ", "\n", ":", "(", ")"]) + data[at + rng.choice([0, 1]):]
                else:
                    data = noise(0, 14)
                yield {"f": "qualtext", "kind": "format", "fmt": fmt, "data": data}
            elif kind == "genefn":
                if rng.random() < 0.5:
                    prod = product()
                    text = f"{rng.choice(self.FUNCTIONS + ['bio', 'Other'])} ({rng.choice([word(), 'a b', 'a)b', ''])}) " + \
                        (f"{prod}: " if prod is not None and rng.random() < 0.9 else "") + description()
                    if rng.random() < 0.3:
                        at = rng.randrange(len(text) + 1)
                        text = text[:at] + rng.choice(["", " ", "\n", ":", "(", ")"]) + text[at + rng.choice([0, 1]):]
                else:
                    text = noise(0, 16)
                yield {"f": "qualtext", "kind": "genefn", "text": text}
            elif kind == "genefns":
                pool = [{"fn": rng.choice(self.FUNCTIONS), "tool": word(), "description": description(), "product": product()}
                        for _ in range(3)]
                annots = [dict(rng.choice(pool)) for _ in range(rng.randint(1, 4))]
                yield {"f": "qualtext", "kind": "genefns", "annots": annots}
            else:
                names = ["PKS_KS", "AMP-binding", "a b", "a(b)", "x", "Condensation", "p450"]
                domains = [{"name": rng.choice(names), "evalue": rng.choice([0.0, 1e-5, 1.5e-20, 3.0, 2.5e-310, 1e22, 0.1]),
                            "bitscore": rng.choice([0.0, 12.5, -3.25, 100.0, 1e16]), "nseeds": rng.choice([0, 1, 25, 1000]),
                            "tool": rng.choice(["rule-based-clusters", "t", "a b", "x(y)"])} for _ in range(rng.randint(1, 4))]
                yield {"f": "qualtext", "kind": "secmet", "domains": domains}

    @staticmethod
    def observe_qualtext(case: Dict[str, Any]) -> Dict[str, Any]:
        from antismash.common.secmet.qualifiers.gene_functions import (GeneFunction, GeneFunctionAnnotations,
                                                                        _GeneFunctionAnnotation)
        from antismash.common.secmet.qualifiers.secmet import SecMetQualifier, _parse_format

        def annot(a: Any) -> Dict[str, Any]:
            return {"fn": str(a.function), "tool": a.tool, "description": a.description, "product": a.product}

        def quals(annotations: Any) -> List[List[Any]]:
            # the two qualifiers CDSFeature.to_biopython writes
            if not annotations:
                return []
            return [["gene_functions", list(map(str, annotations))], ["gene_kind", [str(annotations.get_classification())]]]
        kind = case["kind"]
        if kind == "format":
            try:
                return {"groups": list(_parse_format(case["fmt"], case["data"]))}
            except ValueError:
                return {"groups": None}
        if kind == "genefn":
            try:
                return {"parsed": {"ok": annot(_GeneFunctionAnnotation.from_string(case["text"]))}}
            except Exception as exc:  # pylint: disable=broad-except
                return {"parsed": {"err": err_kind(exc)}}
        if kind == "genefns":
            out: Dict[str, Any] = {}
            try:
                built = GeneFunctionAnnotations()
                for a in case["annots"]:
                    built.add(GeneFunction.from_string(a["fn"]), a["tool"], a["description"], a["product"])
                out["built"] = {"ok": [annot(a) for a in built]}
                out["quals"] = {"ok": quals(built)}
            except Exception as exc:  # pylint: disable=broad-except
                return {"built": {"err": err_kind(exc)}}
            try:
                back = GeneFunctionAnnotations()
                back.add_from_qualifier(list(map(str, built)))
                out["back"] = {"ok": [annot(a) for a in back]}
                out["again"] = {"ok": quals(back)}
            except Exception as exc:  # pylint: disable=broad-except
                out["back"] = {"err": err_kind(exc)}
            return out
        assert kind == "secmet"

        def dom(d: Any) -> Dict[str, str]:
            return {"name": d.name, "evalue": str(d.evalue), "bitscore": str(d.bitscore), "nseeds": str(d.nseeds), "tool": d.tool}
        built_sm = SecMetQualifier([SecMetQualifier.Domain(d["name"], d["evalue"], d["bitscore"], d["nseeds"], d["tool"])
                                    for d in case["domains"]])
        strs = list(map(str, built_sm))
        out = {"built": [dom(d) for d in built_sm], "strs": strs}
        try:
            out["back"] = {"ok": [dom(d) for d in SecMetQualifier.from_biopython(strs)]}
        except Exception as exc:  # pylint: disable=broad-except
            out["back"] = {"err": err_kind(exc)}
        return out

    def judge_qualtext(self, case: Dict[str, Any], obs: Dict[str, Any], drv: Dict[str, Any]) -> Judgement:
        kind = case["kind"]
        tags = ["qualtext:" + kind]
        if kind == "format":
            if not drv["modelled"]:
                return Judgement(True, True, in_scope=False, tags=tuple(tags + ["format-not-modelled"]))
            corr = drv["groups"] == obs["groups"]
            tags.append("match" if obs["groups"] is not None else "no-match")
            return Judgement(corr, True, nontrivial=obs["groups"] is not None, tags=tuple(tags),
                             detail="" if corr else f"_parse_format: model {drv['groups']} vs implementation {obs['groups']}")
        if kind == "genefn":
            corr = drv["parsed"] == obs["parsed"]
            tags.append("parsed" if "ok" in obs["parsed"] else "refused:" + obs["parsed"]["err"])
            return Judgement(corr, True, nontrivial="ok" in obs["parsed"], tags=tuple(tags),
                             detail="" if corr else f"from_string: model {drv['parsed']} vs implementation {obs['parsed']}")
        if kind == "genefns":
            if "err" in obs["built"]:
                corr = "err" in drv["built"]
                return Judgement(corr, True, in_scope=False, tags=tuple(tags + ["refused:" + obs["built"]["err"]]),
                                 detail="" if corr else f"model {drv['built']} vs implementation {obs['built']}")
            problems = [f"{k}: model {drv[k]} vs implementation {obs[k]}" for k in ("built", "quals", "back", "again")
                        if drv[k] != obs.get(k)]
            def norm(annots: List[Dict[str, Any]]) -> List[Dict[str, Any]]:
                # an empty product is "no product" (`if not self.product`)
                return [dict(a, product=a["product"] or None) for a in annots]

            def blur(a: Dict[str, Any]) -> Tuple[str, str, str]:
                text = a["description"] if not a["product"] else f"{a['product']}: {a['description']}"
                return (a["fn"], a["tool"], text.replace(" ", ""))
            built = norm(obs["built"]["ok"])
            bad = []
            if "err" in obs["back"]:
                bad.append(f"re-reading raised {obs['back']['err']}")
            else:
                if norm(obs["back"]["ok"]) != built:
                    bad.append(f"annotations {built} came back as {obs['back']['ok']}")
                if obs["again"] != obs["quals"]:
                    bad.append(f"second write {obs['again']} differs from the first {obs['quals']}")
            known = None
            if bad and "ok" in obs["back"]:
                colon = any(":" in (a["product"] or "") or (not a["product"] and ":" in a["description"]) for a in built)
                if colon and list(dict.fromkeys(map(blur, built))) == list(dict.fromkeys(map(blur, obs["back"]["ok"]))) and \
                        json.dumps(obs["again"]).replace(" ", "") == json.dumps(obs["quals"]).replace(" ", ""):
                    known = KF_FUNCTION
            if any(":" in a["description"] for a in built):
                tags.append("colon-in-description")
            return Judgement(not problems, not bad, in_scope=bool(drv["scope"]), known=known, nontrivial=True, tags=tuple(tags),
                             detail="; ".join(bad + problems)[:1200])
        assert kind == "secmet"
        problems = [f"{k}: model {drv[k]} vs implementation {obs[k]}" for k in ("built", "strs", "back") if drv[k] != obs[k]]
        bad = []
        if obs["back"].get("ok") != obs["built"]:
            bad.append(f"domains {obs['built']} came back as {obs['back']}")
        return Judgement(not problems, not bad, in_scope=bool(drv["scope"]), nontrivial=True, tags=tuple(tags),
                         detail="; ".join(bad + problems)[:1200])

    # ---- domains and motifs outside any record (Dom in ASV/Model/SerialQual.lean)
    DOM_KEYS = ["aSTool", "locus_tag", "protein_start", "protein_end", "aSDomain", "ASF", "domain_id", "database", "detection",
                "label", "translation", "evalue", "score"]

    def dom_cases(self, rng: random.Random, deep: bool) -> Iterator[Dict[str, Any]]:
        def opt(values: List[Any], p_none: float = 0.4) -> Any:
            return None if rng.random() < p_none else rng.choice(values)
        for i in range(4000 if deep else 500):
            strand = rng.choice([1, -1])
            lo = rng.randrange(0, 200)
            if rng.random() < 0.25:
                parts = [[lo, lo + 30, strand], [lo + 40, lo + 70, strand]]
                if strand == -1:
                    parts.reverse()
                loc = compound(parts)
            else:
                loc = simple(lo, lo + rng.choice([3, 60]), strand)
            p_start = rng.randrange(0, 50)
            case = {"f": "dom", "kind": rng.choice(["aSDomain", "CDS_motif"]), "loc": loc,
                    "tool": rng.choice(["made_up_tool", "t", "cluster_hmmer"]), "locus_tag": rng.choice(["ctg1_5", "a", "x" * 50]),
                    "p_start": p_start, "p_end": p_start + rng.choice([0, 1, 20]),
                    "domain": opt(["PKS_KS", "Type III (x)", "a b"]), "asf": rng.sample(["hit b", "hit a", "c", "Z"], rng.randint(0, 3)),
                    "domain_id": opt(["made_up_ctg1_5_0001", "id.1"], 0.1), "database": opt(["db.hmm", "a b"]),
                    "detection": opt(["hmmscan", "by hand"]), "label": opt(["ctg1_5_KS1", "L"]),
                    "evalue": opt([0.0, 1.5e-20, 0.12, 3.4e-30, 1e-300, 2.5, 1.2345e-07]), "score": opt([0.0, 12.5, -3.25, 100.0, 1e16, 0.1]),
                    "translation": rng.choice(["", "MAGIC", "M" * 70]), "notes": rng.sample(["n2", "n1", "a note"], rng.randint(0, 2)),
                    "quals": rng.sample([["custom", ["x", "y"]], ["zz", ["1"]], ["note", ["stored"]], ["inference", ["i"]]],
                                        rng.randint(0, 2))}
            if i % 3 == 2:
                # read a damaged feature: both sides must refuse or accept alike
                key = rng.choice(self.DOM_KEYS + ["tool", "note"])
                case["mutate"] = rng.choice([["del", key], ["set", key, []], ["set", key, [""]], ["set", key, ["7", "8"]],
                                             ["set", key, ["a b*"]], ["set", key, [" "]]])
            yield case

    @staticmethod
    def _dump_dom(feature: Any) -> Dict[str, Any]:
        return {"feat": dump_feat(feature), "tool": feature.tool, "locus_tag": feature.locus_tag,
                "p_start": int(feature.protein_location.start), "p_end": int(feature.protein_location.end),
                "domain": feature.domain, "asf": list(feature.asf.hits), "domain_id": feature.domain_id,
                "database": feature.database, "detection": feature.detection, "label": feature.label,
                "evalue": None if feature.evalue is None else f"{feature.evalue:.2E}",
                "score": None if feature.score is None else str(feature.score), "translation": feature._translation,
                # the numbers themselves, for the specification
                "@evalue": feature.evalue, "@score": feature.score}

    @classmethod
    def observe_dom(cls, case: Dict[str, Any]) -> Dict[str, Any]:
        from Bio.SeqFeature import SeqFeature
        from antismash.common.secmet.features import AntismashDomain, CDSMotif
        from antismash.common.secmet.locations import FeatureLocation
        location = common.make_location(case["loc"])
        protein = FeatureLocation(case["p_start"], case["p_end"])
        klass = AntismashDomain if case["kind"] == "aSDomain" else CDSMotif
        try:
            if klass is AntismashDomain:
                feature = AntismashDomain(location, case["tool"], protein, case["locus_tag"], domain=case["domain"])
            else:
                feature = CDSMotif(location, case["locus_tag"], protein, case["tool"])
                feature.domain = case["domain"]
            for name in ("domain_id", "database", "detection", "label"):
                setattr(feature, name, case[name])
            if case["evalue"] is not None:
                feature.evalue = case["evalue"]
            if case["score"] is not None:
                feature.score = case["score"]
            if case["translation"]:
                feature.translation = case["translation"]
            for hit in case["asf"]:
                feature.asf.add(hit)
            feature.notes.extend(case["notes"])
            for key, values in case["quals"]:
                feature._qualifiers[key] = list(values)
            state = cls._dump_dom(feature)
            bio = feature.to_biopython()[0]
        except Exception as exc:  # pylint: disable=broad-except
            return {"err": err_kind(exc), "msg": str(exc)[:200]}
        out = {"state": state, "bio": {"loc": common.location_json(bio.location), "type": bio.type, "quals": qlist(bio.qualifiers)}}
        quals = {k: list(v) for k, v in bio.qualifiers.items()}
        if case.get("mutate"):
            if case["mutate"][0] == "del":
                quals.pop(case["mutate"][1], None)
            else:
                quals[case["mutate"][1]] = list(case["mutate"][2])
            out["mutated"] = {"loc": out["bio"]["loc"], "type": bio.type, "quals": qlist(quals)}
        try:
            back = klass.from_biopython(SeqFeature(bio.location, type=bio.type, qualifiers=quals))
            out["back"] = {"ok": cls._dump_dom(back)}
            again = back.to_biopython()[0]
            out["again"] = {"loc": common.location_json(again.location), "type": again.type, "quals": qlist(again.qualifiers)}
        except Exception as exc:  # pylint: disable=broad-except
            out["back"] = {"err": err_kind(exc), "msg": str(exc)[:200]}
        return out

    def judge_dom(self, case: Dict[str, Any], obs: Dict[str, Any], drv: Dict[str, Any]) -> Judgement:
        tags = ["dom:" + case["kind"]]
        if "err" in obs:
            return Judgement(True, True, in_scope=False, tags=tuple(tags + ["not-built:" + obs["err"]]))

        def strip(d: Dict[str, Any]) -> Dict[str, Any]:
            return {k: v for k, v in d.items() if not k.startswith("@") and k != "msg"}

        def bio_of(d: Dict[str, Any]) -> Any:
            return [{k: v for k, v in b.items() if k != "ls"} for b in d.get("ok", [])] if "ok" in d else d
        real_back = {"ok": strip(obs["back"]["ok"])} if "ok" in obs["back"] else {"err": obs["back"]["err"]}
        if "mutated" in obs:
            tags.append("damaged:" + ("accepted" if "ok" in obs["back"] else obs["back"]["err"]))
            if real_back.get("err", "").startswith(("value-error:", "other:")) or \
                    (case["mutate"][1] in ("evalue", "score") and case["mutate"][0] == "set"):
                # float() of arbitrary text is outside the model (numbers are kept as text)
                return Judgement(True, True, in_scope=False, tags=tuple(tags + ["number-text"]))
            corr = drv["back"] == real_back or drv["back"].get("err") == "unsupported"
            return Judgement(corr, True, in_scope=False, nontrivial=True, tags=tuple(tags),
                             detail="" if corr else f"from_biopython of {obs['mutated']}: model {drv['back']} vs implementation {real_back}")
        problems = []
        if bio_of(drv["bio"]) != [obs["bio"]]:
            problems.append(f"written: model {drv['bio']} vs implementation {obs['bio']}")
        if drv["back"] != real_back:
            problems.append(f"re-read: model {drv['back']} vs implementation {real_back}")
        if "again" in obs and bio_of(drv["again"]) != [obs["again"]]:
            problems.append(f"second write: model {drv['again']} vs implementation {obs['again']}")
        bad = []
        if case["kind"] == "aSDomain" and not case["domain_id"]:
            # not an annotation a record can hold (Record.add_antismash_domain needs the name); both sides refuse to read it
            tags.append("domain-without-id")
            return Judgement(not problems and drv["back"] == {"err": "assertion"}, True, in_scope=False, tags=tuple(tags),
                             detail="; ".join(problems)[:1500])
        if "err" in obs["back"]:
            bad.append(f"re-reading raised {obs['back']['err']}: {obs['back'].get('msg')}")
        else:
            before, after = obs["state"], obs["back"]["ok"]
            for key in before:
                if key in ("feat", "evalue", "score"):
                    continue
                if before[key] != after[key]:
                    bad.append(f"{key.lstrip('@')}: {before[key]!r} -> {after[key]!r}")
            fb, fa = before["feat"], after["feat"]
            view_b = (fb["loc"], fb["type"], sorted(fb["notes"] + dict(fb["quals"]).get("note", [])), fb["byAS"], fb["codon"],
                      sorted(q for q in fb["quals"] if q[0] not in ("note", "tool")))
            view_a = (fa["loc"], fa["type"], sorted(fa["notes"] + dict(fa["quals"]).get("note", [])), fa["byAS"], fa["codon"],
                      sorted(q for q in fa["quals"] if q[0] not in ("note", "tool")))
            if view_b != view_a:
                bad.append(f"base feature {view_b} -> {view_a}")
            if obs["again"] != obs["bio"]:
                bad.append("the second write differs from the first")
        exact = case["evalue"] is None or float(f"{case['evalue']:.2E}") == case["evalue"]
        known = None
        if not exact and len(bad) == 1 and bad[0].startswith("evalue:") and \
                obs["back"]["ok"]["@evalue"] == float(f"{case['evalue']:.2E}"):
            known = KF_PRECISION
        # the model's e-value is the written text: the theorem speaks about values that are their own three-digit form
        return Judgement(not problems, not bad, in_scope=bool(drv["scope"]) and exact, known=known, nontrivial=True,
                         tags=tuple(tags), detail="; ".join(bad + problems)[:1500])

    # ---- analysis annotations with qualifiers of their own: type II PKS (protocluster), Pfam identifier / GO terms
    def annot_cases(self, rng: random.Random, deep: bool) -> Iterator[Dict[str, Any]]:
        terms = [["GO:0009055", "electron transfer activity"], ["GO:0016491", "oxidoreductase activity"], ["GO:0016020", "membrane"],
                 ["GO:0004871", "signal transducer activity: x"], ["GO:0007165", "signal transduction"], ["X:1", "a: b"]]
        for i in range(3000 if deep else 400):
            if i % 2 == 0:
                elong = rng.choice([[], [], ["7 (Score: 120.5; E-value: 1.2e-30)"], ["8|9 (Score: 99.0; E-value: 3e-20)", "7 (Score: 1.0; E-value: 0.5)"]])
                weights = [] if not elong else rng.choice([[["acetyl-CoA_7", 342.347]], [["acetyl-CoA_8", 384.384], ["malonamyl-CoA_9", 455.5]],
                                                          [["a b_7", 300.0]], [["x(y)_1", 1.0], ["acetyl-CoA_8", 342.25]],
                                                          [["acetyl-CoA_7", 342.34721]]])
                case = {"f": "annot", "kind": "t2pks", "starters": rng.choice([["acetyl-CoA (Score: 0.0; E-value: 0.0)"]] * 5 + [["s1", "s2"]] * 4 + [[]]),
                        "elongations": elong, "weights": weights,
                        "classes": rng.choice([[], ["angucycline"], ["angucycline", "anthracycline"]])}
                if rng.random() < 0.08:
                    case["weights"] = [] if case["weights"] else [["lonely_1", 1.0]]      # refused by the constructor
                if i % 6 == 4:
                    key = rng.choice(["t2pks_starter_units", "t2pks_malonyl_elongations", "t2pks_molecular_weights", "t2pks_product_classes"])
                    case["mutate"] = rng.choice([["del", key], ["set", key, []], ["set", key, ["x"]], ["set", key, ["a (Da): 1.000", "a (Da): 2.000"]],
                                                 ["set", key, ["a(Da):1"]], ["set", key, ["(Da): 1"]]])
            else:
                case = {"f": "annot", "kind": "pfam", "description": rng.choice(["a description", "Cytochrome b(C-terminal)/b6/petD", "x"]),
                        "identifier": rng.choice(["PF00032", "PF00001", "PF12345"]), "version": rng.choice([None, None, 1, 14, 20]),
                        "go": None if rng.random() < 0.3 else rng.sample(terms, rng.choice([1, 2, 2, 3, 4]))}
                if i % 6 == 5:
                    key = rng.choice(["description", "db_xref", "gene_ontologies"])
                    case["mutate"] = rng.choice([["del", key], ["set", key, []], ["set", key, [""]], ["set", key, ["PF00001.x"]],
                                                 ["set", key, ["PF1"]], ["set", key, ["GI:1", "PF00001"]], ["set", key, ["no separator"]],
                                                 ["set", key, ["PF00002.3", "GO:1", "GO:0"]], ["set", key, ["a: b", "a: c", "b: d"]]])
            yield case

    @staticmethod
    def observe_annot(case: Dict[str, Any]) -> Dict[str, Any]:
        def damage(quals: Dict[str, List[str]]) -> None:
            if case["mutate"][0] == "del":
                quals.pop(case["mutate"][1], None)
            else:
                quals[case["mutate"][1]] = list(case["mutate"][2])
        if case["kind"] == "t2pks":
            from antismash.common.secmet.qualifiers.t2pks import T2PKSQualifier

            def dump(t2: Any) -> Any:
                if t2 is None:
                    return None
                return {"starters": list(t2.starter_units), "elongations": list(t2.malonyl_elongations), "classes": list(t2.product_classes),
                        "weights": [[k, f"{v:.3f}"] for k, v in t2.molecular_weights.items()], "@weights": dict(t2.molecular_weights)}
            try:
                t2 = T2PKSQualifier(list(case["starters"]), list(case["elongations"]), list(case["classes"]),
                                    {k: v for k, v in case["weights"]})
            except ValueError:
                return {"err": "value-error"}
            quals = {k: list(v) for k, v in t2.to_biopython_qualifiers().items()}
            out: Dict[str, Any] = {"state": dump(t2), "quals": qlist(quals)}
            if case.get("mutate"):
                damage(quals)
                out["mutated"] = qlist(quals)
            try:
                back = T2PKSQualifier.from_biopython_qualifiers(quals)
                out["back"] = {"ok": {"t2": dump(back), "left": qlist(quals)}}
            except Exception as exc:  # pylint: disable=broad-except
                out["back"] = {"err": err_kind(exc)}
            return out
        from Bio.SeqFeature import SeqFeature
        from antismash.common.secmet.features import PFAMDomain
        from antismash.common.secmet.locations import FeatureLocation
        from antismash.common.secmet.qualifiers import GOQualifier
        keys = ("description", "db_xref", "gene_ontologies")

        def dump_p(dom: Any) -> Dict[str, Any]:
            return {"description": dom.description, "identifier": dom.identifier, "version": dom.version,
                    "go": None if dom.gene_ontologies is None else [[k, v] for k, v in dom.gene_ontologies.go_entries.items()]}

        def three(bio: Any) -> List[List[Any]]:
            return [[k, list(bio.qualifiers[k])] for k in keys if k in bio.qualifiers]
        full = case["identifier"] + ("" if case["version"] is None else f".{case['version']}")
        dom = PFAMDomain(FeatureLocation(0, 30, 1), case["description"], FeatureLocation(0, 10), full, "pfamtool", "locus")
        dom.domain_id = "pfam_locus_1"
        if case["go"] is not None:
            dom.gene_ontologies = GOQualifier({k: v for k, v in case["go"]})
        bio = dom.to_biopython()[0]
        out = {"state": dump_p(dom), "quals": three(bio)}
        quals = {k: list(v) for k, v in bio.qualifiers.items()}
        if case.get("mutate"):
            damage(quals)
            out["mutated"] = [[k, list(quals[k])] for k in keys if k in quals]
        try:
            back = PFAMDomain.from_biopython(SeqFeature(bio.location, type=bio.type, qualifiers=quals))
            out["back"] = {"ok": {"p": dump_p(back), "xref": list(back._qualifiers.get("db_xref", []))}}
            out["again"] = {"ok": three(back.to_biopython()[0])}
        except Exception as exc:  # pylint: disable=broad-except
            out["back"] = {"err": err_kind(exc)}
        return out

    def judge_annot(self, case: Dict[str, Any], obs: Dict[str, Any], drv: Dict[str, Any]) -> Judgement:
        tags = ["annot:" + case["kind"]]
        if "err" in obs:
            return Judgement(True, True, in_scope=False, tags=tuple(tags + ["refused-by-constructor"]))

        def clean(x: Any) -> Any:
            if isinstance(x, dict):
                return {k: clean(v) for k, v in x.items() if not k.startswith("@")}
            if isinstance(x, list):
                return [clean(v) for v in x]
            return x
        real_back = clean(obs["back"])
        if "mutated" in obs:
            tags.append("damaged:" + ("accepted" if "ok" in obs["back"] else obs["back"]["err"]))
            if real_back.get("err", "").startswith(("value-error:", "other:")):
                return Judgement(True, True, in_scope=False, tags=tuple(tags + ["number-text"]))
            model_back = drv["back"]
            if case["kind"] == "t2pks" and "ok" in model_back and model_back["ok"]["t2"]:
                # the model keeps the weight's text, the implementation's number is shown with three decimals
                def shown(text: str) -> str:
                    try:
                        return f"{float(text):.3f}"
                    except ValueError:
                        return text
                t2 = model_back["ok"]["t2"]
                model_back = {"ok": dict(model_back["ok"], t2=dict(t2, weights=[[k, shown(v)] for k, v in t2["weights"]]))}
            corr = model_back == real_back
            return Judgement(corr, True, in_scope=False, nontrivial=True, tags=tuple(tags),
                             detail="" if corr else f"reading {obs['mutated']}: model {drv['back']} vs implementation {real_back}")
        problems = [f"{k}: model {drv.get(k)} vs implementation {v}" for k, v in (("quals", obs["quals"]), ("back", real_back))
                    if drv.get(k) != v]
        if "again" in obs and drv.get("again") != obs["again"]:
            problems.append(f"second write: model {drv.get('again')} vs implementation {obs['again']}")
        bad = []
        known = None
        if "err" in obs["back"]:
            bad.append(f"reading back raised {obs['back']['err']}")
        elif case["kind"] == "t2pks":
            before, after = obs["state"], obs["back"]["ok"]["t2"]
            if after is None or {k: v for k, v in before.items() if k != "weights"} != {k: v for k, v in after.items() if k != "weights"}:
                bad.append(f"annotation {before} came back as {after}")
                if after is not None and clean(before) == clean(after) and \
                        {k: float(f"{v:.3f}") for k, v in before["@weights"].items()} == after["@weights"]:
                    known = KF_PRECISION
            if obs["back"]["ok"]["left"]:
                bad.append(f"qualifiers left over: {obs['back']['ok']['left']}")
        else:
            before, after = obs["state"], obs["back"]["ok"]["p"]
            same_terms = (before["go"] is None) == (after["go"] is None) and sorted(before["go"] or []) == sorted(after["go"] or [])
            if {k: v for k, v in before.items() if k != "go"} != {k: v for k, v in after.items() if k != "go"} or not same_terms:
                bad.append(f"Pfam data {before} came back as {after}")
            if obs["again"]["ok"] != obs["quals"]:
                bad.append(f"second write {obs['again']['ok']} differs from the first {obs['quals']}")
        return Judgement(not problems, not bad, in_scope=bool(drv.get("scope")) and known is None, known=known, nontrivial=True,
                         tags=tuple(tags), detail="; ".join(bad + problems)[:1500])

    # ---- whole PFAM_domain / aSModule features through the real classes vs Pfam / ModF (Model/SerialQual, SerialModule)
    def feat_cases(self, rng: random.Random, deep: bool) -> Iterator[Dict[str, Any]]:
        pool = [["note", ["motif found by another tool"]], ["locus_tag", ["extmotif1"]], ["protein_start", ["5"]], ["protein_end", ["9"]],
                ["custom_key", ["x", "y"]], ["label", ["their_label"]], ["database", ["their db"]], ["translation", ["MAG"]],
                ["zz_last", ["1"]], ["aSDomain", ["their name"]], ["domain_id", ["their id"]], ["evalue", ["1e-5"]]]
        for _ in range(600 if deep else 100):
            lo = rng.randrange(0, 200)
            yield {"f": "feat", "kind": "cds", "loc": simple(lo, lo + 30, rng.choice([1, -1])), "notes": rng.sample(["n1", "n2"], rng.randint(0, 2)),
                   "locus_tag": rng.choice([None, "ctg1_5"]), "protein_id": rng.choice([None, "WP_0001.1"]), "gene": rng.choice(["geneA", None, "gB"]),
                   "product": rng.choice(["", "a hypothetical protein"]), "translation": "M" + "".join(rng.choice("ACDEF") for _ in range(9)),
                   "transl_table": rng.choice([1, 11, 4]),
                   "gene_functions": rng.sample([["biosynthetic", "rule-based-clusters", "PKS_KS", "T1PKS"], ["transport", "smcogs", "ABC transporter", None],
                                                 ["other", "smcogs", "thing two", None]], rng.randint(0, 2)),
                   "sec_met": rng.sample([["PKS_KS", 1.5e-20, 12.5, 25, "rule-based-clusters"], ["AMP-binding", 0.0, 100.0, 3, "rule-based-clusters"]],
                                         rng.randint(0, 2))}
        for _ in range(600 if deep else 100):
            lo = rng.randrange(0, 200)
            yield {"f": "feat", "kind": "extmotif", "loc": simple(lo, lo + 9, rng.choice([1, -1])),
                   "quals": rng.sample(pool, rng.randint(0, 5))}
        terms = [["GO:0009055", "electron transfer activity"], ["GO:0016491", "oxidoreductase activity"], ["GO:0016020", "membrane"]]
        for i in range(1500 if deep else 240):
            strand = rng.choice([1, -1])
            lo = rng.randrange(0, 200)
            base = {"loc": simple(lo, lo + rng.choice([30, 60]), strand), "notes": rng.sample(["n2", "n1", "a note"], rng.randint(0, 2)),
                    "quals": rng.sample([["custom", ["x", "y"]], ["zz", ["1"]], ["note", ["stored"]], ["inference", ["i"]]], rng.randint(0, 2))}
            if i % 2 == 0:
                p_start = rng.randrange(0, 50)
                yield dict(base, f="feat", kind="pfam", tool=rng.choice(["cluster_hmmer", "t"]), locus_tag=rng.choice(["ctg1_5", "a"]),
                           p_start=p_start, p_end=p_start + rng.choice([1, 20]), domain=rng.choice([None, "p450", "a b"]),
                           domain_id=rng.choice([None, "pfam_ctg1_5_0001"]), database=rng.choice([None, "Pfam-A.hmm 31.0"]),
                           detection=rng.choice([None, "hmmscan"]), label=rng.choice([None, "L"]), evalue=rng.choice([None, 1.5e-20, 0.0]),
                           score=rng.choice([None, 12.5, 0.0]), translation=rng.choice(["", "MAGIC"]),
                           asf=rng.sample(["hit b", "hit a"], rng.randint(0, 2)),
                           description=rng.choice(["a description", "Cytochrome b(C-terminal)/b6/petD"]),
                           identifier=rng.choice(["PF00032", "PF00001"]), version=rng.choice([None, 1, 14]),
                           go=None if rng.random() < 0.4 else rng.sample(terms, rng.choice([1, 2, 3])))
            else:
                names = rng.sample(["nrpspksdomains_c0_PKS_KS.1", "nrpspksdomains_c0_PKS_AT.1", "nrpspksdomains_c1_ACP.1",
                                    "a_domain_name_long_enough_to_be_wrapped_by_the_genbank_writer_of_biopython.1"], rng.choice([1, 2, 3]))
                yield dict(base, f="feat", kind="module", domains=[{"name": n, "locus": "c1" if "_c1_" in n else "c0", "strand": strand}
                                                                   for n in names],
                           type=rng.choice(["nrps", "pks", "unknown", "cal"]), complete=rng.random() < 0.5,
                           starter=rng.random() < 0.3, final=rng.random() < 0.3, iterative=rng.random() < 0.2)

    @classmethod
    def observe_feat(cls, case: Dict[str, Any]) -> Dict[str, Any]:
        from Bio.SeqFeature import SeqFeature
        if case["kind"] == "cds":
            from antismash.common.secmet.features import CDSFeature
            from antismash.common.secmet.qualifiers import GeneFunction, SecMetQualifier
            cds = CDSFeature(common.make_location(case["loc"]), case["translation"], locus_tag=case["locus_tag"], protein_id=case["protein_id"],
                             product=case["product"], gene=case["gene"], translation_table=case["transl_table"]) \
                if (case["locus_tag"] or case["protein_id"] or case["gene"]) else None
            if cds is None:
                return {"err": "value-error"}
            for fn, tool, desc, product in case["gene_functions"]:
                cds.gene_functions.add(GeneFunction.from_string(fn), tool, desc, product)
            if case["sec_met"]:
                cds.sec_met = SecMetQualifier([SecMetQualifier.Domain(*d) for d in case["sec_met"]])
            cds.notes.extend(case["notes"])
            bio = cds.to_biopython()[0]
            back = CDSFeature.from_biopython(SeqFeature(bio.location, type=bio.type, qualifiers={k: list(v) for k, v in bio.qualifiers.items()}))
            state = {"feat": dump_feat(cds), "locus_tag": cds.locus_tag, "protein_id": cds.protein_id, "gene": cds.gene, "product": cds.product,
                     "translation": cds.translation, "transl_table": cds.transl_table,
                     "gene_functions": [{"fn": str(a.function), "tool": a.tool, "description": a.description, "product": a.product}
                                        for a in cds.gene_functions],
                     "sec_met": [{"name": d.name, "evalue": str(d.evalue), "bitscore": str(d.bitscore), "nseeds": str(d.nseeds), "tool": d.tool}
                                 for d in cds.sec_met]}
            return {"cds_state": state, "bio": {"loc": common.location_json(bio.location), "type": bio.type, "quals": qlist(bio.qualifiers)},
                    "again": qlist(back.to_biopython()[0].qualifiers),
                    "same": (back.locus_tag, back.protein_id, back.gene, back.product, back.translation, back.transl_table) ==
                            (cds.locus_tag, cds.protein_id, cds.gene, cds.product, cds.translation, cds.transl_table) and
                            list(map(str, back.gene_functions)) == list(map(str, cds.gene_functions)) and
                            list(map(str, back.sec_met)) == list(map(str, cds.sec_met))}
        if case["kind"] == "extmotif":
            from antismash.common.secmet.features import CDSMotif
            from antismash.common.secmet.features.cds_motif import ExternalCDSMotif
            bio = SeqFeature(common.make_location(case["loc"]), type="CDS_motif", qualifiers={k: list(v) for k, v in case["quals"]})
            motif = CDSMotif.from_biopython(bio)
            assert isinstance(motif, ExternalCDSMotif)
            written = CDSMotif.to_biopython(motif)[0]          # what the parent classes write
            out = motif.to_biopython()[0]
            back = CDSMotif.from_biopython(SeqFeature(out.location, type=out.type, qualifiers={k: list(v) for k, v in out.qualifiers.items()}))
            return {"written": qlist(written.qualifiers), "original": qlist(motif.original_qualifiers), "quals": qlist(out.qualifiers),
                    "again": qlist(back.to_biopython()[0].qualifiers),
                    "orig_back": qlist(back.original_qualifiers)}
        from antismash.common.secmet.features import AntismashDomain, Module, PFAMDomain
        from antismash.common.secmet.locations import FeatureLocation
        from antismash.common.secmet.qualifiers import GOQualifier
        location = common.make_location(case["loc"])

        def bio_json(bio: Any) -> Dict[str, Any]:
            return {"loc": common.location_json(bio.location), "type": bio.type, "quals": qlist(bio.qualifiers)}

        def generic(feature: Any) -> None:
            feature.notes.extend(case["notes"])
            for key, values in case["quals"]:
                feature._qualifiers[key] = list(values)
        try:
            if case["kind"] == "pfam":
                full = case["identifier"] + ("" if case["version"] is None else f".{case['version']}")
                feature: Any = PFAMDomain(location, case["description"], FeatureLocation(case["p_start"], case["p_end"]), full,
                                          case["tool"], case["locus_tag"], domain=case["domain"])
                for name in ("domain_id", "database", "detection", "label"):
                    setattr(feature, name, case[name])
                if case["evalue"] is not None:
                    feature.evalue = case["evalue"]
                if case["score"] is not None:
                    feature.score = case["score"]
                if case["translation"]:
                    feature.translation = case["translation"]
                for hit in case["asf"]:
                    feature.asf.add(hit)
                if case["go"] is not None:
                    feature.gene_ontologies = GOQualifier({k: v for k, v in case["go"]})
                generic(feature)

                def dump(dom: Any) -> Dict[str, Any]:
                    return {"d": {k: v for k, v in cls._dump_dom(dom).items() if not k.startswith("@")},
                            "x": {"description": dom.description, "identifier": dom.identifier, "version": dom.version,
                                  "go": None if dom.gene_ontologies is None else [[k, v] for k, v in dom.gene_ontologies.go_entries.items()]}}
                read = PFAMDomain.from_biopython
            else:
                doms = []
                for d in case["domains"]:
                    dom = AntismashDomain(FeatureLocation(0, 9, d["strand"]), "nrps_pks_domains_x", FeatureLocation(0, 3), d["locus"])
                    dom.domain_id = d["name"]
                    doms.append(dom)
                by_name = {d.domain_id: d for d in doms}

                class _Record:
                    @staticmethod
                    def get_domain_by_name(name: str) -> Any:
                        return by_name[name]
                feature = Module(location, doms, module_type=Module.types.from_string(case["type"]), complete=case["complete"],
                                 starter=case["starter"], final=case["final"], iterative=case["iterative"])
                generic(feature)

                def dump(mod: Any) -> Dict[str, Any]:
                    return {"feat": dump_feat(mod), "domains": [d.domain_id for d in mod.domains], "type": str(mod.module_type),
                            "complete": mod.is_complete(), "starter": mod.is_starter_module(), "final": mod.is_final_module(),
                            "iterative": mod.is_iterative()}

                def read(bio: Any) -> Any:
                    return Module.from_biopython(bio, record=_Record())
            state = dump(feature)
            bio = feature.to_biopython()[0]
        except Exception as exc:  # pylint: disable=broad-except
            return {"err": err_kind(exc), "msg": str(exc)[:200]}
        out = {"state": state, "bio": bio_json(bio)}
        try:
            back = read(SeqFeature(bio.location, type=bio.type, qualifiers={k: (None if v is None else list(v)) for k, v in bio.qualifiers.items()}))
            out["back"] = {"ok": dump(back)}
            out["again"] = bio_json(back.to_biopython()[0])
        except Exception as exc:  # pylint: disable=broad-except
            out["back"] = {"err": err_kind(exc), "msg": str(exc)[:200]}
        return out

    def judge_feat(self, case: Dict[str, Any], obs: Dict[str, Any], drv: Dict[str, Any]) -> Judgement:
        tags = ["feat:" + case["kind"]]
        if case["kind"] == "cds":
            if "err" in obs:
                return Judgement(True, True, in_scope=False, tags=tuple(tags + ["nameless"]))
            written = [{k: v for k, v in b.items() if k != "ls"} for b in drv["bio"].get("ok", [])]
            problems = []
            if written != [obs["bio"]]:
                problems.append(f"written: model {drv['bio']} vs implementation {obs['bio']}")
            if drv["same"] != obs["same"]:
                problems.append(f"read back unchanged: model {drv['same']} ({drv['back_err']}) vs implementation {obs['same']}")
            bad = [] if obs["same"] and obs["again"] == obs["bio"]["quals"] else ["the CDS or its second write changed"]
            return Judgement(not problems, not bad, nontrivial=True, tags=tuple(tags), detail="; ".join(bad + problems)[:1200])
        if case["kind"] == "extmotif":
            corr = drv["quals"] == obs["quals"]
            bad = []
            if sorted(obs["orig_back"]) != sorted(obs["original"]):
                bad.append(f"original qualifiers {obs['original']} came back as {obs['orig_back']}")
            if obs["again"] != obs["quals"]:
                bad.append(f"second write {obs['again']} differs from the first {obs['quals']}")
            return Judgement(corr, not bad, nontrivial=True, tags=tuple(tags),
                             detail="; ".join(bad + ([] if corr else [f"written: model {drv['quals']} vs implementation {obs['quals']}"]))[:1200])
        if "err" in obs:
            return Judgement(True, True, in_scope=False, tags=tuple(tags + ["not-built:" + obs["err"]]))

        def bio_of(d: Dict[str, Any]) -> Any:
            return [{k: v for k, v in b.items() if k != "ls"} for b in d["ok"]] if "ok" in d else d
        real_back = {"ok": obs["back"]["ok"]} if "ok" in obs["back"] else {"err": obs["back"]["err"]}
        problems = []
        if bio_of(drv["bio"]) != [obs["bio"]]:
            problems.append(f"written: model {drv['bio']} vs implementation {obs['bio']}")
        if drv["back"] != real_back:
            problems.append(f"re-read: model {drv['back']} vs implementation {real_back}")
        if "again" in obs and bio_of(drv["again"]) != [obs["again"]]:
            problems.append(f"second write: model {drv['again']} vs implementation {obs['again']}")
        bad = []
        if "err" in obs["back"]:
            bad.append(f"re-reading raised {obs['back']['err']}: {obs['back'].get('msg')}")
        elif obs["again"] != obs["bio"]:
            bad.append("the second write differs from the first")
        return Judgement(not problems, not bad, in_scope=bool(drv.get("scope", True)), nontrivial=True, tags=tuple(tags),
                         detail="; ".join(bad + problems)[:1500])

    def _precomputed(self, cases: Iterator[Dict[str, Any]]) -> Iterator[Dict[str, Any]]:
        """runs the real round trips of a chunk of cases in worker processes (the implementation side is
        pure per case); `run_impl` then finds the observation in the cache"""
        import itertools
        import multiprocessing
        build_record({"len": 60, "circ": False})          # import antismash before forking
        ctx = multiprocessing.get_context("fork")
        with ctx.Pool(WORKERS) as pool:
            while True:
                chunk = list(itertools.islice(cases, 480))
                if not chunk:
                    break
                for case, obs in zip(chunk, pool.map(_observe, chunk, chunksize=8)):
                    self._cache[self.key(case)] = obs
                yield from chunk

    def small_scope(self) -> Iterator[Dict[str, Any]]:
        """record length 60, every 1..3 protoclusters from a 3-value grid incl. equal coordinates, every insertion
        order, with one gene; candidate clusters and regions from the pipeline's own constructors"""
        import itertools
        spots = [(10, 20), (10, 30), (25, 40)]
        n = 0
        for k in (1, 2, 3):
            for combo in itertools.product(range(3), repeat=k):
                for circ in (False, True):
                    protos = []
                    for i, s in enumerate(combo):
                        lo, hi = spots[s]
                        protos.append({"core": simple(lo, hi, None), "loc": simple(max(0, lo - 5), hi + 5, None),
                                       "tool": "rule-based-clusters", "product": self.PRODUCTS[i], "cutoff": 5, "nbhd": 5,
                                       "rule": f"r{i}", "category": "other", "side": None, "notes": []})
                    genes: List[Dict[str, Any]] = []
                    self._add_gene(random.Random(n), {"input": genes}, "c0", simple(12, 24, 1), 12, [], True)
                    yield {"f": "record", "len": 60, "circ": circ, "input": genes, "annot": [], "domains": [],
                           "generics": [], "subs": [], "protos": protos, "cands": "auto", "regions": True}
                    n += 1
        self.exhaustive_done = True

    # ------------------------------------------------------------------ implementation adapter
    _cache: Dict[str, Dict[str, Any]] = {}

    def run_impl(self, case: Dict[str, Any]) -> Dict[str, Any]:
        cached = self._cache.pop(self.key(case), None)
        if cached is not None:
            return cached
        return self.observe(case)

    def observe(self, case: Dict[str, Any]) -> Dict[str, Any]:
        if case["f"] == "prepeptide":
            return self.observe_prepeptide(case)
        if case["f"] == "qualtext":
            return self.observe_qualtext(case)
        if case["f"] == "dom":
            return self.observe_dom(case)
        if case["f"] == "annot":
            return self.observe_annot(case)
        if case["f"] == "feat":
            return self.observe_feat(case)
        try:
            rec = build_record(case)
        except Exception as exc:  # pylint: disable=broad-except
            # the generated layout is not a record the pipeline can build (belongs to C03-C06, not C10)
            return {"skip": err_kind(exc), "msg": str(exc)[:200]}
        if sum(1 for _ in rec.all_features) >= 64:
            return {"skip": "too-many-features"}
        try:
            state = dump_record(rec)
            first = rec.to_biopython()
            w1 = dump_bios(first)
            text1 = write_text(rec)
            taxon = case.get("taxon", "bacteria")
            re_gb = read_text(text1, taxon)
            text2 = write_text(re_gb)
            json1 = json_text(rec)
            re_json = read_json(json1, taxon)
            json2 = json_text(re_json)
            return {"state": state, "w1": w1, "re_gb": dump_record(re_gb), "re_json": dump_record(re_json),
                    "w2": dump_bios(re_json.to_biopython()), "text_fixed": text1 == text2, "json_fixed": json1 == json2,
                    "seq_same": str(rec.seq) == str(re_gb.seq) == str(re_json.seq),
                    "topology_same": rec.is_circular() == re_gb.is_circular() == re_json.is_circular(),
                    "meta_gb": meta_diff(dump_meta(rec), dump_meta(re_gb), True),
                    "meta_json": meta_diff(dump_meta(rec), dump_meta(re_json), False),
                    "id_same": rec.id == re_gb.id == re_json.id,
                    "text_diff": "" if text1 == text2 else _first_diff(text1, text2)}
        except Exception as exc:  # pylint: disable=broad-except
            import traceback
            return {"err": err_kind(exc), "msg": str(exc)[:300], "trace": traceback.format_exc()[-500:]}

    @staticmethod
    def observe_prepeptide(case: Dict[str, Any]) -> Dict[str, Any]:
        """location part of the real Prepeptide.to_biopython / from_biopython, outside any record"""
        from antismash.common.secmet.features import Prepeptide
        location = common.make_location(case["loc"])
        total = len(location) // 3
        try:
            pre = Prepeptide(location, "lanthipeptide", "C" * (total - case["ld"] - case["tl"]), "locus", "lanthipeptides",
                             "Class-I", 1.5, 800.1, 801.2, [], leader="M" * case["ld"], tail="G" * case["tl"])
            bios = pre.to_biopython()
            core = next(b for b in bios if b.qualifiers["prepeptide"] == ["core"])
            written = {"core": common.location_json(core.location),
                       "leader": core.qualifiers.get("leader_location", [None])[0],
                       "tail": core.qualifiers.get("tail_location", [None])[0],
                       "pieces": [[b.qualifiers["prepeptide"][0], str(b.location)] for b in bios]}
        except Exception as exc:  # pylint: disable=broad-except
            return {"err": err_kind(exc), "msg": str(exc)[:200]}
        try:
            back = Prepeptide.from_biopython(core)
            return {"written": written, "re": common.location_json(back.location),
                    "again": [[b.qualifiers["prepeptide"][0], str(b.location)] for b in back.to_biopython()]}
        except Exception as exc:  # pylint: disable=broad-except
            return {"written": written, "re_err": err_kind(exc), "msg": str(exc)[:200]}

    def driver_line(self, case: Dict[str, Any], obs: Dict[str, Any]) -> Optional[Dict[str, Any]]:
        if case["f"] == "prepeptide":
            return dict(case, re=obs.get("re"))
        if case["f"] == "feat" and case["kind"] == "cds":
            return None if "cds_state" not in obs else dict(obs["cds_state"], f="feat", kind="cds")
        if case["f"] == "feat" and case["kind"] == "extmotif":
            return {"f": "feat", "kind": "extmotif", "written": obs["written"], "original": obs["original"]}
        if case["f"] == "feat":
            if "state" not in obs:
                return None
            if case["kind"] == "pfam":
                return {"f": "feat", "kind": "pfam", "d": obs["state"]["d"], "x": obs["state"]["x"]}
            return dict({k: v for k, v in obs["state"].items() if k != "domains"}, f="feat", kind="module", domains=case["domains"])
        if case["f"] == "annot":
            if "state" not in obs:
                return None
            if "mutated" in obs:
                return {"f": "annot", "kind": case["kind"], "quals": obs["mutated"]}
            if case["kind"] == "t2pks":
                return dict({k: v for k, v in obs["state"].items() if not k.startswith("@")}, f="annot", kind="t2pks")
            return dict(obs["state"], f="annot", kind="pfam")
        if case["f"] == "dom":
            if "state" not in obs:
                return None
            if "mutated" in obs:
                return {"f": "dom", "kind": case["kind"], "bio": obs["mutated"]}
            return {"f": "dom", "kind": case["kind"], "d": {k: v for k, v in obs["state"].items() if not k.startswith("@")}}
        if case["f"] == "qualtext":
            if case["kind"] == "secmet":
                # numbers travel as the text Python writes for them (`str(float)`, `str(int)`: trusted layer)
                return dict(case, domains=[dict(d, evalue=str(float(d["evalue"])), bitscore=str(float(d["bitscore"])),
                                                nseeds=str(int(d["nseeds"]))) for d in case["domains"]])
            return case
        if "state" not in obs:
            return None
        line = {"f": "record", "rec": for_model(obs["state"]), "re_gb": for_model(obs["re_gb"]),
                "re_json": for_model(obs["re_json"]), "bacteria": case.get("taxon", "bacteria") == "bacteria"}
        if any(" " in (c["smiles"] or "") for c in obs["re_gb"]["cands"]):
            line["re_gb_smiles"] = dict(line["re_gb"], cands=[dict(c, smiles=c["smiles"].replace(" ", "") if c["smiles"] else c["smiles"])
                                                              for c in line["re_gb"]["cands"]])
        if obs["state"]["pre_locs"]:
            # prepeptides are judged on their attribute dumps (where the recorded finding
            # KF-C10-prepeptide-location-parts can set the part structure of the location aside), not by the Lean view
            def without(state: Dict[str, Any]) -> Dict[str, Any]:
                return dict(state, others=[f for f in state["others"] if not _is_prepeptide(f)])
            line["spec_rec"] = without(line["rec"])
            line["re_gb"] = without(line["re_gb"])
            line["re_json"] = without(line["re_json"])
            if "re_gb_smiles" in line:
                line["re_gb_smiles"] = without(line["re_gb_smiles"])
        return line

    def judge_prepeptide(self, case: Dict[str, Any], obs: Dict[str, Any], drv: Dict[str, Any]) -> Judgement:
        scope = bool(drv["scope"])
        tags = ["prepeptide-location", "compound" if case["loc"]["c"] else "simple",
                "reverse" if case["loc"]["parts"][0][2] == -1 else "forward"]
        if "err" in obs:
            # the cut itself is C09's subject; here only: the model refuses what the code refuses
            corr = "err" in drv["written"]
            return Judgement(corr, True, in_scope=False, tags=tuple(tags + ["refused:" + obs["err"]]),
                             detail="" if corr else f"model {drv['written']} vs implementation {obs}")
        problems = []
        w = drv["written"].get("ok")
        real = {k: obs["written"][k] for k in ("core", "leader", "tail")}
        if w != real:
            problems.append(f"written: model {drv['written']} vs implementation {real}")
        if "re" in obs and drv["reread"] != obs["re"]:
            problems.append(f"re-read location: model {drv['reread']} vs implementation {obs['re']}")
        corr = not problems
        # spec: the re-read location is the original one (the translated part of it), and writes the same pieces
        whole = sum(p[1] - p[0] for p in case["loc"]["parts"]) % 3 == 0
        bad = []
        if "re_err" in obs:
            bad.append(f"re-reading raised {obs['re_err']}: {obs.get('msg')}")
        else:
            if not drv["impl_bases_ok"]:
                bad.append("the re-read location does not have the gene's translated bases in transcription order")
            if whole and obs["re"] != case["loc"]:
                bad.append(f"location {case['loc']['parts']} came back as {obs['re']['parts']}")
            if obs["again"] != obs["written"]["pieces"]:
                bad.append(f"second write {obs['again']} differs from the first {obs['written']['pieces']}")
        known = None
        if bad and "re" in obs and drv["impl_bases_ok"] and obs["again"] == obs["written"]["pieces"] and \
                (not whole or drv["impl_merged"] == drv["orig_merged"]):
            known = KF_PREPEPTIDE     # only the cut into parts differs
        if not corr and w == real and "re" in obs and drv["impl_merged"] == drv["model_merged"]:
            # the model is the repaired code (fixes/D107); until that is applied the implementation's re-read
            # location may differ from the model's in the cut into parts only — the same recorded finding
            known = KF_PREPEPTIDE
        detail = "; ".join(bad + problems)
        return Judgement(corr, not bad, in_scope=scope, known=known, nontrivial=case["ld"] + case["tl"] > 0,
                         tags=tuple(tags), detail=detail[:1200])

    def judge(self, case: Dict[str, Any], obs: Dict[str, Any], drv: Optional[Dict[str, Any]]) -> Judgement:
        if case["f"] == "prepeptide":
            assert drv is not None
            return self.judge_prepeptide(case, obs, drv)
        if case["f"] == "qualtext":
            assert drv is not None
            return self.judge_qualtext(case, obs, drv)
        if case["f"] == "feat":
            return self.judge_feat(case, obs, drv or {})
        if case["f"] == "annot":
            return self.judge_annot(case, obs, drv or {})
        if case["f"] == "dom":
            if drv is None:
                return self.judge_dom(case, obs, {})
            return self.judge_dom(case, obs, drv)
        if "skip" in obs:
            return Judgement(True, True, in_scope=False, tags=("skipped:" + obs["skip"],))
        if "err" in obs:
            known = None
            named = any(a.get("side") is not None and a["tool"].startswith("externally annotated")
                        for a in case.get("subs", []) + case.get("protos", []))
            if named and obs["err"] in ("RuntimeError", "RecursionError") and "recursion" in str(obs.get("msg")):
                known = KF_SIDE_TOOL
            return Judgement(True, False, known=known, tags=("err:" + obs["err"],),
                             detail=f"a round trip raised {obs['err']}: {obs.get('msg')} {obs.get('trace')}")
        assert drv is not None
        if "err" in drv and "w1" not in drv:
            return Judgement(False, True, detail=f"driver error {drv['err']}")
        state = obs["state"]
        tags = ["circular" if state["circ"] else "linear"]
        # ---- correspondence: first write, re-read state, second write
        problems = []
        def ext_sorted(bios: Any) -> Any:
            """an external CDS_motif is one opaque feature to the record model, which writes dictionaries key-sorted; the
            real ExternalCDSMotif re-appends its original qualifiers after the placeholders are dropped (their order is
            modelled by `extWrite` in Model/SerialQual.lean, not by the record model)"""
            if not isinstance(bios, list):
                return bios
            return [dict(b, quals=sorted(b["quals"], key=lambda q: q[0]))
                    if b["type"] == "CDS_motif" and not any(q[0] == "aSTool" for q in b["quals"]) else b for b in bios]
        w1 = ext_sorted(drv["w1"].get("ok"))
        real_w1 = ext_sorted(modelled_bios(obs["w1"], state["pre_locs"]))
        if w1 != real_w1:
            problems.append("first write: " + _list_diff(w1, real_w1, drv["w1"]))
        r1 = drv["r1"].get("ok")
        real_r1 = for_model(obs["re_json"])
        if r1 is None or canon_state(r1) != canon_state(real_r1):
            problems.append("re-read state: " + _state_diff(r1, real_r1, drv["r1"]))
        w2 = ext_sorted(drv["w2"].get("ok"))
        real_w2 = ext_sorted(modelled_bios(obs["w2"], obs["re_json"]["pre_locs"]))
        if w2 != real_w2:
            problems.append("second write: " + _list_diff(w2, real_w2, drv["w2"]))
        if drv["cores"] != [c["coreloc"] for c in state["cands"]]:
            problems.append(f"candidate core locations: model {drv['cores']} vs {[c['coreloc'] for c in state['cands']]}")
        if not drv["rj_same"]:
            problems.append("model: JSON path differs from the direct path")
        corr = not problems
        # ---- spec on the implementation's outputs
        bad = [k for k in ("spec_gb", "spec_json") if drv.get(k) is not True]
        bad += [k for k in ("text_fixed", "json_fixed", "seq_same", "topology_same", "id_same") if not obs[k]]
        bad += [f"record data after {path}: {obs[k]}" for k, path in (("meta_gb", "GenBank"), ("meta_json", "JSON")) if obs[k]]
        # every attribute of every feature that is not an area (the classes the model treats as opaque
        # qualifier text), incl. the operator of compound locations and the parts of prepeptides
        diff_gb = attrs_diff(state["attrs"], obs["re_gb"]["attrs"], textual=True)
        diff_json = attrs_diff(state["attrs"], obs["re_json"]["attrs"], textual=False)
        attr_bad = []
        if diff_gb:
            attr_bad.append("attributes after GenBank: " + diff_gb)
        if diff_json:
            attr_bad.append("attributes after JSON: " + diff_json)
        other_bad = list(bad)
        bad += attr_bad
        spec_ok = not bad
        detail = "; ".join(problems)
        if bad:
            detail = f"round trip changed the record: {bad} {obs.get('text_diff', '')}; " + detail
        scope = bool(drv["swo"] and drv["nodup"] and drv["scope_wf"])
        for key in ("swo", "sorted", "scope_wf"):
            if not drv[key]:
                tags.append("not-" + key)
        if state["protos"]:
            tags.append("protoclusters")
        if any(p["side"] is not None for p in state["protos"]) or any(s["side"] is not None for s in state["subs"]):
            tags.append("sideloaded")
        if len({(repr(p["feat"]["loc"])) for p in state["protos"]}) < len(state["protos"]):
            tags.append("equal-coordinate-protoclusters")
        if len({(repr(c["feat"]["loc"])) for c in state["cands"]}) < len(state["cands"]):
            tags.append("equal-coordinate-candidates")
        if any(f["codon"] is not None for f in state["cdss"]):
            tags.append("codon_start")
        if any(f["loc"]["c"] for f in state["cdss"]):
            tags.append("multi-part-cds")
        if any(a["feat"]["loc"]["c"] for a in state["protos"] + state["subs"] + state["cands"] + state["regs"]):
            tags.append("origin-spanning-area")
        for c in state["cands"]:
            tags.append("cand:" + c["kind"])
        if state["regs"]:
            tags.append("regions")
        nontrivial = bool(state["protos"] or state["subs"] or case.get("annot"))
        if case.get("prepeptides"):
            tags.append("prepeptide")
        if any(d.get("score") == 0.0 for d in case.get("domains", [])):
            tags.append("zero-score-domain")
        if any(f["loc"].get("op") == "order" for f in case.get("input", [])):
            tags.append("order-location")
        if case.get("modules"):
            tags.append("module")
        known = None
        if not spec_ok and not (drv["swo"] and drv["sorted"]):
            # the recorded class: the feature ordering is inconsistent on this record (see known_findings.json)
            known = KF_ORDER
        elif not spec_ok:
            rest = list(other_bad)
            # GenBank path only: with the spaces taken out of the SMILES strings the re-read areas are the original ones
            smiles = "spec_gb" in rest and drv.get("spec_gb_smiles") is True and \
                any(len(c.get("smiles") or "") > 50 for c in (case["cands"] if case.get("cands") != "auto" else []))
            if smiles:
                rest.remove("spec_gb")
            if set(rest) <= {"text_fixed"}:
                if attr_bad:
                    known = self._known_class(case, obs, text_excused=smiles)
                elif smiles:
                    known = KF_SMILES
        return Judgement(corr, spec_ok, in_scope=scope, known=known, nontrivial=nontrivial, tags=tuple(sorted(set(tags))),
                         detail=detail[:1500])

    @staticmethod
    def _known_class(case: Dict[str, Any], obs: Dict[str, Any], text_excused: bool = False) -> Optional[str]:
        """the recorded attribute-level findings (known_findings.json); a case belongs to one of them only when,
        apart from exactly what the finding describes, no attribute of any feature differs"""
        has_pre = bool(case.get("prepeptides"))
        # a qualifier line holds 58 characters: /name="value" is split (at no space: anywhere) beyond that
        long_pre = any(len(p["leader"]) > 40 or len(p["core"]) > 42 or len(p["tail"]) > 42 for p in case.get("prepeptides", []))
        colon = any(product is None and ":" in desc for a in case.get("annot", []) for _f, _t, desc, product in a["functions"])

        def fixed(value: Any, fmt: str) -> Any:
            return float(format(value, fmt)) if isinstance(value, float) else value

        def lossy(obj: Any) -> bool:
            if isinstance(obj, list):
                return any(lossy(x) for x in obj)
            if not isinstance(obj, dict):
                return False
            return blur(obj, (False, False, False, True)) != obj
        Flags = Tuple[bool, bool, bool, bool]

        def blur(obj: Any, flags: Flags) -> Any:
            parts, func, spaces, numbers = flags
            if isinstance(obj, list):
                return [blur(x, flags) for x in obj]
            if not isinstance(obj, dict):
                return obj
            if numbers and "_evalue" in obj:
                obj = dict(obj, _evalue=fixed(obj["_evalue"], ".2E"))
            if obj.get("cls") == "Prepeptide":
                if parts:
                    # the same bases in the same transcription order, whatever the cut into parts
                    obj = dict(obj, **{"@loc": merge_in_transcription_order(obj["@loc"]["parts"])})
                if spaces:
                    obj = dict(obj, **{k: obj[k].replace(" ", "") for k in ("_leader", "_core", "_tail")})
                if numbers:
                    obj = dict(obj, _score=fixed(obj["_score"], ".2f"), monoisotopic_mass=fixed(obj["monoisotopic_mass"], ".1f"),
                               molecular_weight=fixed(obj["molecular_weight"], ".1f"),
                               alternative_weights=[fixed(w, ".1f") for w in obj["alternative_weights"]])
            if func and obj.get("cls") == "_GeneFunctionAnnotation":
                text = obj["description"] if not obj["product"] else f"{obj['product']}: {obj['description']}"
                return {"cls": obj["cls"], "function": obj["function"], "tool": obj["tool"], "text": text.replace(" ", "")}
            return {k: blur(v, flags) for k, v in obj.items()}

        def same(flags: Flags) -> bool:
            a = blur(obs["state"]["attrs"], flags)
            return not attrs_diff(a, blur(obs["re_gb"]["attrs"], flags), textual=True) and \
                not attrs_diff(a, blur(obs["re_json"]["attrs"], flags), textual=False)
        classes = [((False, True, False, False), colon, KF_FUNCTION), ((True, False, False, False), has_pre, KF_PREPEPTIDE),
                   ((False, False, True, False), long_pre, KF_PRE_SEQUENCE),
                   ((False, False, False, True), lossy(obs["state"]["attrs"]), KF_PRECISION)]
        applicable = [c for c in classes if c[1]]
        for flags, _, kf in applicable:
            if same(flags) and (obs["text_fixed"] or flags[2] or text_excused):
                return kf
        if len(applicable) > 1:
            union = tuple(any(c[0][i] for c in applicable) for i in range(4))
            if same(union) and (obs["text_fixed"] or union[2] or text_excused):   # several recorded findings at once
                return applicable[0][2]
        return None

    def shrink(self, case: Dict[str, Any]) -> Iterator[Dict[str, Any]]:
        if case["f"] != "record":
            return
        for key in ("input", "annot", "domains", "modules", "prepeptides", "generics", "subs"):
            items = case.get(key, [])
            for i in range(len(items)):
                new = dict(case)
                new[key] = items[:i] + items[i + 1:]
                _prune(new)
                yield new
        protos = case.get("protos", [])
        for i in range(len(protos)):
            new = dict(case, protos=protos[:i] + protos[i + 1:])
            if case.get("cands") != "auto":
                cands = []
                for c in case["cands"]:
                    children = [j if j < i else j - 1 for j in c["children"] if j != i]
                    if children:
                        cands.append(dict(c, children=children, kind=c["kind"] if len(children) > 1 else "single"))
                new["cands"] = cands
            yield new
        if case.get("cands") != "auto":
            for i in range(len(case["cands"])):
                yield dict(case, cands=case["cands"][:i] + case["cands"][i + 1:])
        if case.get("regions", True):
            yield dict(case, regions=False)


def _is_prepeptide(feat: Dict[str, Any]) -> bool:
    return feat["type"] == "CDS_motif" and any(q[0] == "prepeptide" for q in feat["quals"])


def merge_in_transcription_order(parts: List[List[Any]]) -> List[List[Any]]:
    """parts (given in transcription order) with two consecutive ones joined when the second continues exactly
    where the first stops: upwards on the forward strand, downwards on the reverse strand"""
    out: List[List[Any]] = []
    for lo, hi, strand in parts:
        if out and out[-1][2] == strand:
            plo, phi, _ = out[-1]
            if strand == -1 and hi == plo:
                out[-1] = [lo, phi, strand]
                continue
            if strand != -1 and lo == phi:
                out[-1] = [plo, hi, strand]
                continue
        out.append([lo, hi, strand])
    return out


def _prune(case: Dict[str, Any]) -> None:
    """drops annotations whose CDS / domains are no longer part of the case"""
    names = {q[1][0] for f in case.get("input", []) if f["type"] == "CDS" for q in f["quals"] if q[0] == "locus_tag"}
    case["annot"] = [a for a in case.get("annot", []) if a["cds"] in names]
    case["domains"] = [d for d in case.get("domains", []) if d["cds"] in names]
    case["prepeptides"] = [d for d in case.get("prepeptides", []) if d["cds"] in names]
    have = {d["n"] for d in case["domains"]}
    modules = []
    for m in case.get("modules", []):
        doms = [n for n in m["domains"] if n in have]
        if doms:
            modules.append(dict(m, domains=doms))
    case["modules"] = modules


def _observe(case: Dict[str, Any]) -> Dict[str, Any]:
    return PROP_INSTANCE.observe(case)


def _first_diff(a: str, b: str) -> str:
    la, lb = a.splitlines(), b.splitlines()
    for i, (x, y) in enumerate(zip(la, lb)):
        if x != y:
            return f"line {i}: {x.strip()!r} vs {y.strip()!r}"
    return f"length {len(la)} vs {len(lb)} lines"


def _list_diff(model: Any, impl: Any, raw: Any) -> str:
    if model is None:
        return f"model error {raw}"
    if len(model) != len(impl):
        return f"{len(model)} vs {len(impl)} features; model types {[f['type'] for f in model]} impl {[f['type'] for f in impl]}"
    for i, (x, y) in enumerate(zip(model, impl)):
        if x != y:
            return f"feature {i}: model {x} vs implementation {y}"
    return "?"


def _state_diff(model: Any, impl: Any, raw: Any) -> str:
    if model is None:
        return f"model error {raw}"
    a, b = canon_state(model), canon_state(impl)
    for key in a:
        if a[key] != b.get(key):
            if isinstance(a[key], list) and isinstance(b.get(key), list):
                only_a = [x for x in a[key] if x not in b[key]]
                only_b = [x for x in b[key] if x not in a[key]]
                return f"{key}: only in the model {only_a[:1]} only in the implementation {only_b[:1]}"
            return f"{key}: model {a[key]} vs implementation {b.get(key)}"
    return "?"


PROP = C10
PROP_INSTANCE = C10()
